"""C10 — rendering is pure: colours never change layout and output has no memory
(ak/color.py palettes + caches, ak/ppobj.py printable objects, ak/ghist.py report, ak/hdoc.py help).

A case is a *history*: configurations are created / dropped / made global, printable objects are
rendered coloured / without colours / line by line under them.  The real code runs the history on
live objects; the Lean driver runs it on the palette state machine of `Model/PaletteState.lean`.
What the driver gets about an object is its *shape* (lines of chunks, each with the palette class
and accessor the real code used for it — obtained with tagging palettes on a fresh copy of the
object), never colours: palettes, caches and colour resolution are the model's.
"""
import ast
import gc
import os
import re
import types

from harness.core import enc_str, dec_str

PROPERTY = "C10"
READY = False
STATEFUL = True
PARALLEL = False
THEOREMS = []

ESC = "\x1b"

# ------------------------------------------------------------------ palette classes of the package


def _classes():
    """ordered list of (name, class): the index is the class id of the protocol"""
    from ak.ppobj import PrettyPrinter, FieldType, _DefaultTitleFieldType, PPTable, PPRecordFmt, PPEnumFieldType
    from ak.ghist import GHistReport
    from ak.hdoc import HCommand
    from ak.color import GlobalPalette
    return [
        ("PPPalette", PrettyPrinter.PPPalette),
        ("RecordPalette", FieldType.RecordPalette),
        ("TitlePalette", _DefaultTitleFieldType.TitlePalette),
        ("TablePalette", PPTable.TablePalette),
        ("PPRecordPalette", PPRecordFmt.PPRecordPalette),
        ("EnumPalette", PPEnumFieldType.EnumPalette),
        ("GHistPalette", GHistReport.GHistPalette),
        ("HCmdPalette", HCommand.HCmdPalette),
        ("GlobalPalette", GlobalPalette),
    ]


_CID = None


def _cid(cls):
    global _CID
    if _CID is None:
        _CID = {c: i for i, (_, c) in enumerate(_classes())}
    return _CID[cls]


def _sid(s):
    """syntax id -> protocol token ('@' = empty id)"""
    if not re.fullmatch(r"[A-Za-z0-9_.]*", s):
        raise ValueError("syntax id %r cannot be written in the protocol" % s)
    return s or "@"


def _descr_token(init_str):
    """colour description string -> 'parent~fg~bg~mods' (structure found by the package's own parser;
    concrete colours are passed as the SGR element the package makes of them)"""
    from ak.color import _ColorConfColorDescr, _ColorSequences
    parent, fg, bg, mods = _ColorConfColorDescr._parse_init_str(init_str)

    def spec(c, is_bg):
        if c is None or c == "":
            return "i"
        if c == "-":
            return "s"
        return _ColorSequences._make_seq_element(c, is_bg)
    m = "".join("-" if n not in mods else ("1" if mods[n] else "0")
                for n in ("bold", "faint", "underline", "blink", "crossed"))
    extra = set(mods) - {"bold", "faint", "underline", "blink", "crossed"}
    if extra:
        raise ValueError("unknown modifiers %s" % sorted(extra))
    return "%s~%s~%s~%s" % ("!" if parent is None else _sid(parent), spec(fg, False), spec(bg, True), m)


def _items_token(flat):
    if not flat:
        return "-"
    return ";".join("%s~%s" % (_sid(k), _descr_token(v)) for k, v in flat.items())


# ------------------------------------------------------------------ translator
def _lean_str(s):
    if not all(32 <= ord(c) < 127 and c not in '"\\' for c in s):
        raise ValueError("constant %r is not plain printable ASCII" % s)
    return '"%s".toList' % s


def _lean_descr(init_str):
    parent, fg, bg, mods = _descr_token(init_str).split("~")

    def spec(t):
        return ".inherit" if t == "i" else ".system" if t == "s" else "(.elem %s)" % _lean_str(t)
    ms = "[%s]" % ", ".join("none" if c == "-" else "some true" if c == "1" else "some false" for c in mods)
    par = "none" if parent == "!" else "(some %s)" % _lean_str("" if parent == "@" else parent)
    return "{ parent := %s, fg := %s, bg := %s, mods := %s }" % (par, spec(fg), spec(bg), ms)


def _enum_key_mode(repo):
    """how PPEnumFieldType keys its cell cache: 'object' (cache_key = field_palette) or 'id' (id(field_palette))"""
    tree = ast.parse(open(os.path.join(repo, "ak", "ppobj.py")).read())
    for node in ast.walk(tree):
        if isinstance(node, ast.ClassDef) and node.name == "PPEnumFieldType":
            for fn in node.body:
                if isinstance(fn, ast.FunctionDef) and fn.name == "make_desired_cell_ch_chunks":
                    for st in ast.walk(fn):
                        if (isinstance(st, ast.Assign) and len(st.targets) == 1 and isinstance(st.targets[0], ast.Name)
                                and st.targets[0].id == "cache_key"):
                            v = st.value
                            if isinstance(v, ast.Name) and v.id == "field_palette":
                                return "object"
                            if (isinstance(v, ast.Call) and isinstance(v.func, ast.Name) and v.func.id == "id"
                                    and len(v.args) == 1 and isinstance(v.args[0], ast.Name) and v.args[0].id == "field_palette"):
                                return "id"
                            raise ValueError("cache_key of PPEnumFieldType is neither the palette nor its id()")
    raise ValueError("PPEnumFieldType.make_desired_cell_ch_chunks / cache_key not found")


def translate(repo):
    from ak.color import ColorsConfig, CompoundPalette
    classes = _classes()
    lines = ["-- GENERATED by harness/c10.py:translate from /repo/ak/{color,ppobj,ghist,hdoc}.py -- do not edit",
             "import AkVerif.Model.PaletteState",
             "namespace Gen.C10", "open PaletteState", ""]
    builtin = ColorsConfig._flatten_dict(ColorsConfig.BUILT_IN_CONFIG)
    lines.append("def dfltId : SyntId := %s" % _lean_str(ColorsConfig.DFLT_SYNTAX_ID))
    lines.append("def builtin : List (SyntId × Descr) := [")
    lines.append(",\n".join("  (%s, %s)" % (_lean_str(k), _lean_descr(v)) for k, v in builtin.items()))
    lines.append("]")
    lines.append("def classes : List ClassInfo := [")
    rows = []
    for name, c in classes:
        parents = c.PARENT_PALETTES or []
        for p in parents:
            _cid(p)
        if c.SYNTAX_DEFAULTS is None:
            dfl = "none"
        else:
            flat = ColorsConfig._flatten_dict(c.SYNTAX_DEFAULTS)
            dfl = "(some [%s])" % ", ".join("(%s, %s)" % (_lean_str(k), _lean_descr(v)) for k, v in flat.items())
        sub = getattr(c, "SUB_PALETTES_MAP", None) or {}
        if sub:
            raise ValueError("%s.SUB_PALETTES_MAP is not empty: not modelled" % name)
        loc = ", ".join(_lean_str(s) for s in c._LOCAL_SYNTAX.values())
        rows.append("  -- %d %s: accessors %s\n  { compound := %s, parents := [%s], defaults := %s, localSyntax := [%s] }" % (
            len(rows), name, " ".join(c._LOCAL_SYNTAX.keys()),
            "true" if issubclass(c, CompoundPalette) else "false",
            ", ".join(str(_cid(p)) for p in parents), dfl, loc))
    lines.append(",\n".join(rows))
    lines.append("]")
    lines.append("def globalPaletteClass : ClassId := %d" % [n for n, _ in classes].index("GlobalPalette"))
    lines.append("/-- `cache_key = field_palette` (true) or `id(field_palette)` (false) in PPEnumFieldType -/")
    lines.append("def enumKeyIsObject : Bool := %s" % ("true" if _enum_key_mode(repo) == "object" else "false"))
    lines.append("def cfg : Cfg := { dfltId := dfltId, builtin := builtin, classes := classes, gpClass := globalPaletteClass, "
                 "keyByObj := enumKeyIsObject }")
    lines += ["", "end Gen.C10", ""]
    return {"AkVerif/Gen/C10.lean": "\n".join(lines)}


# ------------------------------------------------------------------ objects (built from JSON-able specs)
class _Missing:
    pass


def _val(v):
    """spec value -> python value (JSON keeps ints/strs/None/bools; tuples are written as {"t": [...]})"""
    if isinstance(v, dict) and set(v) == {"t"}:
        return tuple(_val(x) for x in v["t"])
    if isinstance(v, dict) and set(v) == {"d"}:
        return {_val(k): _val(x) for k, x in v["d"]}
    if isinstance(v, list):
        return [_val(x) for x in v]
    return v


def _mk_enum(spec, cls=None):
    from ak.ppobj import PPEnumFieldType
    cls = cls or PPEnumFieldType
    values = {}
    for val, name, synt in spec["values"]:
        values[_val(val)] = name if synt == "" else (name, synt)
    if spec.get("missing"):
        values[PPEnumFieldType.MISSING] = tuple(spec["missing"])
    return cls(values)


class _Stub(types.SimpleNamespace):
    pass


def _mk_buildnum(b):
    from ak.ghist import BuildNumData
    if b == "not_built":
        return BuildNumData.mk_fake_not_built()
    if b == "not_merged":
        return BuildNumData.mk_fake_not_merged()
    return BuildNumData(*b)


def _mk_ghist(spec):
    """GHistReport over stub report data: only what ReportFormatter reads"""
    from ak.ghist import GHistReport, ReportFormatter

    def commit(c):
        return _Stub(hexsha=c["sha"], committed_date=c["date"], message=c["msg"], author=_Stub(name=c["author"]))

    def build(b):
        rb = _Stub(build_num=_mk_buildnum(b["num"]),
                   rcommit=_Stub(commit=commit(b["commit"])) if b.get("commit") else None,
                   included_at=[(r, br, _mk_buildnum(n)) for r, br, n in b.get("included_at", [])],
                   bumps={name: _Stub(to_buildnum=_mk_buildnum(t), from_build_nums=[_mk_buildnum(f) for f in fr])
                          for name, t, fr in b.get("bumps", [])})
        rcs = [_Stub(commit=commit(c)) for c in b.get("commits", [])]
        rb.get_printable_rcommits = lambda: rcs
        return rb

    data = []
    for repo_id, branches in spec["repos"]:
        brs = []
        for name, builds in branches:
            bl = [build(b) for b in builds]
            br = _Stub(branch_name=name)
            br.get_rbuilds_list = (lambda bl=bl: bl)
            brs.append(br)
        data.append((repo_id, _Stub(branches=brs)))
    return GHistReport(data, ReportFormatter())


def _mk_hfunc(spec):
    from ak.hdoc import h_doc
    ns = {}
    exec("def %s(%s):\n    pass\n" % (spec["name"], spec["args"]), ns)
    f = ns[spec["name"]]
    f.__doc__ = spec["doc"]
    return h_doc(f)


class _Obj:
    """a printable object of a history with its uniform rendering interface"""

    def __init__(self, spec, enums, enum_cls=None):
        from ak.ppobj import PrettyPrinter, PPTable, PPRecordFmt
        self.spec = spec
        self.kind = spec["kind"]
        k = self.kind
        if k == "pp":
            self.printer = PrettyPrinter(fmt_json=spec.get("json", False))
            self.value = _val(spec["value"])
        elif k == "table":
            types_ = {f: enums[e] for f, e in spec.get("types", {}).items()}
            titles = {f: _val(t) for f, t in spec.get("titles", {}).items()} or None
            self.table = PPTable([tuple(_val(x) for x in r) for r in spec["records"]], fields=spec["fields"],
                                 fmt=spec.get("fmt"), fields_types=types_ or None, fields_titles=titles,
                                 header=spec.get("header"), footer=spec.get("footer"),
                                 limits=tuple(spec["limits"]) if spec.get("limits") else None)
        elif k == "rec":
            types_ = {f: enums[e] for f, e in spec.get("types", {}).items()}
            self.fmt = PPRecordFmt(spec["fmt"], fields=spec["fields"], fields_types=types_ or None)
            self.record = tuple(_val(x) for x in spec["record"])
        elif k == "ghist":
            self.report = _mk_ghist(spec)
        elif k == "hcmd":
            self.func = _mk_hfunc(spec)
        else:
            raise ValueError("unknown kind " + k)

    @property
    def proto_kind(self):
        return {"rec": "rec", "hcmd": "hcmd"}.get(self.kind, "obj")

    def top_class(self):
        from ak.ppobj import PrettyPrinter, PPTable, PPRecordFmt
        from ak.ghist import GHistReport
        from ak.hdoc import HCommand
        return {"pp": PrettyPrinter, "table": PPTable, "rec": PPRecordFmt, "ghist": GHistReport,
                "hcmd": HCommand}[self.kind].PALETTE_CLASS

    def result(self, conf, no_color, palette=None):
        """the lazily evaluated result object (or its closest analogue)"""
        kw = dict(palette=palette) if palette is not None else dict(no_color=no_color, colors_conf=conf)
        k = self.kind
        if k == "pp":
            return self.printer(self.value, **kw)
        if k == "table":
            return self.table.ch_text(**kw)
        if k == "rec":
            return self.fmt(self.record, **kw)
        if k == "ghist":
            return self.report.ch_text(**kw)
        raise ValueError(k)

    def lines(self, conf, no_color, palette=None):
        """iteration over the result: list of generated lines (CHText or list of chunks)"""
        from ak.hdoc import HCommand
        if self.kind == "hcmd":
            h = HCommand()          # palette of the global configuration, made at construction
            if palette is not None:
                h._c = palette
            return list(h._gen_ch_lines(self.func, HCommand._DFLT_FILT_ARG, dets_level=h.dets_level, fmt_oneline=False))
        if self.kind == "rec":
            return list(self.result(conf, no_color, palette).columns)
        return list(self.result(conf, no_color, palette))

    def observe(self, conf, mode):
        """the protocol reply of `render` for the real objects"""
        from ak.hdoc import HCommand
        nc = mode in ("n", "m")
        if self.kind == "hcmd":
            return "ok " + enc_str(HCommand()._make_help_text(self.func))
        res = self.result(conf, nc)
        if self.kind == "rec":
            return "ok %s %s" % (enc_str(str(res)), enc_str(str(res.ch_text())))
        if mode == "c":
            return "ok " + enc_str(str(res))
        if mode == "n":
            return "ok %s %s" % (enc_str(str(res)), enc_str(res.plain_text()))
        lines = [_line_str(l) for l in res]
        whole = str(res)
        return "ok %s %d%s" % (enc_str(whole), len(lines), "".join(" " + enc_str(l) for l in lines))


def _line_str(line):
    """what printing one generated line gives: a CHText, or the list of chunks of a table row"""
    if isinstance(line, (list, tuple)):
        return "".join(str(c) for c in line)
    return str(line)


# ------------------------------------------------------------------ shapes: tagging palettes
_PROBE_CLS = None


def _probe_class():
    global _PROBE_CLS
    if _PROBE_CLS is None:
        from ak.color import Palette

        class _ProbePalette(Palette):
            """stands for a palette object; its accessors tag chunks with (class id, accessor number)"""

            def get_color(self, synt_id):
                return self._taggers.get(synt_id, self._taggers["text"])

            def get_sub_palette(self, palette_class, modifier_name=None):
                assert modifier_name is None
                self._log.append(_cid(palette_class))
                sub = self._subs.get(palette_class)
                if sub is None:
                    sub = self._subs[palette_class] = _mk_probe(palette_class, self._log)
                return sub
        _PROBE_CLS = _ProbePalette
    return _PROBE_CLS


def _mk_probe(real_cls, log):
    from ak.color import CHText
    p = object.__new__(_probe_class())
    p._log, p._subs, p._taggers = log, {}, {}
    for i, acc in enumerate(real_cls._LOCAL_SYNTAX):
        def tagger(text, _pre="\x00c%d.%d\x01" % (_cid(real_cls), i)):
            return CHText.Chunk(_pre, text, "\x02")
        p._taggers[acc] = tagger
        object.__setattr__(p, acc, tagger)
    return p


def _probe_enum_class():
    from ak.ppobj import PPEnumFieldType
    from ak.color import CHText

    class _ProbeEnum(PPEnumFieldType):
        """re-tags the chunks that come out of the cell cache with (enum number, value number)"""

        def make_desired_cell_ch_chunks(self, value, fmt_modifier, field_palette):
            chunks, align = super().make_desired_cell_ch_chunks(value, fmt_modifier, field_palette)
            v = self._vreg.setdefault(value, len(self._vreg))
            out = []
            for c in chunks:
                assert c.c_prefix.startswith("\x00c"), "enum cell chunk without palette tag"
                out.append(CHText.Chunk("\x00e%d.%d.%s" % (self._eid, v, c.c_prefix[2:]), c.text, c.c_suffix))
            return out, align
    return _ProbeEnum


def shape_of(spec, enum_specs, vregs):
    """(top class id, sub-palette requests, lines) of a fresh copy of the object; `vregs[e]` numbers the
    cell values of enum type e (by dict identity, as the cell cache does) consistently over a case"""
    pe = _probe_enum_class()
    enums = {}
    for e, es in enum_specs.items():
        ft = _mk_enum(es, pe)
        ft._eid, ft._vreg = int(e), vregs.setdefault(e, {})
        enums[e] = ft
    obj = _Obj(spec, enums)
    log = []
    probe = _mk_probe(obj.top_class(), log)
    lines = []
    for line in obj.lines(None, False, palette=probe):
        raw = isinstance(line, (list, tuple))
        chunks = []
        for c in (line if raw else line.chunks):
            if c.c_prefix == "":
                tag = "p"
            else:
                assert c.c_prefix[0] == "\x00" and c.c_prefix[-1] == "\x01", repr(c.c_prefix)
                tag = c.c_prefix[1:-1]
            chunks.append("%s=%s" % (tag, "" if c.text == "" else enc_str(c.text)))
        lines.append(";".join(["r" if raw else "m"] + chunks))
    subs = []
    for c in log:
        if c not in subs:
            subs.append(c)
    return "%d %s %s" % (_cid(obj.top_class()), ",".join(map(str, subs)) or "-", "/".join(lines) or "-")


# ------------------------------------------------------------------ running a history on the real code
def _reset():
    """fresh interpreter state, as far as the colour machinery is concerned"""
    import ak.color as color
    for _, c in _classes():
        c._PALETTE_NO_COLOR = None
    for c in list(color._GSYNCED_PALETTES):
        if c is not color.GlobalPalette:
            del color._GSYNCED_PALETTES[c]
    color.set_global_colors_config(color.ColorsConfig())
    gc.collect()


def _err(e):
    return "err " + type(e).__name__


def _replay(case, on_render=None):
    """runs the operations of a case on live objects; returns the replies.
    on_render(i, obj_spec, conf, mode): called after the i-th line (a render) was answered."""
    import ak.color as color
    _reset()
    confs, enums, objs = {}, {}, {}
    out = []
    for i, line in enumerate(case["lines"]):
        op, *a = line.split()
        try:
            if op == "conf":
                confs[a[0]] = color.ColorsConfig(case["confs"][a[0]]["items"], no_color=a[1] == "1")
                out.append("ok")
            elif op == "drop":
                del confs[a[0]]
                gc.collect()
                out.append("ok")
            elif op == "setglobal":
                color.set_global_colors_config(confs[a[0]])
                gc.collect()
                out.append("ok")
            elif op == "enum":
                enums[a[0]] = _mk_enum(case["enums"][a[0]])
                out.append("ok")
            elif op == "dropenum":
                del enums[a[0]]
                for o in [o for o, ob in objs.items() if a[0] in ob.spec.get("types", {}).values()]:
                    del objs[o]
                gc.collect()
                out.append("ok")
            elif op == "render":
                o, k, mode = case["obj_of_line"][str(i)], a[1], a[2]
                if o not in objs:
                    objs[o] = _Obj(case["objs"][o], enums)
                conf = None if k == "g" else confs[k]
                out.append(objs[o].observe(conf, mode))
                if on_render is not None:
                    on_render(i, o, conf if conf is not None else color.get_global_colors_config(), mode)
            elif op == "gp":
                acc = list(color.GlobalPalette._LOCAL_SYNTAX)[int(a[0])]
                out.append("ok " + enc_str(str(getattr(color.global_palette, acc)("x"))))
            elif op == "gpi":
                out.append("ok " + enc_str(str(color.global_palette["" if a[0] == "@" else a[0]]("x"))))
            else:
                out.append("bad-op")
        except Exception as e:
            out.append(_err(e))
    return out


def impl(case):
    try:
        return _replay(case)
    finally:
        _reset()
