"""C10 — rendering is pure: colours never change layout and output has no memory
(ak/color.py palettes + caches, ak/ppobj.py printable objects, ak/ghist.py report, ak/hdoc.py help).

A case is a *history*: configurations are created / dropped / made global, printable objects are
rendered coloured / without colours / line by line under them.  The real code runs the history on
live objects; the Lean driver runs it on the palette state machine of `Model/PaletteState.lean`.
What the driver gets about an object is its *shape* (lines of chunks, each with the palette class
and accessor the real code used for it — obtained with tagging palettes on a fresh copy of the
object), never colours: palettes, caches and colour resolution are the model's.
"""
import ast
import gc
import os
import re
import types

from harness.core import enc_str, dec_str

PROPERTY = "C10"
READY = True
STATEFUL = True
PARALLEL = False
RULE = ("[phase 2: + lazy results requested under one configuration and consumed later / partly / by interleaved "
        "iterators (`res`/`str`/`iter`/`next`), the implicit global configuration mixed with explicit ones, tables that "
        "share a format object or are re-formatted after a printing, mixed-type enum values, materialise-then-iterate, "
        "line-end characters in contents, the palette argument (none / palette class / palette object) with explicit or "
        "implicit configuration and no_color; round 5: line objects kept and rendered afterwards, two enum field types with "
        "overlapping values (reference also from a fresh interpreter), equally named helper-made palette classes; round 6: "
        "texts handed out by a result (fixed_len / get_ch_text / + / slices) extended in place by the caller before the "
        "result is consumed again, the palette given as the object synced with the global configuration x no_color; round 7: "
        "console help about objects / bound methods / classes whose hook hands out stored, possibly shared notes, asked "
        "several times; round 8: customised compound palettes — four palette classes derived from PPTable.TablePalette / "
        "PPRecordFmt.PPRecordPalette whose SUB_PALETTES_MAP substitutes the palette classes of the cells (enum / number+keyword / "
        "title palettes, with built-in ids only or with syntax ids of their own that get registered at first use), given "
        "as palette=<class> or palette=<object of it> for eager renderings and as palette=<class> for lazy results, "
        "x coloured / no_color / line-wise, mixed with the default palettes of the same objects under the same "
        "configurations (stream `customised-palettes` and 15% of the table / record renderings of the other streams)] histories of 3-16 operations over 1-5 configurations (created, dropped with gc.collect(), made global), 1-2 enum "
        "field types and 2-4 printable objects of all five kinds (pretty-printed data, tables incl. enum columns / limits / "
        "break lines / multi-line titles / truncation, record formats, git history reports over stub data, console help), "
        "each rendered coloured, without colours, line by line (before or after the whole text); streams: random, `reuse` "
        "(an enum table under a configuration that is then discarded, then under a new one, with allocation pressure that "
        "hands the freed palette addresses to the new palettes), `late` (descriptions that wait for ids registered by palette "
        "classes), `late-aba`. non-trivial = at least two renderings with a configuration change in between; distinct by "
        "protocol text")
TRUSTED = ["fresh-interpreter references: a server process that only imported the package forks one child per request "
           "(used when a history has several enum field types, to see state shared between objects of a class)",
           "shape extraction: a fresh copy of the object is rendered with tagging palettes (harness/c10.py:_mk_probe); the "
           "model never sees the layout code of PrettyPrinter / PPTable / PPRecordFmt / ReportFormatter / HDocItem",
           "the package's own description parser (_parse_init_str) and SGR element maker (_make_seq_element) feed the "
           "protocol (their correctness is C14 / C09)",
           "CPython 3.12 pymalloc behaviour is used only to provoke address reuse, never for a verdict"]
ASSUMPTIONS = ["an operation of the model that raises leaves the state as it was (`step`), whereas a real rendering that raises "
               "midway may already have registered palette classes in the configuration; no generated history makes a "
               "rendering raise on the unchanged tree (any `err` reply is an oracle failure `render-raises`), so the partial "
               "effects of failing renderings are outside the theorems and outside the tie",
               "strip_eq is stated with C09's model of strip_colors (Sgr.strip) over the character class generated from the "
               "pattern in ak/color.py; the driver executes it on every coloured whole text (mode c)",
               "content has no ESC character (hypothesis of C10.strip_eq / nocolor_no_esc; generators never emit one)",
               "C10.history_free for coloured renderings: every description of the configuration was resolved at creation "
               "(`closed`) and no accessor used waits for another palette class (`tagStableAt`, evaluated on the class that "
               "serves the chunk, i.e. after SUB_PALETTES_MAP of the object's palette class: false for number / "
               "constant cells in table titles, which use TitlePalette with RecordPalette's ids, and for the inherited "
               "number / keyword accessors of a substituted palette class that declares SYNTAX_DEFAULTS of its own; counted "
               "in the evidence as render:with-accessor-waiting-for-another-class); the dangling case is the known finding late_resolution, kept as a "
               "checked counter-example in Props/C10.lean",
               "SUB_PALETTES_MAP: keys are palette classes (no (class, modifier) keys — get_sub_palette is only ever called without a "
               "modifier in the package) and the accessors of the requested class are the first accessors of the class used "
               "instead (checked by the translator: chunks are tagged by requested class and accessor number)",
               "circular descriptions that only appear when a palette class registers its defaults (e.g. {'WARN': "
               "'TABLE.WARN'}: every table rendering raises AssertionError) are outside the model (reply OUT-OF-FUEL) and "
               "are not generated"]
THEOREMS = ["C10.cfg_ok", "C10.key_by_object", "C10.driver_alloc_valid", "C10.reachable_inv", "C10.layout_indep", "C10.history_free", "C10.history_free_steady", "C10.same_description_same_output", "C10.sub_palette_follows_parent", "C10.no_substitution_no_change", "C10.nocolor_no_esc", "C10.strip_pattern_ok", "C10.strip_eq", "C10.lazy_lines_history_free", "C10.lazy_whole_history_free", "C10.lines_eq_whole", "C10.same_colors_same_output", "C10.registration_keeps_colors", "C10.whole_memo_stable", "C10.set_global_resyncs", "C10.gp_synced"]

ESC = "\x1b"

# ------------------------------------------------------------------ palette classes of the package


def _classes():
    """ordered list of (name, class): the index is the class id of the protocol"""
    from ak.ppobj import PrettyPrinter, FieldType, _DefaultTitleFieldType, PPTable, PPRecordFmt, PPEnumFieldType
    from ak.ghist import GHistReport
    from ak.hdoc import HCommand
    from ak.color import GlobalPalette
    return [
        ("PPPalette", PrettyPrinter.PPPalette),
        ("RecordPalette", FieldType.RecordPalette),
        ("TitlePalette", _DefaultTitleFieldType.TitlePalette),
        ("TablePalette", PPTable.TablePalette),
        ("PPRecordPalette", PPRecordFmt.PPRecordPalette),
        ("EnumPalette", PPEnumFieldType.EnumPalette),
        ("GHistPalette", GHistReport.GHistPalette),
        ("HCmdPalette", HCommand.HCmdPalette),
        ("GlobalPalette", GlobalPalette),
        ("AppPalette(APPA)", _user_classes()[0]),
        ("AppPalette(APPB)", _user_classes()[1]),
    ] + [(c.__name__, c) for c in _custom_classes()]


_USER = None


def _user_classes():
    """two palette classes for pretty-printed data made by one helper: same module and qualified name, different
    syntax ids (one palette per application / theme); given as `palette=<class>`"""
    global _USER
    if _USER is None:
        from ak.ppobj import PrettyPrinter
        from ak.color import ConfColor

        def mk_app_palette(app, num, key):
            class AppPalette(PrettyPrinter.PPPalette):
                SYNTAX_DEFAULTS = {app + ".NUM": num, app + ".KEY": key}
                number = ConfColor(app + ".NUM")
                name = ConfColor(app + ".KEY")
            return AppPalette
        _USER = [mk_app_palette("APPA", "RED:bold", "NAME:underline"), mk_app_palette("APPB", "CYAN", "MAGENTA/g4")]
    return _USER


_CUSTOM = None


def _custom_classes():
    """customised compound palettes (the documented way to change the colours of cells: a palette class derived from
    the component's compound palette whose SUB_PALETTES_MAP substitutes the palette classes of the parts) and the
    palette classes they substitute.  [CellEnumA, CellRecA, CellEnumB, CellTitleB, TableA, TableB, RecA, RecB];
    the last four are given as `palette=` (pk 3..6)"""
    global _CUSTOM
    if _CUSTOM is None:
        from ak.ppobj import PPTable, PPRecordFmt, PPEnumFieldType, FieldType, _DefaultTitleFieldType
        from ak.color import ConfColor

        class CellEnumA(PPEnumFieldType.EnumPalette):          # built-in ids only
            value = ConfColor("NUMBER")
            name_good = ConfColor("OK")
            name_warn = ConfColor("WARN")

        class CellRecA(FieldType.RecordPalette):
            number = ConfColor("KEYWORD")

        class CellEnumB(PPEnumFieldType.EnumPalette):          # registers ids of its own when first used
            SYNTAX_DEFAULTS = {"CELL.GOOD": "CYAN:bold", "CELL.BAD": "ERROR:underline"}
            name_good = ConfColor("CELL.GOOD")
            error = ConfColor("CELL.BAD")
            keyword = ConfColor("NAME")

        class CellTitleB(_DefaultTitleFieldType.TitlePalette):
            col_title = ConfColor("NAME")
            title = ConfColor("KEYWORD")

        class TableA(PPTable.TablePalette):
            SUB_PALETTES_MAP = {PPEnumFieldType.EnumPalette: CellEnumA, FieldType.RecordPalette: CellRecA}

        class TableB(PPTable.TablePalette):
            SUB_PALETTES_MAP = {PPEnumFieldType.EnumPalette: CellEnumB, _DefaultTitleFieldType.TitlePalette: CellTitleB}

        class RecA(PPRecordFmt.PPRecordPalette):
            SUB_PALETTES_MAP = {PPEnumFieldType.EnumPalette: CellEnumA}

        class RecB(PPRecordFmt.PPRecordPalette):
            SUB_PALETTES_MAP = {PPEnumFieldType.EnumPalette: CellEnumB, FieldType.RecordPalette: CellRecA}
        _CUSTOM = [CellEnumA, CellRecA, CellEnumB, CellTitleB, TableA, TableB, RecA, RecB]
    return _CUSTOM


# palette classes that a history may give as `palette=`: protocol digit -> (kind of object, class)
def _given_classes():
    u, c = _user_classes(), _custom_classes()
    return {"1": ("pp", u[0]), "2": ("pp", u[1]), "3": ("table", c[4]), "4": ("table", c[5]),
            "5": ("rec", c[6]), "6": ("rec", c[7])}


_PK_DIGITS = "123456"
_PK_FOR_KIND = {"pp": "12", "table": "34", "rec": "56"}


def _pk_class(pk):
    """the digit of the palette class in a palette token (c / o / s / n / <digit> / o<digit>), or "n" """
    d = pk[-1:]
    return d if d in _PK_DIGITS else "n"


_CID = None


def _cid(cls):
    global _CID
    if _CID is None:
        _CID = {c: i for i, (_, c) in enumerate(_classes())}
    return _CID[cls]


def _sid(s):
    """syntax id -> protocol token ('@' = empty id)"""
    if not re.fullmatch(r"[A-Za-z0-9_.]*", s):
        raise ValueError("syntax id %r cannot be written in the protocol" % s)
    return s or "@"


def _descr_token(init_str):
    """colour description string -> 'parent~fg~bg~mods' (structure found by the package's own parser;
    concrete colours are passed as the SGR element the package makes of them)"""
    from ak.color import _ColorConfColorDescr, _ColorSequences
    parent, fg, bg, mods = _ColorConfColorDescr._parse_init_str(init_str)

    def spec(c, is_bg):
        if c is None or c == "":
            return "i"
        if c == "-":
            return "s"
        return _ColorSequences._make_seq_element(c, is_bg)
    m = "".join("-" if n not in mods else ("1" if mods[n] else "0")
                for n in ("bold", "faint", "underline", "blink", "crossed"))
    extra = set(mods) - {"bold", "faint", "underline", "blink", "crossed"}
    if extra:
        raise ValueError("unknown modifiers %s" % sorted(extra))
    return "%s~%s~%s~%s" % ("!" if parent is None else _sid(parent), spec(fg, False), spec(bg, True), m)


def _items_token(flat):
    if not flat:
        return "-"
    return ";".join("%s~%s" % (_sid(k), _descr_token(v)) for k, v in flat.items())


# ------------------------------------------------------------------ translator
def _lean_str(s):
    if not all(32 <= ord(c) < 127 and c not in '"\\' for c in s):
        raise ValueError("constant %r is not plain printable ASCII" % s)
    return '"%s".toList' % s


def _lean_descr(init_str):
    parent, fg, bg, mods = _descr_token(init_str).split("~")

    def spec(t):
        return ".inherit" if t == "i" else ".system" if t == "s" else "(.elem %s)" % _lean_str(t)
    ms = "[%s]" % ", ".join("none" if c == "-" else "some true" if c == "1" else "some false" for c in mods)
    par = "none" if parent == "!" else "(some %s)" % _lean_str("" if parent == "@" else parent)
    return "{ parent := %s, fg := %s, bg := %s, mods := %s }" % (par, spec(fg), spec(bg), ms)


def _enum_key_mode(repo):
    """how PPEnumFieldType keys its cell cache: 'object' (cache_key = field_palette) or 'id' (id(field_palette))"""
    tree = ast.parse(open(os.path.join(repo, "ak", "ppobj.py")).read())
    for node in ast.walk(tree):
        if isinstance(node, ast.ClassDef) and node.name == "PPEnumFieldType":
            for fn in node.body:
                if isinstance(fn, ast.FunctionDef) and fn.name == "make_desired_cell_ch_chunks":
                    for st in ast.walk(fn):
                        if (isinstance(st, ast.Assign) and len(st.targets) == 1 and isinstance(st.targets[0], ast.Name)
                                and st.targets[0].id == "cache_key"):
                            v = st.value
                            if isinstance(v, ast.Name) and v.id == "field_palette":
                                return "object"
                            if (isinstance(v, ast.Call) and isinstance(v.func, ast.Name) and v.func.id == "id"
                                    and len(v.args) == 1 and isinstance(v.args[0], ast.Name) and v.args[0].id == "field_palette"):
                                return "id"
                            raise ValueError("cache_key of PPEnumFieldType is neither the palette nor its id()")
    raise ValueError("PPEnumFieldType.make_desired_cell_ch_chunks / cache_key not found")


def translate(repo):
    from ak.color import ColorsConfig, CompoundPalette
    classes = _classes()
    lines = ["-- GENERATED by harness/c10.py:translate from /repo/ak/{color,ppobj,ghist,hdoc}.py -- do not edit",
             "import AkVerif.Model.PaletteState",
             "import AkVerif.Model.Sgr",
             "namespace Gen.C10", "open PaletteState", ""]
    builtin = ColorsConfig._flatten_dict(ColorsConfig.BUILT_IN_CONFIG)
    lines.append("def dfltId : SyntId := %s" % _lean_str(ColorsConfig.DFLT_SYNTAX_ID))
    lines.append("def builtin : List (SyntId × Descr) := [")
    lines.append(",\n".join("  (%s, %s)" % (_lean_str(k), _lean_descr(v)) for k, v in builtin.items()))
    lines.append("]")
    lines.append("def classes : List ClassInfo := [")
    rows = []
    for name, c in classes:
        parents = c.PARENT_PALETTES or []
        for p in parents:
            _cid(p)
        if c.SYNTAX_DEFAULTS is None:
            dfl = "none"
        else:
            flat = ColorsConfig._flatten_dict(c.SYNTAX_DEFAULTS)
            dfl = "(some [%s])" % ", ".join("(%s, %s)" % (_lean_str(k), _lean_descr(v)) for k, v in flat.items())
        sub = getattr(c, "SUB_PALETTES_MAP", None) or {}
        if sub and not issubclass(c, CompoundPalette):
            raise ValueError("%s has SUB_PALETTES_MAP and is not a CompoundPalette" % name)
        for req, act in sub.items():
            if isinstance(req, tuple):
                raise ValueError("%s.SUB_PALETTES_MAP has a (class, modifier) key: not modelled" % name)
            # chunks are tagged (requested class, accessor number): the accessors of the requested class must be
            # the first accessors of the class used instead, in the same order
            rk, ak_ = list(req._LOCAL_SYNTAX), list(act._LOCAL_SYNTAX)
            if ak_[:len(rk)] != rk:
                raise ValueError("%s.SUB_PALETTES_MAP: accessors of %s do not start with those of %s" % (name, act, req))
        loc = ", ".join(_lean_str(s) for s in c._LOCAL_SYNTAX.values())
        rows.append("  -- %d %s: accessors %s\n  { compound := %s, parents := [%s], defaults := %s, localSyntax := [%s], "
                    "subMap := [%s] }" % (
            len(rows), name, " ".join(c._LOCAL_SYNTAX.keys()),
            "true" if issubclass(c, CompoundPalette) else "false",
            ", ".join(str(_cid(p)) for p in parents), dfl, loc,
            ", ".join("(%d, %d)" % (_cid(r), _cid(a)) for r, a in sub.items())))
    lines.append(",\n".join(rows))
    lines.append("]")
    # the pattern of CHText.strip_colors, read the way C09's translator reads it (\\d = Unicode decimal digits)
    from harness import c09
    lits, ranges, fin = c09._strip_pattern(ast.parse(open(os.path.join(repo, "ak", "color.py")).read()))
    lines.append("def stripClass : Sgr.CharClass where")
    lines.append("  lits := [%s]" % ", ".join("Char.ofNat %d" % c for c in lits))
    lines.append("  ranges := [%s]" % ", ".join("(%d, %d)" % (a, b) for a, b in ranges))
    lines.append("def stripFinal : Char := Char.ofNat %d" % fin)
    lines.append("def globalPaletteClass : ClassId := %d" % [n for n, _ in classes].index("GlobalPalette"))
    lines.append("/-- `cache_key = field_palette` (true) or `id(field_palette)` (false) in PPEnumFieldType -/")
    lines.append("def enumKeyIsObject : Bool := %s" % ("true" if _enum_key_mode(repo) == "object" else "false"))
    lines.append("def cfg : Cfg := { dfltId := dfltId, builtin := builtin, classes := classes, gpClass := globalPaletteClass, "
                 "keyByObj := enumKeyIsObject }")
    lines += ["", "end Gen.C10", ""]
    return {"AkVerif/Gen/C10.lean": "\n".join(lines)}


# ------------------------------------------------------------------ objects (built from JSON-able specs)
class _Missing:
    pass


def _val(v):
    """spec value -> python value (JSON keeps ints/strs/None/bools; tuples are written as {"t": [...]})"""
    if isinstance(v, dict) and set(v) == {"t"}:
        return tuple(_val(x) for x in v["t"])
    if isinstance(v, dict) and set(v) == {"d"}:
        return {_val(k): _val(x) for k, x in v["d"]}
    if isinstance(v, list):
        return [_val(x) for x in v]
    return v


def _mk_enum(spec, cls=None):
    from ak.ppobj import PPEnumFieldType
    cls = cls or PPEnumFieldType
    values = {}
    for val, name, synt in spec["values"]:
        values[_val(val)] = name if synt == "" else (name, synt)
    if spec.get("missing"):
        values[PPEnumFieldType.MISSING] = tuple(spec["missing"])
    return cls(values)


class _Stub(types.SimpleNamespace):
    pass


def _mk_buildnum(b):
    from ak.ghist import BuildNumData
    if b == "not_built":
        return BuildNumData.mk_fake_not_built()
    if b == "not_merged":
        return BuildNumData.mk_fake_not_merged()
    return BuildNumData(*b)


def _mk_ghist(spec):
    """GHistReport over stub report data: only what ReportFormatter reads"""
    from ak.ghist import GHistReport, ReportFormatter

    def commit(c):
        return _Stub(hexsha=c["sha"], committed_date=c["date"], message=c["msg"], author=_Stub(name=c["author"]))

    def build(b):
        rb = _Stub(build_num=_mk_buildnum(b["num"]),
                   rcommit=_Stub(commit=commit(b["commit"])) if b.get("commit") else None,
                   included_at=[(r, br, _mk_buildnum(n)) for r, br, n in b.get("included_at", [])],
                   bumps={name: _Stub(to_buildnum=_mk_buildnum(t), from_build_nums=[_mk_buildnum(f) for f in fr])
                          for name, t, fr in b.get("bumps", [])})
        rcs = [_Stub(commit=commit(c)) for c in b.get("commits", [])]
        rb.get_printable_rcommits = lambda: rcs
        return rb

    data = []
    for repo_id, branches in spec["repos"]:
        brs = []
        for name, builds in branches:
            bl = [build(b) for b in builds]
            br = _Stub(branch_name=name)
            br.get_rbuilds_list = (lambda bl=bl: bl)
            brs.append(br)
        data.append((repo_id, _Stub(branches=brs)))
    return GHistReport(data, ReportFormatter())


def _mk_hfunc(spec):
    from ak.hdoc import h_doc
    ns = {}
    exec("def %s(%s):\n    pass\n" % (spec["name"], spec["args"]), ns)
    f = ns[spec["name"]]
    f.__doc__ = spec["doc"]
    return h_doc(f)


def _mk_hclass(spec):
    """an h-doc friendly class and an instance of it; the hook `_get_hdoc_method_notes` either builds the notes of a
    method on every call or hands out notes objects that were made once (stored; several methods may share one)"""
    from ak.hdoc import h_doc, BoundMethodNotes
    ns = {"__doc__": spec["doc"]}
    for m in spec["methods"]:
        loc = {}
        exec("def %s(self%s):\n    pass\n" % (m["name"], (", " + m["args"]) if m["args"] else ""), loc)
        loc[m["name"]].__doc__ = m["doc"]
        ns[m["name"]] = loc[m["name"]]
    which = {m["name"]: m.get("notes") for m in spec["methods"]}
    notes_spec = spec.get("notes", [])

    def mk(i):
        a, sh, ln = notes_spec[i]
        return BoundMethodNotes(bool(a), sh, ln)
    if spec.get("hook") in ("stored", "fresh"):
        stored = spec["hook"] == "stored"

        def _get_hdoc_method_notes(self, bound_method, _c):
            """Notes for h-doc.

            #no_hdoc
            """
            i = which.get(bound_method.__name__)
            if i is None:
                return BoundMethodNotes(True, "", "")
            return self._notes[i] if stored else mk(i)
        ns["_get_hdoc_method_notes"] = _get_hdoc_method_notes
    cls = h_doc(type(spec["name"], (), ns))
    inst = cls()
    inst._notes = [mk(i) for i in range(len(notes_spec))]       # made once, for the whole life of the object
    return cls, inst


class _Obj:
    """a printable object of a history with its uniform rendering interface"""

    def __init__(self, spec, enums, src=None, fmts=()):
        """src: the table whose format object is taken (spec["fmt_of"]); fmts: formats assigned afterwards"""
        from ak.ppobj import PrettyPrinter, PPTable, PPRecordFmt
        self.spec = spec
        self.kind = spec["kind"]
        k = self.kind
        if k == "pp":
            self.printer = PrettyPrinter(fmt_json=spec.get("json", False))
            self.value = _val(spec["value"])
        elif k == "table" and "fmt_of" in spec:
            self.table = PPTable([tuple(_val(x) for x in r) for r in spec["records"]], fmt_obj=src.table.fmt,
                                 header=spec.get("header"), footer=spec.get("footer"),
                                 limits=tuple(spec["limits"]) if spec.get("limits") else None)
        elif k == "table":
            types_ = {f: enums[e] for f, e in spec.get("types", {}).items()}
            titles = {f: _val(t) for f, t in spec.get("titles", {}).items()} or None
            self.table = PPTable([tuple(_val(x) for x in r) for r in spec["records"]], fields=spec["fields"],
                                 fmt=spec.get("fmt"), fields_types=types_ or None, fields_titles=titles,
                                 header=spec.get("header"), footer=spec.get("footer"),
                                 limits=tuple(spec["limits"]) if spec.get("limits") else None)
        elif k == "rec":
            types_ = {f: enums[e] for f, e in spec.get("types", {}).items()}
            self.fmt = PPRecordFmt(spec["fmt"], fields=spec["fields"], fields_types=types_ or None)
            self.record = tuple(_val(x) for x in spec["record"])
        elif k == "ghist":
            self.report = _mk_ghist(spec)
        elif k == "hcmd" and "inst_of" in spec:
            self.hcls, self.inst = src.hcls, src.inst        # another view (object / method / class) of the same subject
        elif k == "hcmd" and "methods" in spec:
            self.hcls, self.inst = _mk_hclass(spec)
        elif k == "hcmd":
            self.hcls = self.inst = None
            self._func = _mk_hfunc(spec)
        else:
            raise ValueError("unknown kind " + k)
        for f in fmts:
            self.set_fmt(f)

    def set_fmt(self, fmt):
        self.table.fmt = fmt

    @property
    def func(self):
        """what `h(...)` is asked about: a function, an object, one of its bound methods, or the class"""
        if self.inst is None:
            return self._func
        t = self.spec.get("target", "obj")
        return self.inst if t == "obj" else self.hcls if t == "cls" else getattr(self.inst, t[2:])

    def _hcommand(self):
        from ak.hdoc import HCommand
        return HCommand(self.spec.get("level", HCommand._LEVEL_H))

    @property
    def proto_kind(self):
        return {"rec": "rec", "hcmd": "hcmd"}.get(self.kind, "obj")

    def top_class(self, pk="n"):
        """the class of the object's own palette; pk = palette token (or just the digit of a given class)"""
        d = _pk_class(pk)
        if d != "n":
            kind, cls = _given_classes()[d]
            if kind != self.kind:
                raise ValueError("palette class %s is not for a %s" % (d, self.kind))
            return cls
        from ak.ppobj import PrettyPrinter, PPTable, PPRecordFmt
        from ak.ghist import GHistReport
        from ak.hdoc import HCommand
        return {"pp": PrettyPrinter, "table": PPTable, "rec": PPRecordFmt, "ghist": GHistReport,
                "hcmd": HCommand}[self.kind].PALETTE_CLASS

    def result(self, conf, no_color, palette=None, pk="n"):
        """the lazily evaluated result object (or its closest analogue); pk: how the palette is given —
        n: not at all, c: palette=<the palette class>, o: palette=<an object of it made from the configuration>,
        <digit>: palette=<that helper-made / customised palette class>, o<digit>: palette=<an object of that class>"""
        if palette is not None:
            kw = dict(palette=palette)
        elif pk == "c" or pk in _PK_DIGITS:
            kw = dict(palette=self.top_class(pk), no_color=no_color, colors_conf=conf)
        elif pk[0] == "o":
            kw = dict(palette=self.top_class(pk)(colors_conf=conf), no_color=no_color)
        elif pk == "s":            # the palette object of this class that is synced with the global configuration
            kw = dict(palette=self.top_class()(synced=True), no_color=no_color)
        else:
            kw = dict(no_color=no_color, colors_conf=conf)
        k = self.kind
        if k == "pp":
            return self.printer(self.value, **kw)
        if k == "table":
            return self.table.ch_text(**kw)
        if k == "rec":
            return self.fmt(self.record, **kw)
        if k == "ghist":
            return self.report.ch_text(**kw)
        raise ValueError(k)

    def iter_lines(self, conf, no_color, palette=None):
        """lazy iteration over the result (for the kinds that have lazy results)"""
        if self.kind in ("hcmd", "rec"):
            return iter(self.lines(conf, no_color, palette))
        return iter(self.result(conf, no_color, palette))

    def lines(self, conf, no_color, palette=None):
        """iteration over the result: list of generated lines (CHText or list of chunks)"""
        from ak.hdoc import HCommand
        if self.kind == "hcmd":
            h = self._hcommand()    # palette of the global configuration, made at construction
            if palette is not None:
                h._c = palette
            return list(h._gen_ch_lines(self.func, HCommand._DFLT_FILT_ARG, dets_level=h.dets_level, fmt_oneline=False))
        if self.kind == "rec":
            return list(self.result(conf, no_color, palette).columns)
        return list(self.result(conf, no_color, palette))

    def observe_raw(self, conf, mode, pk="n"):
        """what the real objects print, as python strings (encoded into a protocol reply by `_reply`)"""
        from ak.hdoc import HCommand
        nc = mode in ("n", "m", "M")
        if self.kind == "hcmd":
            return (self._hcommand()._make_help_text(self.func),)
        res = self.result(conf, nc, pk=pk)
        if self.kind == "rec":
            return (str(res), str(res.ch_text()))
        if mode == "c":
            from ak.color import CHText
            whole = str(res)
            return (whole, CHText.strip_colors(whole))
        if mode == "n":
            return (str(res), res.plain_text())
        if mode in ("L", "M"):          # the whole text first, then the same result line by line
            whole = str(res)
            return (whole, [_line_str(l) for l in res])
        kept = list(res)                      # the line objects are kept and only then turned into text
        lines = [_line_str(l) for l in kept]
        return (str(res), lines)

    def observe(self, conf, mode):
        """the protocol reply of `render` for the real objects"""
        return _reply(self.observe_raw(conf, mode))


def _reply(raw):
    if len(raw) == 2 and isinstance(raw[1], list):
        return "ok %s %d%s" % (enc_str(raw[0]), len(raw[1]), "".join(" " + enc_str(l) for l in raw[1]))
    return "ok " + " ".join(enc_str(x) for x in raw)


def _line_str(line):
    """what printing one generated line gives: a CHText, or the list of chunks of a table row"""
    if isinstance(line, (list, tuple)):
        return "".join(str(c) for c in line)
    return str(line)


# ------------------------------------------------------------------ shapes: tagging palettes
_PROBE_CLS = None


def _probe_class():
    global _PROBE_CLS
    if _PROBE_CLS is None:
        from ak.color import Palette

        class _ProbePalette(Palette):
            """stands for a palette object; its accessors tag chunks with (class id, accessor number)"""

            def get_color(self, synt_id):
                return self._taggers.get(synt_id, self._taggers["text"])

            def get_sub_palette(self, palette_class, modifier_name=None):
                assert modifier_name is None
                self._log.append(_cid(palette_class))
                sub = self._subs.get(palette_class)
                if sub is None:
                    sub = self._subs[palette_class] = _mk_probe(palette_class, self._log)
                return sub
        _PROBE_CLS = _ProbePalette
    return _PROBE_CLS


def _mk_probe(real_cls, log):
    from ak.color import CHText
    p = object.__new__(_probe_class())
    p._log, p._subs, p._taggers = log, {}, {}
    for i, acc in enumerate(real_cls._LOCAL_SYNTAX):
        def tagger(text, _pre="\x00c%d.%d\x01" % (_cid(real_cls), i)):
            return CHText.Chunk(_pre, text, "\x02")
        p._taggers[acc] = tagger
        object.__setattr__(p, acc, tagger)
    return p


def _probe_enum_class():
    from ak.ppobj import PPEnumFieldType
    from ak.color import CHText

    class _ProbeEnum(PPEnumFieldType):
        """re-tags the chunks that come out of the cell cache with (enum number, value number)"""

        def make_desired_cell_ch_chunks(self, value, fmt_modifier, field_palette):
            chunks, align = super().make_desired_cell_ch_chunks(value, fmt_modifier, field_palette)
            v = self._vreg.setdefault((type(value), value), len(self._vreg))      # the key of the cell cache
            out = []
            for c in chunks:
                assert c.c_prefix.startswith("\x00c"), "enum cell chunk without palette tag"
                out.append(CHText.Chunk("\x00e%d.%d.%s" % (self._eid, v, c.c_prefix[2:]), c.text, c.c_suffix))
            return out, align
    return _ProbeEnum


def _fresh(objs, o, enums, fmts=()):
    """a fresh copy of object `o` of a case (and of the table it takes its format object from, never printed)"""
    spec = objs[o]
    src = (_fresh(objs, spec["fmt_of"], enums) if "fmt_of" in spec else
           _fresh(objs, spec["inst_of"], enums) if "inst_of" in spec else None)
    return _Obj(spec, enums, src, fmts)


def shape_of(objs, o, enum_specs, vregs, fmts=(), pk="n"):
    """(top class id, sub-palette requests, lines with the requests made since the previous line) of a fresh
    copy of the object; `vregs[e]` numbers the cell values of enum type e (by dict identity, as the cell cache
    does) consistently over a case"""
    pe = _probe_enum_class()
    enums = {}
    for e, es in enum_specs.items():
        ft = _mk_enum(es, pe)
        ft._eid, ft._vreg = int(e), vregs.setdefault(e, {})
        enums[e] = ft
    obj = _fresh(objs, o, enums, fmts)
    log = []
    top = obj.top_class(pk)
    probe = _mk_probe(top, log)
    lines, subs, seen = [], [], 0
    it = obj.iter_lines(None, False, palette=probe)
    while True:
        try:
            line = next(it)
        except StopIteration:
            break
        reqs = []
        for c in log[seen:]:
            if c not in subs:
                subs.append(c)
                reqs.append(c)
        seen = len(log)
        raw = isinstance(line, (list, tuple))
        chunks = []
        for c in (line if raw else line.chunks):
            if c.c_prefix == "":
                tag = "p"
            else:
                assert c.c_prefix[0] == "\x00" and c.c_prefix[-1] == "\x01", repr(c.c_prefix)
                tag = c.c_prefix[1:-1]
            chunks.append("%s=%s" % (tag, "" if c.text == "" else enc_str(c.text)))
        lines.append(";".join([("r" if raw else "m") + ",".join(map(str, reqs))] + chunks))
    for c in log[seen:]:
        if c not in subs:
            subs.append(c)
    return "%d %s %s" % (_cid(top), ",".join(map(str, subs)) or "-", "/".join(lines) or "-")


# ------------------------------------------------------------------ running a history on the real code
def _reset():
    """fresh interpreter state, as far as the colour machinery is concerned"""
    import ak.color as color
    for _, c in _classes():
        c._PALETTE_NO_COLOR = None
    _HELD.clear()
    _ADDR_CLASS.clear()
    _MISSES.clear()
    if _NPINNED[0] > 3000000:
        _PINNED.clear()
        _NPINNED[0] = 0
    for c in list(color._GSYNCED_PALETTES):
        if c is not color.GlobalPalette:
            del color._GSYNCED_PALETTES[c]
    color.set_global_colors_config(color.ColorsConfig())


def _err(e):
    return "err " + type(e).__name__


# --- allocation pressure (provokes the reuse of addresses of discarded palettes; CPython hands a freed
# block out again to the next object of the same size, the harness only makes sure that this next object
# is a palette of the same class and not some string).  Nothing here touches the package: configurations
# are instances of a ColorsConfig subclass whose cache accessors tell the harness when a palette is about
# to be created / has been created, fillers are bytes objects of the size of a palette object.
_PINNED = []          # fillers that keep uninteresting free blocks occupied (kept over the whole run)
_HELD = {}            # palette class -> fillers sitting on addresses of dead palettes of that class
_ADDR_CLASS = {}      # address -> class of the (coloured) palette that was created there in this case
_MISSES = {}
_SPY = None
_OFF = None           # id(palette) - address of its memory block (GC head + dict pre-header), calibrated
_POOL_FIRST = 48      # offset of the first block of a 16 KiB pymalloc pool


_NPINNED = [0]


def _pin(fillers):
    """keeps the fillers for the rest of the run; as tuples of bytes, which the collector stops tracking"""
    if fillers:
        _NPINNED[0] += len(fillers)
        _PINNED.append(tuple(fillers))


def _filler():
    """a 48-byte object that the garbage collector does not track: the size class of a palette object"""
    return bytes(15)


def _calibrate():
    global _OFF
    if _OFF is None:
        from ak.color import Palette

        class _Probe(Palette):
            pass
        votes = {}
        for _ in range(9):
            o = object.__new__(_Probe)
            a = id(o)
            o = None
            b = _filler()
            votes[a - id(b)] = votes.get(a - id(b), 0) + 1
            _pin([b])
        best = max(votes, key=votes.get)
        _OFF = best if votes[best] >= 5 and 0 <= best <= 64 else -1
    return _OFF


def _about_to_create(cls):
    """a palette of class `cls` is going to be allocated: make the address of a dead palette of the same class
    the next free block, and the only free block of the partially used pools (so that temporaries created
    on the way cannot shuffle it away: they go to a fresh pool)"""
    held = _HELD.pop(cls, None)
    if not held:
        return
    want = set(id(f) for f in held)
    keep = f = None
    n = 0
    pin = []
    held.clear()
    # (no `for ... in range`: a range object and its iterator are palette-sized and would take the blocks)
    while n < 20000:
        n += 1
        f = bytes(15)
        if keep is None and id(f) in want:
            keep = f
        elif keep is not None and (id(f) & 0x3FFF) == _POOL_FIRST:
            break                   # first block of an empty pool: everything before it is occupied now
        else:
            pin.append(f)
    _pin(pin)
    f = None
    keep = None                     # freed last: handed out first


def _spy_conf_class():
    global _SPY
    if _SPY is None:
        from ak.color import ColorsConfig

        class _SpyConf(ColorsConfig):
            __slots__ = ()

            def get_cached_obj(self, cache_key):
                res = super().get_cached_obj(cache_key)
                if res is None:
                    _about_to_create(cache_key)
                return res

            def put_into_cache(self, cache_key, the_obj):
                _ADDR_CLASS[id(the_obj)] = cache_key
                super().put_into_cache(cache_key, the_obj)
        _SPY = _SpyConf
    return _SPY


def _live_palette_ids(confs):
    """ids of the palettes that are still referenced (configuration caches, sub-palettes, per-class caches)"""
    import ak.color as color
    todo = [c._PALETTE_NO_COLOR for _, c in _classes() if c._PALETTE_NO_COLOR is not None]
    todo += list(color._GSYNCED_PALETTES.values())
    for c in list(confs.values()) + [color._GLOBAL_COLORS_CONF]:
        if c is not None:
            todo += list(c._cache.values())
    seen = set()
    while todo:
        p = todo.pop()
        if id(p) not in seen:
            seen.add(id(p))
            todo += list(getattr(p, "_sub_palettes", {}).values())
    return seen


def _capture(confs):
    """right after an operation that released palettes: occupy the addresses of the dead palettes of this
    case, holding them for the next palette of the same class"""
    if not _ADDR_CLASS or _OFF is None or _OFF < 0:
        return
    live = _live_palette_ids(confs)
    held = set(id(f) + _OFF for lst in _HELD.values() for f in lst)
    want = set(a - _OFF for a in _ADDR_CLASS if a not in live and a not in held)
    if not want:
        return
    # a fresh process has many free blocks of this size in front of the interesting ones
    n, limit = 0, (700 if _NPINNED[0] > 40000 else 400000)
    pin = []
    while n < limit:
        n += 1
        f = bytes(15)
        if id(f) in want:
            _HELD.setdefault(_ADDR_CLASS[id(f) + _OFF], []).append(f)
            want.discard(id(f))
            if not want:
                break
        else:
            pin.append(f)
    _pin(pin)
    f = None
    for a in want:            # taken by something else meanwhile: a few more chances, then forget it
        _MISSES[a] = _MISSES.get(a, 0) + 1
        if _MISSES[a] >= 3:
            del _ADDR_CLASS[a + _OFF]


def _flat_descr(conf):
    return {sid: d.init_str for sid, d in conf.syntax_map.items()}


def _replay(case, before=None, after=None):
    """runs the operations of a case on live objects; returns the replies.
    before/after(i, conf): called around the rendering requested by line i with the configuration in force"""
    import ak.color as color
    _reset()
    confs, enums, objs = {}, {}, {}
    spy = _spy_conf_class()
    _calibrate()
    gc.freeze()       # what exists now is not this history's garbage: keeps the forced collections cheap
    failed = set()        # configurations whose constructor raised: what refers to them is skipped
    out = []
    results, iters, fmts, res_conf = {}, {}, {}, {}

    def get_obj(o):
        if o not in objs:
            spec = case["objs"][o]
            src = get_obj(spec["fmt_of"]) if "fmt_of" in spec else get_obj(spec["inst_of"]) if "inst_of" in spec else None
            objs[o] = _Obj(spec, enums, src, fmts.get(o, ()))
        return objs[o]
    for i, op in enumerate(case["ops"]):
        if (op[0] in ("drop", "setglobal") and op[1] in failed or op[0] == "render" and op[2] in failed
                or op[0] == "res" and op[3] in failed
                or op[0] in ("str", "derive") and op[1] not in results or op[0] == "iter" and op[2] not in results
                or op[0] == "next" and op[1] not in iters):
            out.append("skip")
            continue
        try:
            if op[0] == "conf":
                failed.add(op[1])
                confs[op[1]] = spy(case["confs"][op[1]]["items"], no_color=bool(case["confs"][op[1]]["nc"]))
                failed.discard(op[1])
                out.append("ok")
            elif op[0] == "drop":
                del confs[op[1]]
                gc.collect()
                _capture(confs)
                out.append("ok")
            elif op[0] == "setglobal":
                color.set_global_colors_config(confs[op[1]])
                gc.collect()
                _capture(confs)
                out.append("ok")
            elif op[0] == "enum":
                enums[op[1]] = _mk_enum(case["enums"][op[1]])
                out.append("ok")
            elif op[0] == "dropenum":
                del enums[op[1]]
                for o in [o for o, ob in objs.items() if op[1] in ob.spec.get("types", {}).values()]:
                    del objs[o]
                gc.collect()
                _capture(confs)
                out.append("ok")
            elif op[0] == "render":
                _, o, k, mode = op[:4]
                pk = op[4] if len(op) > 4 else "n"
                get_obj(o)
                conf = None if k == "g" else confs[k]
                cur = conf if conf is not None else color.get_global_colors_config()
                if before is not None:
                    before(i, cur)
                raw = objs[o].observe_raw(conf, mode, pk)
                _capture(confs)         # before anything else allocates
                out.append(_reply(raw))
                if after is not None:
                    after(i, cur)
                conf = cur = None       # no hidden reference keeps a dropped configuration alive
            elif op[0] == "setfmt":
                fmts[op[1]] = tuple(fmts.get(op[1], ())) + (op[2],)
                if op[1] in objs:
                    objs[op[1]].set_fmt(op[2])
                out.append("ok")
            elif op[0] == "res":                 # r = obj.ch_text(...): nothing is rendered yet
                _, r, o, k, mode = op[:5]
                conf = None if k == "g" else confs[k]
                cur = conf if conf is not None else color.get_global_colors_config()
                res_conf[r] = cur
                if before is not None:
                    before(("res", r), cur)
                results[r] = get_obj(o).result(conf, mode == "n", pk=op[5] if len(op) > 5 else "n")
                _capture(confs)
                out.append("ok")
                conf = cur = None
            elif op[0] == "str":               # materialise the whole text: str() / plain_text() / len()
                how = op[2] if len(op) > 2 else "s"
                res = results[op[1]]
                raw = str(res) if how == "s" else res.plain_text() if how == "p" else len(res)
                res = None
                _capture(confs)
                out.append("ok %d" % raw if how == "n" else "ok " + enc_str(raw))
                if after is not None:
                    after(i, res_conf[op[1]])
            elif op[0] == "derive":
                # the caller builds something out of a text the result hands out, extending it in place
                res, how = results[op[1]], op[2]
                n = len(res)
                cell = (res.fixed_len(n) if how == "f0" else res.fixed_len(n + 3) if how == "f+" else
                        res.fixed_len(max(0, n - 3)) if how == "f-" else res.get_ch_text() if how == "get" else
                        res + "" if how == "add" else "" + res if how == "radd" else res[0:n])
                cell += " |next cell"
                cell = res = None
                _capture(confs)
                out.append("ok")
            elif op[0] == "iter":
                iters[op[1]] = (iter(results[op[2]]), op[2])
                out.append("ok")
            elif op[0] == "next":
                it, r = iters[op[1]]
                got, n = [], 0
                while n < op[2]:
                    n += 1
                    try:
                        got.append(next(it))
                    except StopIteration:
                        break
                got = [_line_str(l) for l in got]     # collected first, rendered afterwards
                it = None
                _capture(confs)
                out.append("ok %d%s" % (len(got), "".join(" " + enc_str(l) for l in got)))
                if after is not None:
                    after(i, res_conf[r])
            elif op[0] == "gp":
                acc = list(color.GlobalPalette._LOCAL_SYNTAX)[op[1]]
                out.append("ok " + enc_str(str(getattr(color.global_palette, acc)("x"))))
                if after is not None:
                    after(i, color.get_global_colors_config())
            elif op[0] == "gpi":
                out.append("ok " + enc_str(str(color.global_palette[op[1]]("x"))))
                if after is not None:
                    after(i, color.get_global_colors_config())
            else:
                out.append("bad-op")
        except Exception as e:
            out.append(_err(e))
    return out


def impl(case):
    try:
        return _replay(case)
    finally:
        _reset()


def _finish(case):
    """derives the protocol lines from the structured operations (shapes from fresh copies of the objects)"""
    from ak.color import ColorsConfig
    vregs, lines, shapes = {}, [], {}
    live_enums, fmts = {}, {}

    def shape(o, pk="n"):
        spec = case["objs"][o]
        need = {e: live_enums[e] for e in spec.get("types", {}).values()}
        pk = _pk_class(pk)
        key = (o, tuple(sorted(need)), fmts.get(o, ()), pk)
        if key not in shapes:
            shapes[key] = shape_of(case["objs"], o, need, vregs, fmts.get(o, ()), pk)
        return shapes[key]
    for op in case["ops"]:
        if op[0] == "conf":
            c = case["confs"][op[1]]
            lines.append("conf %s %d %s" % (op[1], 1 if c["nc"] else 0, _items_token(ColorsConfig._flatten_dict(c["items"]))))
        elif op[0] in ("drop", "setglobal"):
            lines.append("%s %s" % (op[0], op[1]))
        elif op[0] == "enum":
            live_enums[op[1]] = case["enums"][op[1]]
            lines.append("enum " + op[1])
        elif op[0] == "dropenum":
            live_enums.pop(op[1], None)
            lines.append("dropenum " + op[1])
        elif op[0] == "render":
            _, o, k, mode = op[:4]
            pk = op[4] if len(op) > 4 else "n"
            spec = case["objs"][o]
            kind = {"rec": "rec", "hcmd": "hcmd"}.get(spec["kind"], "obj")
            lines.append("render %s %s %s %s %s" % (o, kind, k, mode + ("+" + pk if pk != "n" else ""), shape(o, pk)))
        elif op[0] == "setfmt":
            fmts[op[1]] = tuple(fmts.get(op[1], ())) + (op[2],)
            lines.append("setfmt %s %s" % (op[1], enc_str(op[2])))
        elif op[0] == "res":
            _, r, o, k, mode = op[:5]
            lines.append("res %s %s %s %s %s" % (r, o, k, mode, shape(o, op[5] if len(op) > 5 else "n")))
        elif op[0] == "str":
            lines.append("str %s %s" % (op[1], op[2] if len(op) > 2 else "s"))
        elif op[0] == "derive":
            lines.append("derive %s %s" % (op[1], op[2]))
        elif op[0] == "iter":
            lines.append("iter %s %s" % (op[1], op[2]))
        elif op[0] == "next":
            lines.append("next %s %d" % (op[1], op[2]))
        elif op[0] == "gp":
            lines.append("gp %d" % op[1])
        elif op[0] == "gpi":
            lines.append("gpi " + _sid(op[1]))
        else:
            raise ValueError(op)
    case["lines"] = lines
    return case


# ------------------------------------------------------------------ oracle: the property itself
_SGR = re.compile("\x1b\\[[0-9;:]*m")


def _strip(s):
    return _SGR.sub("", s)


def _cells(s):
    """every visible character with the escape sequence in force when it is printed"""
    out, cur, i = [], "", 0
    while i < len(s):
        m = _SGR.match(s, i)
        if m:
            cur = "" if m.group(0) == "\x1b[0m" else m.group(0)
            i = m.end()
        else:
            out.append((s[i], cur))
            i += 1
    return out


def _fields(reply):
    return [dec_str(t) for t in reply.split()[1:]]


def _straddles(before, after):
    """a description of the configuration refers to a syntax id that was registered during the rendering"""
    from ak.color import _ColorConfColorDescr
    for v in before.values():
        parent = _ColorConfColorDescr._parse_init_str(v)[0]
        if parent is not None and parent not in before and parent in after:
            return True
    return False


def _reference(case, i, descr, nc, mode):
    """the same object, format and configuration description rendered in a fresh state"""
    import ak.color as color
    _reset()
    op = case["ops"][i]
    o = op[2] if op[0] == "res" else op[1]
    live, fmts = {}, ()
    for p in case["ops"][:i]:
        if p[0] == "enum":
            live[p[1]] = _mk_enum(case["enums"][p[1]])
        elif p[0] == "dropenum":
            live.pop(p[1], None)
        elif p[0] == "setfmt" and p[1] == o:
            fmts += (p[2],)
    obj = _fresh(case["objs"], o, live, fmts)
    conf = color.ColorsConfig(dict(descr), no_color=nc)
    if obj.kind == "hcmd":
        color.set_global_colors_config(conf)
        conf = None
    # a given palette class is part of the request (an object of it made from the configuration = the class)
    pk = _pk_class(op[4]) if op[0] == "render" and len(op) > 4 else _pk_class(op[5]) if op[0] == "res" and len(op) > 5 else "n"
    return _reply(obj.observe_raw(conf, mode, pk))


# --- reference renderings in a fresh interpreter: a server process that has only imported the package forks a child
# per request, so nothing any earlier rendering left behind (class-level or module-level state) can be shared with it
_REF_SERVER = None
_REF_CODE = """
import sys, os, json
from harness import c10
c10._classes()
out = sys.stdout
for line in sys.stdin:
    req = json.loads(line)
    pid = os.fork()
    if pid == 0:
        try:
            rep = c10._reference(req["case"], req["i"], req["descr"], req["nc"], req["mode"])
        except Exception as e:
            rep = "err " + type(e).__name__
        out.write(json.dumps(rep) + "\\n")
        out.flush()
        os._exit(0)
    os.waitpid(pid, 0)
"""


def _reference_fresh_process(case, i, descr, nc, mode):
    global _REF_SERVER
    import json
    import subprocess
    import sys
    from harness import core
    if _REF_SERVER is None or _REF_SERVER.poll() is not None:
        env = dict(os.environ, PYTHONPATH=core.VERIF + os.pathsep + core.REPO, AK_PY_REPO=core.REPO, PYTHONHASHSEED="0")
        _REF_SERVER = subprocess.Popen([sys.executable, "-c", _REF_CODE], stdin=subprocess.PIPE,
                                       stdout=subprocess.PIPE, text=True, env=env, cwd=core.VERIF)
    small = {k: case[k] for k in ("ops", "confs", "enums", "objs")}
    _REF_SERVER.stdin.write(json.dumps({"case": small, "i": i, "descr": descr, "nc": nc, "mode": mode}) + "\n")
    _REF_SERVER.stdin.flush()
    return json.loads(_REF_SERVER.stdout.readline())


_LATE_REPORTED = []


def oracle(case, replies):
    import ak.color as color
    info = {}

    def before(i, conf):
        info[i] = [_flat_descr(conf), None, conf.no_color]

    def after(i, conf):
        if i not in info:
            info[i] = [None, None, conf.no_color]
        info[i][1] = _flat_descr(conf)
    late = None
    pos, res_of_iter, res_at = {}, {}, {}
    try:
        _replay(case, before, after)
        for i, op in enumerate(case["ops"]):
            rep = replies[i]
            if op[0] in ("gp", "gpi"):
                # the synced palette shows the global configuration in force
                if not rep.startswith("ok "):
                    return "gp-raises: %s -> %s" % (op, rep)
                _reset()
                fresh = color.ColorsConfig(dict(info[i][1]), no_color=info[i][2])
                synt = op[1] if op[0] == "gpi" else list(color.GlobalPalette._LOCAL_SYNTAX.values())[op[1]]
                if rep != "ok " + enc_str(str(fresh.get_color(synt)("x"))):
                    return "synced: global_palette %s does not show the colour of the global configuration in force" % (op[1],)
                continue
            if rep == "skip":
                continue
            if op[0] == "iter":
                pos[op[1]] = 0
                res_of_iter[op[1]] = op[2]
            if op[0] == "res":
                res_at[op[1]] = i
            if op[0] in ("str", "next"):
                # a lazy result consumed later / partly / interleaved gives what an immediate consumption gives
                r = op[1] if op[0] == "str" else res_of_iter[op[1]]
                ri = res_at[r]
                _, _, o, k, rmode = case["ops"][ri][:5]
                kind = case["objs"][o]["kind"]
                what = "result %s of object %s (%s) under configuration %s" % (r, o, kind, k)
                if not rep.startswith("ok"):
                    return "render-raises: %s -> %s" % (what, rep)
                nc = rmode == "n"
                f = _fields(rep)
                plain = _fields(_reference(case, ri, {}, False, "m"))
                d_before, d_after, conf_nc = info[("res", r)][0], info[i][1], info[i][2]
                full = _fields(_reference(case, ri, d_after, conf_nc, "m" if nc else "l"))
                how = op[2] if op[0] == "str" and len(op) > 2 else "s"
                if how == "n":
                    if rep != "ok %d" % len(plain[0]):
                        return "layout: %s: len() differs from the length of the no-colour text" % what
                    continue
                if how == "p":
                    if f[0] != plain[0]:
                        return "layout: %s: plain_text() differs from the no-colour text" % what
                    continue
                if op[0] == "str":
                    got, ref, pref = [f[0]], [full[0]], [plain[0]]
                else:
                    n = int(rep.split()[1])
                    got = f[1:1 + n]
                    a = pos[op[1]]
                    pos[op[1]] = a + n
                    ref, pref = full[2:][a:a + op[2]], plain[2:][a:a + op[2]]
                    if len(ref) != len(got):
                        return "lines: %s: the iterator gives %d line(s) where a fresh one gives %d" % (what, len(got), len(ref))
                for g, rf, pf in zip(got, ref, pref):
                    if _strip(g) != pf:
                        return "layout: %s: text without escape sequences differs from the no-colour rendering" % what
                    if nc and g != pf:
                        return "nocolor-esc: %s: the no-colour text has escape sequences" % what
                    if g != rf:
                        if _straddles(d_before, d_after) and not nc:
                            late = late or "late: %s is rendered differently in a fresh state" % what
                        else:
                            return "history: %s consumed later / partly is rendered differently in a fresh state" % what
                continue
            if op[0] != "render":
                continue
            _, o, k, mode = op[:4]
            kind = case["objs"][o]["kind"]
            if not rep.startswith("ok ") and rep != "ok":
                return "render-raises: object %s (%s) under configuration %s mode %s -> %s" % (o, kind, k, mode, rep)
            f = _fields(rep)
            nc = mode in ("n", "m", "M")
            # (a) colours never change the layout; no-colour output has no escape character
            if kind == "hcmd":
                # the console help has no no-colour form: compare with the rendering under a no-colour configuration
                plain_ref = _fields(_reference(case, i, {}, True, "c"))
            else:
                plain_ref = _fields(_reference(case, i, {}, False, "n"))
            texts = f[:2] if kind == "rec" else f[:1]
            refs = plain_ref[:2] if kind == "rec" else plain_ref[:1]
            for t, r in zip(texts, refs):
                if ESC in r:
                    return "nocolor-esc: no-colour rendering of object %s (%s) contains ESC" % (o, kind)
                if _strip(t) != r:
                    return "layout: object %s (%s) under configuration %s mode %s: text without escape sequences differs from the no-colour rendering" % (o, kind, k, mode)
                if nc and t != r:
                    return "nocolor-esc: no-colour rendering of object %s (%s) mode %s differs from plain text" % (o, kind, mode)
            if mode == "n" and kind not in ("rec", "hcmd") and f[0] != f[1]:
                return "nocolor-esc: str() and plain_text() of the no-colour result of object %s differ" % o
            # (c) line by line = whole
            if mode in ("l", "m", "L", "M") and kind not in ("rec", "hcmd"):
                n = int(rep.split()[2])
                lines = f[2:2 + n] if n else []
                if _cells(f[0]) != _cells("\n".join(lines)):
                    return "lines: object %s (%s) mode %s: the iterated lines do not give the whole text" % (o, kind, mode)
            if kind == "rec" and _cells(f[0]) != _cells(f[1]):
                return "lines: record %s: str() and ch_text() differ" % o
            # (b) no memory: the same object / format / configuration description in a fresh state
            d_before, d_after, conf_nc = info[i]
            # (the lines consumed after the whole text are the lines of a fresh iteration: reference = lines first)
            ref = _reference(case, i, d_after, conf_nc, {"L": "l", "M": "m"}.get(mode, mode))
            if ref == rep and len(case["enums"]) > 1 and case["objs"][o].get("types"):
                # several enum field types in the process: also compare with a fresh interpreter
                ref = _reference_fresh_process(case, i, d_after, bool(conf_nc), {"L": "l", "M": "m"}.get(mode, mode))
            if ref != rep:
                msg = "object %s (%s) under configuration %s mode %s is rendered differently in a fresh state" % (o, kind, k, mode)
                if _straddles(d_before, d_after) and not nc:
                    # known finding `late_resolution`: this very rendering registered a syntax id that a description
                    # of the configuration was waiting for
                    late = late or "late: " + msg
                else:
                    return "history: " + msg
        if late is not None:
            # the known finding is reported for a handful of histories only, so that it cannot crowd other
            # failures out of the failures core.py looks at; shrink candidates inherit the permission
            meta = case.setdefault("meta", {})
            if not meta.get("late_ok"):
                if len(_LATE_REPORTED) >= 8:
                    return None
                _LATE_REPORTED.append(1)
                meta["late_ok"] = True
        return late
    finally:
        _reset()


def _late_resolution(case):
    """a configuration of the case refers to a syntax id that only a palette class registers later"""
    from ak.color import ColorsConfig, _ColorConfColorDescr
    provided = set()
    for _, c in _classes():
        if c.SYNTAX_DEFAULTS:
            provided |= set(ColorsConfig._flatten_dict(c.SYNTAX_DEFAULTS))
    for c in case["confs"].values():
        flat = ColorsConfig._flatten_dict(c["items"])
        for v in flat.values():
            parent = _ColorConfColorDescr._parse_init_str(v)[0]
            if parent is not None and parent in provided and parent not in flat:
                return True
    return False


def _known_late(case):
    if not _late_resolution(case):
        return False
    from harness.core import _impl_one
    import sys
    msg = _impl_one(sys.modules[__name__], case)[1]
    return msg is not None and msg.startswith("late:")


KNOWN = {"late_resolution": _known_late}


# ------------------------------------------------------------------ generators
_COLORS = ["RED", "GREEN", "BLUE", "YELLOW", "MAGENTA", "CYAN", "WHITE", "BLACK"]
_BUILTIN_IDS = ["TEXT", "NAME", "KEYWORD", "NUMBER", "OK", "WARN", "ERROR"]
_CLASS_IDS = ["RECORD.NUMBER", "RECORD.KEYWORD", "RECORD.TITLE", "RECORD.COL_TITLE", "TABLE.BORDER", "TABLE.WARN",
              "TABLE.HEADER", "GHIST.REPO", "GHIST.BRANCH", "GHIST.HASH", "GHIST.HASH_NOT_MERGED", "GHIST.COMMIT_TIME",
              "GHIST.COMMIT_NAME", "GHIST.VERSION", "GHIST.VER_NOT_BUILT", "GHIST.VER_NOT_MERGED",
              "HDOC.ATTR", "HDOC.FUNC_NAME", "HDOC.TAG", "HDOC.WARN"]
_CUSTOM_IDS = ["X", "Y.Z", "Y.W", "MY_SYNT"]
_MODS = ["bold", "faint", "underline", "blink", "crossed"]


def _rand_color(rng):
    r = rng.random()
    if r < 0.55:
        return rng.choice(_COLORS)
    if r < 0.65:
        return "g%d" % rng.randrange(24)
    if r < 0.8:
        return str(rng.randrange(256))
    if r < 0.9:
        return "(%d,%d,%d)" % (rng.randrange(6), rng.randrange(6), rng.randrange(6))
    return rng.choice(["-", ""])


def _rand_mods(rng):
    ms = rng.sample(_MODS, rng.choice([0, 0, 1, 1, 2, 3]))
    return ",".join(("no_" if rng.random() < 0.3 else "") + m for m in ms)


def _rand_descr(rng, parents):
    """a colour description; parents = ids that may be referred to"""
    r = rng.random()
    mods = _rand_mods(rng)
    if r < 0.45 or not parents:
        col = _rand_color(rng)
        if rng.random() < 0.3:
            col += "/" + _rand_color(rng)
        return col + (":" + mods if mods else "")
    par = rng.choice(parents)
    if r < 0.75:
        return par + (":" + mods if mods else "")
    col = rng.choice(["", _rand_color(rng)]) + "/" + rng.choice(["", _rand_color(rng)])
    return par + ":" + col + (":" + mods if mods else "")


def _full_map(flat):
    """everything a configuration with these items can ever contain (first registration wins)"""
    from ak.color import ColorsConfig
    m = dict(flat)
    for k, v in ColorsConfig._flatten_dict(ColorsConfig.BUILT_IN_CONFIG).items():
        m.setdefault(k, v)
    for _, c in _classes():
        if c.SYNTAX_DEFAULTS:
            for k, v in ColorsConfig._flatten_dict(c.SYNTAX_DEFAULTS).items():
                m.setdefault(k, v)
    return m


def _cyclic(m):
    from ak.color import _ColorConfColorDescr
    par = {k: _ColorConfColorDescr._parse_init_str(v)[0] for k, v in m.items()}
    for k in m:
        seen, x = set(), k
        while x is not None and x in par:
            if x in seen:
                return True
            seen.add(x)
            x = par[x]
    return False


def _rand_conf(rng, late):
    """{"nc": 0|1, "items": nested dict}; late = may refer to ids that only palette classes register"""
    from ak.color import ColorsConfig
    for _ in range(50):
        ids = rng.sample(_BUILTIN_IDS, rng.choice([0, 1, 2, 3, 4])) + rng.sample(_CLASS_IDS, rng.choice([0, 1, 2, 4]))
        ids += rng.sample(_CUSTOM_IDS, rng.choice([0, 0, 1, 2]))
        if rng.random() < 0.15:
            ids.append("")
        rng.shuffle(ids)
        items = {}
        for sid in ids:
            parents = [p for p in ids + _BUILTIN_IDS if p != sid and p != ""]
            if late:
                parents += rng.sample(_CLASS_IDS, 3)
            if rng.random() < 0.05:
                parents = ["NOSUCH"]
            items[sid] = _rand_descr(rng, parents)
        if late:
            # a visible syntax that waits for an id which only a palette class registers
            for _ in range(rng.choice([1, 1, 2])):
                sid = rng.choice(["TEXT", "NUMBER", "KEYWORD", "NAME", "WARN", "TABLE.BORDER", "TABLE.HEADER",
                                  "RECORD.NUMBER", "RECORD.COL_TITLE", "HDOC.FUNC_NAME", "GHIST.REPO"])
                target = rng.choice([c for c in _CLASS_IDS if c != sid and c not in items])
                items[sid] = target + rng.choice(["", "", ":bold", ":/BLUE"])
        try:
            for v in items.values():
                _descr_token(v)
        except ValueError:
            continue
        if _cyclic(_full_map(items)):
            continue
        # nested form for dotted ids, sometimes
        nested = {}
        for k, v in items.items():
            if "." in k and rng.random() < 0.5 and not isinstance(nested.get(k.split(".")[0]), str) and k.split(".")[0] not in items:
                nested.setdefault(k.split(".")[0], {})[k.split(".", 1)[1]] = v
            else:
                nested[k] = v
        if ColorsConfig._flatten_dict(nested) != items:
            nested = items
        return {"nc": 1 if rng.random() < 0.08 else 0, "items": nested}
    return {"nc": 0, "items": {}}


_WORDS = ["a", "ab", "x y", "name", "Linus", "some text", "Q", "zz top", "été", "Жук", "中文", "", "a-b_c", "{[(", "10%",
          # characters that str.splitlines treats as line ends
          "a\rb", "c\r\nd", "e\nf", "g\x0bh", "i\x0cj", "k\x1cl", "m\x1dn\x1eo", "p\x85q", "r\u2028s", "t\u2029u", "v\r"]


def _rand_text(rng, long=False):
    if long:
        return " ".join(rng.choice(_WORDS) for _ in range(rng.randrange(3, 8)))
    return rng.choice(_WORDS)


def _rand_scalar(rng):
    r = rng.random()
    if r < 0.35:
        return rng.choice([0, 1, 2, 7, 10, 42, -5, 12345])
    if r < 0.6:
        return _rand_text(rng)
    if r < 0.7:
        return None
    if r < 0.8:
        return rng.choice([True, False])
    if r < 0.9:
        return rng.choice([1.5, -0.25, 3.0])
    return _rand_text(rng, True)


def _rand_json(rng, depth):
    r = rng.random()
    if depth <= 0 or r < 0.35:
        return _rand_scalar(rng)
    if r < 0.7:
        keys = rng.sample(["a", "b", "key", "k 2", "z", 1, 2, 10, "k\r3", "k\u20284"], rng.randrange(0, 4))
        return {"d": [[k, _rand_json(rng, depth - 1)] for k in keys]}
    n = rng.choice([0, 1, 2, 3, 3, 40]) if depth > 1 else rng.randrange(0, 4)
    if n == 40:
        return [rng.randrange(10 ** 5) for _ in range(rng.randrange(30, 70))]
    if rng.random() < 0.15:
        return {"t": [_rand_scalar(rng) for _ in range(n)]}
    return [_rand_json(rng, depth - 1) for _ in range(n)]


_ENUM_ACCS = ["name_good", "name_warn", "error", "value", "number", "keyword", "text", "nosuch", ""]


def _rand_enum(rng):
    vals = rng.sample([1, 2, 3, 10, 20, "A", "B", None], rng.randrange(1, 5))
    spec = {"values": [[v, rng.choice(["one", "two", "Active", "off", "a b", "x", "Waiting for approval", "no", "Suspended (temporarily)"]), rng.choice(_ENUM_ACCS)] for v in vals],
            "missing": None}
    if rng.random() < 0.3:
        spec["missing"] = ["<unk>", rng.choice(["error", "name_warn", "text"])]
    return spec


def _enum_cell(rng, espec):
    r = rng.random()
    if r < 0.7:
        return rng.choice(espec["values"])[0]
    if r < 0.8:
        return None
    return rng.choice([5, 99, "C", 1, 2, True, 1.0, False, 0, 2.0])


def _rand_table(rng, enum_ids, enums):
    ncol = rng.randrange(1, 5)
    fields = ["f%d" % i for i in range(ncol)] if rng.random() < 0.5 else rng.sample(["id", "name", "st", "level", "x", "descr"], ncol)
    types = {}
    for f in fields:
        if enum_ids and rng.random() < 0.4:
            types[f] = rng.choice(enum_ids)
    nrec = rng.choice([0, 1, 2, 3, 4, 6])
    records = []
    for _ in range(nrec):
        rec = []
        for f in fields:
            if f in types:
                rec.append(_enum_cell(rng, enums[types[f]]))
            else:
                rec.append(_rand_scalar(rng))
        records.append(rec)
    spec = {"kind": "table", "records": records, "fields": fields}
    if types:
        spec["types"] = types
    if rng.random() < 0.6:
        cols = []
        for f in rng.sample(fields, rng.randrange(1, ncol + 1)) if rng.random() < 0.3 else fields:
            c = f
            if f in types and rng.random() < 0.6:
                c += "/" + rng.choice(["val", "name", "full"])
            if rng.random() < 0.2:
                c += "!"
            r = rng.random()
            if r < 0.25:
                c += ":%d" % rng.randrange(0, 9)
            elif r < 0.5:
                a = rng.randrange(0, 6)
                c += ":%d-%d" % (a, a + rng.randrange(0, 8))
            cols.append(c)
        spec["fmt"] = ",".join(cols)
        if rng.random() < 0.25:
            spec["fmt"] += ";%d:%d" % (rng.randrange(0, 3), rng.randrange(0, 3))
    if rng.random() < 0.3:
        spec["header"] = _rand_text(rng, rng.random() < 0.3)
    if rng.random() < 0.2:
        spec["footer"] = rng.choice(["", "the end", _rand_text(rng, True)])
    if rng.random() < 0.25:
        f = rng.choice(fields)
        spec["titles"] = {f: rng.choice(["Title", "two\nlines", ["a", 7], [None, "b"], "T", "t\rx", ["u\x85v", "w"]])}
    if rng.random() < 0.1:
        spec["limits"] = [rng.randrange(0, 3), rng.randrange(0, 3)]
    return spec


def _rand_rec(rng, enum_ids, enums):
    ncol = rng.randrange(1, 4)
    fields = ["f%d" % i for i in range(ncol)]
    types = {f: rng.choice(enum_ids) for f in fields if enum_ids and rng.random() < 0.4}
    record = [_enum_cell(rng, enums[types[f]]) if f in types else _rand_scalar(rng) for f in fields]
    cols = []
    for f in fields:
        c = f
        if f in types and rng.random() < 0.6:
            c += "/" + rng.choice(["val", "name", "full"])
        if rng.random() < 0.3:
            c += ":%d-60" % rng.randrange(0, 12)
        cols.append(c)
    spec = {"kind": "rec", "fmt": ",".join(cols), "fields": fields, "record": record}
    if types:
        spec["types"] = types
    return spec


def _rand_buildnum(rng):
    r = rng.random()
    if r < 0.1:
        return "not_built"
    if r < 0.2:
        return "not_merged"
    return [rng.randrange(1, 12), rng.randrange(0, 30), rng.randrange(0, 300)]


def _rand_commit(rng):
    return {"sha": "%040x" % rng.getrandbits(160), "date": 1600000000 + rng.randrange(10 ** 8),
            "msg": rng.choice(["fix it", " trailing ", "two\nlines", "", "BUG-12 do things"]),
            "author": rng.choice(["Bob", "A very long author name indeed", "", "Éric"])}


def _rand_ghist(rng):
    repos = []
    for r in range(rng.randrange(0, 3)):
        branches = []
        for b in range(rng.randrange(0, 3)):
            builds = []
            for _ in range(rng.randrange(0, 3)):
                bd = {"num": _rand_buildnum(rng)}
                if rng.random() < 0.7:
                    bd["commit"] = _rand_commit(rng)
                bd["included_at"] = [[rng.choice(["parent", "top"]), rng.choice(["master", "rel/1"]), _rand_buildnum(rng)]
                                     for _ in range(rng.choice([0, 0, 1, 2]))]
                bd["bumps"] = [["lib%d" % j, [1, j, 0], [[1, 0, x] for x in range(rng.randrange(0, 3))]]
                               for j in range(rng.choice([0, 0, 1, 2]))]
                bd["commits"] = [_rand_commit(rng) for _ in range(rng.randrange(0, 3))]
                builds.append(bd)
            branches.append([rng.choice(["master", "release/1.2", "dev"]), builds])
        repos.append(["repo%d" % r, branches])
    return {"kind": "ghist", "repos": repos}


def _rand_hclass(rng):
    """console help about an object whose hook hands out notes: built anew or stored, possibly shared"""
    notes = [[rng.random() < 0.85, rng.choice(["[token]", "n/a", "", "(admin)"]),
              rng.choice(["requires token access", "", "! not available now !"])] for _ in range(rng.randrange(1, 3))]
    methods = []
    for name in rng.sample(["get_user", "ping", "drop", "list_all"], rng.randrange(1, 4)):
        doc = rng.choice(["Fetch the user.", "Check connection.", "Do it", ""])
        if doc and rng.random() < 0.7:
            doc += "\n\n        " + rng.choice(["Details.", "More\n        lines."])
        if doc and rng.random() < 0.7:
            doc += "\n\n        #" + rng.choice(["users", "misc", "admin"]) + "\n        "
        methods.append({"name": name, "args": rng.choice(["", "user_id", "a, b=2"]), "doc": doc,
                        "notes": rng.choice([None] + list(range(len(notes))) * 2)})
    return {"kind": "hcmd", "name": rng.choice(["Client", "Svc"]), "doc": rng.choice(["Client of some service.", "", "Svc\n\n    long"]),
            "methods": methods, "notes": notes, "hook": rng.choice(["stored", "stored", "fresh", "none"]),
            "target": rng.choice(["obj", "obj", "cls", "m:" + methods[0]["name"]]), "level": rng.choice([1, 1, 2])}


def _rand_hcmd(rng):
    if rng.random() < 0.5:
        return _rand_hclass(rng)
    doc = rng.choice(["Short descr.", "Does things #inline", "", "One line"])
    if rng.random() < 0.7:
        doc += "\n\n    " + rng.choice(["Long text.", "Two\n    lines of details."])
    if rng.random() < 0.7:
        doc += "\n\n    " + " ".join("#" + t for t in rng.sample(["tag1", "t2", "misc", "x"], rng.randrange(1, 4))) + "\n    "
    return {"kind": "hcmd", "name": rng.choice(["f", "do_it", "method_x"]),
            "args": rng.choice(["", "a", "a, b=1", "self, *args, **kwargs"]), "doc": doc}


def _rand_obj(rng, enum_ids, enums):
    r = rng.random()
    if r < 0.42:
        return _rand_table(rng, enum_ids, enums)
    if r < 0.67:
        return {"kind": "pp", "json": rng.random() < 0.3, "value": _rand_json(rng, 3)}
    if r < 0.82:
        return _rand_rec(rng, enum_ids, enums)
    if r < 0.91:
        return _rand_ghist(rng)
    return _rand_hcmd(rng)


def _shape_ok(spec, enums, objs=None):
    try:
        all_objs = dict(objs or {})
        all_objs["?"] = spec
        shape_of(all_objs, "?", {e: enums[e] for e in spec.get("types", {}).values()}, {})
        return True
    except Exception:
        return False


def _g(op):
    """a synced palette object belongs to the global configuration: no explicit configuration with it"""
    if len(op) > 4 and op[4] == "s":
        op[2] = "g"
    return op


def _pk(spec, rng):
    """how the palette argument is given: mostly not at all; the palette class; a palette object"""
    if spec["kind"] == "hcmd" or rng.random() < 0.7:
        return []
    if spec["kind"] in ("pp", "ghist") and rng.random() < 0.3:
        return ["s"]                        # the palette object synced with the global configuration
    if spec["kind"] == "pp" and rng.random() < 0.5:
        return [rng.choice("12")]           # one of two equally named palette classes made by a helper
    if spec["kind"] in ("table", "rec") and rng.random() < 0.5:
        # a customised compound palette (SUB_PALETTES_MAP substitutes the palettes of the cells): class or object
        return [rng.choice(["", "", "o"]) + rng.choice(_PK_FOR_KIND[spec["kind"]])]
    return [rng.choice("cco")]


def _modes(spec, rng):
    if spec["kind"] == "hcmd":
        return "c"
    if spec["kind"] == "rec":
        return rng.choice("ccn")
    return rng.choice("cccnlmLM")


_ABA_TARGETS = {"TABLE": ["TABLE.BORDER", "TABLE.WARN", "TABLE.HEADER"], "RECORD": ["RECORD.TITLE", "RECORD.COL_TITLE", "RECORD.NUMBER"],
                "GHIST": ["GHIST.REPO", "GHIST.BRANCH", "GHIST.HASH", "GHIST.VERSION"], "HDOC": ["HDOC.ATTR", "HDOC.FUNC_NAME", "HDOC.TAG"]}


def _gen_aba(rng):
    """a visible syntax waits for an id of palette class P: render A (shows the syntax), render B (registers P),
    render A again; the synced global palette is looked at on the way when the configuration is the global one"""
    prefix = rng.choice(sorted(_ABA_TARGETS))
    sid = rng.choice(["TEXT", "NUMBER", "KEYWORD", "NAME"])
    target = rng.choice(_ABA_TARGETS[prefix])
    items = {sid: target + rng.choice(["", ":bold", ":/BLUE"])}
    if rng.random() < 0.6:                       # the class finds one of its ids already defined
        sib = rng.choice([t for t in _ABA_TARGETS[prefix] if t != target])
        items[sib] = _rand_color(rng) or "RED"
    for extra in rng.sample(_BUILTIN_IDS, rng.randrange(0, 3)):
        if extra != sid:
            items.setdefault(extra, _rand_color(rng))
    if _cyclic(_full_map(items)):
        return None
    enums = {"0": _rand_enum(rng)}
    a = {"kind": "pp", "json": False, "value": {"d": [["k", [1, None, "s", 2.5]], ["n", 7]]}}
    if prefix in ("TABLE", "RECORD"):
        b = _rand_table(rng, ["0"], enums)
        if not b["records"]:
            b["records"] = [[1] * len(b["fields"])]
            b.pop("types", None)
    elif prefix == "GHIST":
        b = _rand_ghist(rng)
    else:
        b = _rand_hcmd(rng)
    if not _shape_ok(b, enums):
        return None
    use_global = prefix == "HDOC" or rng.random() < 0.4
    k = "g" if use_global else "1"
    gp_acc = {"TEXT": 0, "NAME": 1, "KEYWORD": 2}.get(sid)
    ops = [["enum", "0"], ["conf", "1"]]
    if use_global:
        ops.append(["setglobal", "1"])
    ops.append(["render", "0", k, rng.choice("cl")])
    if use_global:
        ops.append(["gp", gp_acc] if gp_acc is not None else ["gpi", sid])
    ops.append(["render", "1", k, "c" if b["kind"] == "hcmd" else rng.choice("cnL")])
    if use_global:
        ops.append(["gp", gp_acc] if gp_acc is not None else ["gpi", sid])
    ops.append(["render", "0", k, "c"])
    case = {"ops": ops, "confs": {"1": {"nc": 0, "items": items}}, "enums": enums, "objs": {"0": a, "1": b},
            "meta": {"kind": "late-aba"}}
    return _finish(case)


def _gen_history(rng, tier, late, pattern):
    if pattern == "aba":
        for _ in range(20):
            c = _gen_aba(rng)
            if c is not None:
                return c
        pattern = "random"
    enums = {str(e): _rand_enum(rng) for e in range(rng.randrange(1, 3))}
    enum_ids = sorted(enums)
    objs = {}
    n_obj = rng.randrange(2, 5)
    while len(objs) < n_obj:
        spec = _rand_obj(rng, enum_ids, enums)
        if pattern == "reuse" and not objs:
            # a table with an enum column: the cell cache is what the discarded palettes can poison
            spec = _rand_table(rng, enum_ids, enums)
            if not spec.get("types") or not spec["records"]:
                continue
            spec.pop("limits", None)
        if _shape_ok(spec, enums):
            objs[str(len(objs))] = spec
    confs, ops = {}, []
    live, next_conf = [], [1]

    def new_conf():
        k = str(next_conf[0])
        next_conf[0] += 1
        confs[k] = _rand_conf(rng, late and rng.random() < 0.7)
        ops.append(["conf", k])
        live.append(k)
        return k
    for e in enum_ids:
        ops.append(["enum", e])
    live_enums = set(enum_ids)

    def renderable():
        return [o for o, s in objs.items() if set(s.get("types", {}).values()) <= live_enums]

    def render(o=None, k=None, mode=None):
        cand = renderable()
        if not cand:
            return
        o = o if o is not None else rng.choice(cand)
        spec = objs[o]
        if spec["kind"] == "hcmd":
            k = "g"
        elif k is None:
            k = rng.choice(live + ["g"]) if live else "g"
        ops.append(_g(["render", o, k, mode or _modes(spec, rng)] + _pk(spec, rng)))
    new_conf()
    if pattern == "reuse":
        a = live[-1]
        render("0", a, "c")
        if rng.random() < 0.5:
            render()
        ops.append(["drop", a])
        live.remove(a)
        b = new_conf()
        render("0", b, rng.choice("cl"))
    n_ops = rng.randrange(3, 13)
    while len(ops) < n_ops + len(enum_ids) + 1:
        r = rng.random()
        if r < 0.6:
            render()
        elif r < 0.7 and len(live) < 4:
            new_conf()
        elif r < 0.8 and live:
            k = rng.choice(live)
            ops.append(["drop", k])
            live.remove(k)
            if rng.random() < 0.7:
                new_conf()
        elif r < 0.86 and live:
            ops.append(["setglobal", rng.choice(live)])
        elif r < 0.92:
            if rng.random() < 0.5:
                ops.append(["gp", rng.randrange(6)])
            else:
                ops.append(["gpi", rng.choice(_BUILTIN_IDS + _CLASS_IDS + _CUSTOM_IDS + ["", "NOSUCH"])])
        elif r < 0.96 and live_enums:
            e = rng.choice(sorted(live_enums))
            ops.append(["dropenum", e])
            live_enums.discard(e)
        elif set(enum_ids) - live_enums:
            e = rng.choice(sorted(set(enum_ids) - live_enums))
            ops.append(["enum", e])
            live_enums.add(e)
    if not any(op[0] == "render" for op in ops):
        render()
    case = {"ops": ops, "confs": confs, "enums": enums, "objs": objs,
            "meta": {"kind": ("late-" if late else "") + pattern}}
    return _finish(case)


def _service_table(rng, enum_ids, enums):
    """a table with break lines and / or a `... n records skipped` line"""
    vals = rng.sample([1, 2, 3, "x", "yy", None], 3)
    n = rng.randrange(4, 9)
    keys = [rng.choice(vals) for _ in range(n)]
    if rng.random() < 0.5:
        keys.sort(key=str)
    use_enum = bool(enum_ids) and rng.random() < 0.4
    spec = {"kind": "table", "fields": ["id", "grp", "v"], "records": []}
    for i, kx in enumerate(keys):
        v = _enum_cell(rng, enums[enum_ids[0]]) if use_enum else _rand_scalar(rng)
        spec["records"].append([i, str(kx), v])
    if use_enum:
        spec["types"] = {"v": enum_ids[0]}
    how = rng.choice(["break", "skip", "both", "both"])
    fmt = "id,grp!,v" if how != "skip" else "id,grp,v"
    if how != "break":
        fmt += ";%d:%d" % (rng.randrange(0, 3), rng.randrange(0, 3))
    spec["fmt"] = fmt
    if rng.random() < 0.3:
        spec["header"] = _rand_text(rng)
    return spec


def _lazy_obj(rng, enum_ids, enums):
    r = rng.random()
    if r < 0.5:
        return _service_table(rng, enum_ids, enums)
    if r < 0.7:
        return _rand_table(rng, enum_ids, enums)
    if r < 0.9:
        return {"kind": "pp", "json": rng.random() < 0.3, "value": _rand_json(rng, 3)}
    return _rand_ghist(rng)


def _gen_lazy(rng, concurrent):
    """lazy result objects: requested under one configuration, consumed later / partly / interleaved with other
    renderings, with replaced global configurations and with a second consumer of the same object"""
    enums = {"0": _rand_enum(rng)}
    objs = {}
    while len(objs) < 2:
        spec = _service_table(rng, ["0"], enums) if (concurrent and not objs) else _lazy_obj(rng, ["0"], enums)
        if _shape_ok(spec, enums):
            objs[str(len(objs))] = spec
    if rng.random() < 0.5:
        spec = _rand_obj(rng, ["0"], enums)
        if _shape_ok(spec, enums):
            objs["2"] = spec
    confs = {"1": _rand_conf(rng, False), "2": _rand_conf(rng, False)}
    ops = [["enum", "0"], ["conf", "1"], ["conf", "2"]]
    if rng.random() < 0.6:
        ops.append(["setglobal", rng.choice("12")])
    nres = nit = 0
    open_iters, results = {}, []

    def conf():
        return rng.choice(["1", "2", "g", "g"])

    def other():
        r = rng.random()
        if r < 0.35:
            ops.append(["setglobal", rng.choice("12")])
        elif r < 0.8:
            o = rng.choice(sorted(objs))
            k = "g" if objs[o]["kind"] == "hcmd" else conf()
            ops.append(_g(["render", o, k, _modes(objs[o], rng)] + _pk(objs[o], rng)))
        else:
            ops.append(["gp", rng.randrange(6)])
    for _ in range(rng.randrange(1, 4)):
        o = "0" if (concurrent or rng.random() < 0.6) else "1"
        r = str(nres)
        nres += 1
        ops.append(["res", r, o, conf(), rng.choice("ccn")])
        if objs[o]["kind"] == "table" and rng.random() < 0.3:
            ops[-1].append(rng.choice(_PK_FOR_KIND["table"]))
        results.append(r)
        if rng.random() < 0.6:
            other()
        if concurrent or rng.random() < 0.6:
            i = str(nit)
            nit += 1
            ops.append(["iter", i, r])
            open_iters[i] = True
            if rng.random() < 0.7:
                ops.append(["next", i, rng.randrange(1, 4)])
    for _ in range(rng.randrange(2, 7)):
        r = rng.random()
        if r < 0.12 and results:
            # something is built out of a text the result hands out; then the result is consumed again
            rr = rng.choice(results)
            ops.append(["derive", rr, rng.choice(["f0", "f0", "f0", "f+", "f-", "get", "add", "radd", "slice"])])
            ops.append(["str", rr, rng.choice("ssp")])
        elif r < 0.3 and results:
            ops.append(["str", rng.choice(results), rng.choice("ssspn")])
            if rng.random() < 0.6:        # materialise first, then iterate the same result
                i = str(nit)
                nit += 1
                ops.append(["iter", i, ops[-1][1]])
                open_iters[i] = True
        elif r < 0.65 and open_iters:
            i = rng.choice(sorted(open_iters))
            n = rng.choice([1, 1, 2, 3, 99])
            ops.append(["next", i, n])
            if n == 99:
                del open_iters[i]
        else:
            other()
    for i in sorted(open_iters):
        ops.append(["next", i, 99])
    for r in results:
        if rng.random() < 0.5:
            ops.append(["str", r, "s"])
    case = {"ops": ops, "confs": confs, "enums": enums, "objs": objs,
            "meta": {"kind": "lazy-concurrent" if concurrent else "lazy"}}
    return _finish(case)


def _gen_globalmix(rng):
    """the implicit global configuration (colors_conf=None) mixed with the same configurations given explicitly"""
    enums = {"0": _rand_enum(rng)}
    objs = {}
    plain = _rand_table(rng, [], enums)
    while not plain["records"] or not _shape_ok(plain, enums):
        plain = _rand_table(rng, [], enums)
    et = _rand_table(rng, ["0"], enums)
    while not et.get("types") or not et["records"] or not _shape_ok(et, enums):
        et = _rand_table(rng, ["0"], enums)
    rec = _rand_rec(rng, ["0"], enums)
    objs = {"0": plain, "1": et}
    if _shape_ok(rec, enums):
        objs["2"] = rec
    confs = {"1": _rand_conf(rng, False), "2": _rand_conf(rng, False)}
    ops = [["enum", "0"], ["conf", "1"], ["conf", "2"], ["setglobal", "1"]]
    for _ in range(rng.randrange(1, 4)):
        ops.append(["render", rng.choice(["0", "0", "2"] if "2" in objs else ["0"]), "g", rng.choice("ccn")])
    if rng.random() < 0.5:
        ops.append(["res", "0", rng.choice("01"), "g", "c"])
    ops.append(["setglobal", "2"])
    tail = [["render", "1", "1", "c"] + _pk(et, rng), ["render", "0", "1", "c"] + _pk(plain, rng), ["render", "1", "g", "c"]]
    if "2" in objs:
        tail.append(["render", "2", "1", "c"] + _pk(rec, rng))
    rng.shuffle(tail)
    ops += tail[:rng.randrange(1, len(tail) + 1)]
    if any(op[0] == "res" for op in ops):
        ops.append(["str", "0", "s"])
    case = {"ops": ops, "confs": confs, "enums": enums, "objs": objs, "meta": {"kind": "global-mix"}}
    return _finish(case)


_LONG = ["Bartholomew", "Maximilian the second", "a rather long cell text", 1234567890123]
_SHORT = ["Al", "Bo", 1, None, "x"]


def _gen_formats(rng):
    """format objects shared between tables (fmt_obj=other.fmt) and re-formatting after a printing"""
    enums = {"0": _rand_enum(rng)}
    fields = ["id", "name", "st"]
    use_enum = rng.random() < 0.4

    def recs(pool, n):
        return [[i + 1, rng.choice(pool), _enum_cell(rng, enums["0"]) if use_enum else rng.choice(_SHORT)] for i in range(n)]
    a = {"kind": "table", "fields": fields, "records": recs(_SHORT, rng.randrange(1, 4))}
    if use_enum:
        a["types"] = {"st": "0"}
    if rng.random() < 0.5:
        a["fmt"] = rng.choice(["id,name,st", "id,name:2-30,st", "name,id", "id,name!,st", "id,name,st;2:1"])
    b = {"kind": "table", "fmt_of": "0", "records": recs(_LONG + _SHORT, rng.randrange(1, 5))}
    if use_enum:
        b["types"] = {"st": "0"}
    # a table whose limits hide the long rows
    mixed = recs(_SHORT, 1) + recs(_LONG, rng.randrange(1, 3)) + recs(_SHORT, rng.randrange(1, 3))
    for j, r in enumerate(mixed):
        r[0] = j + 1
    c = {"kind": "table", "fields": fields, "records": mixed, "fmt": "id,name,st;1:1"}
    if use_enum:
        c["types"] = {"st": "0"}
    objs = {"0": a, "1": b, "2": c}
    confs = {"1": _rand_conf(rng, False)}
    ops = [["enum", "0"], ["conf", "1"]]

    def k():
        return rng.choice(["1", "g"])
    if rng.random() < 0.6:
        order = [["render", "0", k(), rng.choice("cnl")], ["render", "1", k(), rng.choice("cnl")]]
        if rng.random() < 0.25:
            order.reverse()
        ops += order
        if rng.random() < 0.5:
            ops.append(["render", "0", k(), "c"])
    else:
        ops.append(["render", "2", k(), rng.choice("cn")])
        ops.append(["setfmt", "2", rng.choice([";*", ";5:5", ";0:9", "id,name", ";2:2"])])
        ops.append(["render", "2", k(), rng.choice("cnl")])
        if rng.random() < 0.5:
            ops.append(["setfmt", "2", rng.choice([";1:1", ";*", "name:3-6"])])
            ops.append(["render", "2", k(), "c"])
    case = {"ops": ops, "confs": confs, "enums": enums, "objs": objs, "meta": {"kind": "formats"}}
    return _finish(case)


def _gen_two_enums(rng):
    """two enum field types with overlapping values and names of different lengths, columns of automatic width"""
    vals = rng.sample([0, 1, 2, 3, "A", "B"], rng.randrange(2, 5))
    short, long_ = ["on", "x", "ok", "no"], ["Waiting for approval", "Suspended", "Active now", "In progress (50%)"]
    if rng.random() < 0.5:
        short, long_ = long_, short
    enums = {"0": {"values": [[v, rng.choice(short), rng.choice(_ENUM_ACCS)] for v in vals], "missing": None},
             "1": {"values": [[v, rng.choice(long_), rng.choice(_ENUM_ACCS)] for v in vals], "missing": None}}
    objs = {}
    for e in ("0", "1"):
        recs = [[i, rng.choice(vals)] for i in range(rng.randrange(1, 4))]
        t = {"kind": "table", "fields": ["id", "st"], "records": recs, "types": {"st": e}}
        if rng.random() < 0.4:
            t["fmt"] = "id,st/" + rng.choice(["name", "full", "val"])
        objs[e] = t
    objs["2"] = {"kind": "rec", "fmt": "a,st", "fields": ["a", "st"], "types": {"st": "1"}, "record": [5, rng.choice(vals)]}
    if not _shape_ok(objs["2"], enums):
        del objs["2"]
    confs = {"1": _rand_conf(rng, False)}
    ops = [["enum", "0"], ["enum", "1"], ["conf", "1"]]
    for o in rng.sample(sorted(objs), len(objs)) + [rng.choice(sorted(objs))]:
        ops.append(["render", o, rng.choice(["1", "g"]), rng.choice("ccnl")])
    case = {"ops": ops, "confs": confs, "enums": enums, "objs": objs, "meta": {"kind": "two-enums"}}
    return _finish(case)


def _gen_help_twice(rng):
    """the same help subject asked about several times (the object, one of its methods, both orders), other
    renderings in between"""
    base = _rand_hclass(rng)
    base["hook"] = rng.choice(["stored", "stored", "fresh"])
    base["target"] = "obj"
    objs = {"0": base,
            "1": {"kind": "hcmd", "inst_of": "0", "target": "m:" + rng.choice(base["methods"])["name"], "level": rng.choice([1, 2])},
            "2": {"kind": "pp", "json": False, "value": _rand_json(rng, 2)}}
    confs = {"1": _rand_conf(rng, False)}
    ops = [["conf", "1"]]
    if rng.random() < 0.5:
        ops.append(["setglobal", "1"])
    seq = [rng.choice("01") for _ in range(rng.randrange(2, 5))]
    for o in seq:
        ops.append(["render", o, "g", "c"])
        if rng.random() < 0.4:
            ops.append(["render", "2", rng.choice(["1", "g"]), rng.choice("cn")])
    case = {"ops": ops, "confs": confs, "enums": {}, "objs": objs, "meta": {"kind": "help-twice"}}
    return _finish(case)


def _gen_customised(rng):
    """customised compound palettes: tables / records with enum, number, keyword and title cells printed with palette
    classes whose SUB_PALETTES_MAP substitutes the palettes of the cells (given as class or as object), mixed with the
    default palettes, coloured and without colours, under several configurations (one possibly discarded), eagerly
    and through lazy results"""
    enums = {"0": _rand_enum(rng)}
    if rng.random() < 0.3:
        enums["1"] = _rand_enum(rng)
    enum_ids = sorted(enums)
    objs = {}
    for _ in range(40):
        if len(objs) >= 3:
            break
        want = len(objs)
        if want == 0:
            spec = _rand_table(rng, enum_ids, enums)
            if not spec.get("types") or not spec["records"]:
                continue
        elif want == 1:
            spec = _rand_rec(rng, enum_ids, enums)
        else:
            spec = _rand_table(rng, enum_ids if rng.random() < 0.5 else [], enums)
            if not spec["records"]:
                continue
            if "titles" not in spec and rng.random() < 0.6:
                spec["titles"] = {spec["fields"][0]: rng.choice(["Title", ["a", 7], [None, "b"], "two\nlines"])}
        if _shape_ok(spec, enums):
            objs[str(want)] = spec
    if not objs:
        return _gen_history(rng, "quick", False, "random")
    confs = {"1": _rand_conf(rng, False), "2": _rand_conf(rng, False)}
    ops = [["enum", e] for e in enum_ids] + [["conf", "1"], ["conf", "2"]]
    if rng.random() < 0.5:
        ops.append(["setglobal", rng.choice("12")])
    live = ["1", "2"]

    def pk(spec):
        r = rng.random()
        if r < 0.2:
            return []
        if r < 0.3:
            return [rng.choice("co")]
        return [rng.choice(["", "", "o"]) + rng.choice(_PK_FOR_KIND[spec["kind"]])]

    def render():
        o = rng.choice(sorted(objs))
        ops.append(["render", o, rng.choice(live + ["g"]), _modes(objs[o], rng)] + pk(objs[o]))
    for _ in range(rng.randrange(2, 5)):
        render()
    r = rng.random()
    if r < 0.3:
        k = rng.choice(live)
        ops.append(["drop", k])
        live.remove(k)
        confs["3"] = _rand_conf(rng, False)
        ops.append(["conf", "3"])
        live.append("3")
    elif r < 0.5:
        ops.append(["setglobal", rng.choice(live)])
    elif r < 0.75 and objs["0"]["kind"] == "table":
        # a lazy result with a customised palette: the cell palettes are asked for when the lines are generated
        ops.append(["res", "0", "0", rng.choice(live + ["g"]), rng.choice("cn"), rng.choice(_PK_FOR_KIND["table"])])
        render()
        if rng.random() < 0.5:
            ops.append(["iter", "0", "0"])
            ops.append(["next", "0", rng.choice([1, 2, 99])])
        ops.append(["str", "0", rng.choice("ssp")])
    for _ in range(rng.randrange(1, 4)):
        render()
    case = {"ops": ops, "confs": confs, "enums": enums, "objs": objs, "meta": {"kind": "customised-palettes"}}
    return _finish(case)


def _gen_same_named(rng):
    """two palette classes with the same module and qualified name and different SYNTAX_DEFAULTS under one configuration"""
    objs = {"0": {"kind": "pp", "json": False, "value": {"d": [["k", [1, None, "s", 2.5]], ["n", 7]]}},
            "1": {"kind": "pp", "json": rng.random() < 0.5, "value": _rand_json(rng, 2)}}
    confs = {"1": _rand_conf(rng, False), "2": _rand_conf(rng, False)}
    ops = [["conf", "1"], ["conf", "2"]]
    if rng.random() < 0.5:
        ops.append(["setglobal", "1"])
    order = ["1", "2"] if rng.random() < 0.5 else ["2", "1"]
    for pk in order + [rng.choice("12n")]:
        k = rng.choice(["1", "1", "g", "2"])
        op = ["render", rng.choice("001"), k, rng.choice("ccl")]
        ops.append(op if pk == "n" else op + [pk])
    case = {"ops": ops, "confs": confs, "enums": {}, "objs": objs, "meta": {"kind": "same-named-classes"}}
    return _finish(case)


def gen_cases(rng, tier):
    n = 600 if tier == "quick" else 9000
    for i in range(n):
        late = i % 5 == 4
        j = i % 20
        if j in (3, 13):
            yield _gen_lazy(rng, False)
        elif j in (8, 18):
            yield _gen_lazy(rng, True)
        elif j == 11:
            yield _gen_globalmix(rng)
        elif j in (5, 16):
            yield _gen_formats(rng)
        elif j == 15:
            yield _gen_same_named(rng)
        elif j in (1, 12):
            yield _gen_customised(rng)
        elif j == 19:
            yield _gen_two_enums(rng)
        elif j == 9:
            yield _gen_help_twice(rng)
        else:
            pattern = "reuse" if i % 3 == 0 else "aba" if i % 10 == 7 else "random"
            yield _gen_history(rng, tier, late, pattern)


def search_cases(rng, tier):
    """directed search: discard a configuration between two renderings of an enum table"""
    for i in range(400 if tier == "quick" else 4000):
        yield _gen_history(rng, tier, False, "reuse")


def _valid(case):
    confs, enums = set(), set()
    results, iters = {}, set()
    for op in case["ops"]:
        if op[0] == "conf":
            if op[1] in confs:
                return False
            confs.add(op[1])
        elif op[0] in ("drop", "setglobal"):
            if op[1] not in confs:
                return False
            if op[0] == "drop":
                confs.discard(op[1])
        elif op[0] == "enum":
            if op[1] in enums:
                return False
            enums.add(op[1])
        elif op[0] == "dropenum":
            if op[1] not in enums:
                return False
            enums.discard(op[1])
        elif op[0] == "render":
            if op[2] != "g" and op[2] not in confs:
                return False
            if not set(case["objs"][op[1]].get("types", {}).values()) <= enums:
                return False
            if len(op) > 4 and case["objs"][op[1]]["kind"] == "hcmd":
                return False
            if len(op) > 4 and op[4] == "s" and (op[2] != "g" or case["objs"][op[1]]["kind"] not in ("pp", "ghist")):
                return False
            if len(op) > 4 and _pk_class(op[4]) != "n" and _given_classes()[_pk_class(op[4])][0] != case["objs"][op[1]]["kind"]:
                return False
        elif op[0] == "res":
            if op[3] != "g" and op[3] not in confs:
                return False
            if op[1] in results or not set(case["objs"][op[2]].get("types", {}).values()) <= enums:
                return False
            if len(op) > 5 and _given_classes()[_pk_class(op[5])][0] != case["objs"][op[2]]["kind"]:
                return False
            results[op[1]] = op[2]
        elif op[0] in ("str", "derive"):
            if op[1] not in results:
                return False
        elif op[0] == "iter":
            if op[2] not in results or op[1] in iters:
                return False
            iters.add(op[1])
        elif op[0] == "next":
            if op[1] not in iters:
                return False
        elif op[0] == "setfmt":
            if op[1] in results.values() or case["objs"][op[1]]["kind"] != "table":
                return False
        if op[0] == "dropenum" and any(op[1] in case["objs"][o].get("types", {}).values() for o in results.values()):
            return False
    for o, spec in case["objs"].items():
        if "fmt_of" in spec and any(op[0] == "setfmt" and op[1] == spec["fmt_of"] for op in case["ops"]):
            return False
    return True


def shrink(case):
    import copy
    ops = case["ops"]
    for i in range(len(ops)):
        cand = dict(case, ops=ops[:i] + ops[i + 1:])
        if _valid(cand) and any(op[0] == "render" for op in cand["ops"]):
            try:
                yield _finish(dict(cand))
            except Exception:
                pass
    # simpler configurations
    for k, c in case["confs"].items():
        from ak.color import ColorsConfig
        flat = ColorsConfig._flatten_dict(c["items"])
        for sid in flat:
            rest = {x: v for x, v in flat.items() if x != sid}
            if _cyclic(_full_map(rest)):
                continue        # removing an item can expose a circular default: outside the generated domain
            cand = copy.deepcopy(case)
            cand["confs"][k]["items"] = rest
            try:
                yield _finish(cand)
            except Exception:
                pass
    # smaller objects
    for o, spec in case["objs"].items():
        if spec["kind"] == "table":
            for j in range(len(spec["records"])):
                cand = copy.deepcopy(case)
                del cand["objs"][o]["records"][j]
                try:
                    yield _finish(cand)
                except Exception:
                    pass
            for key in ("header", "footer", "titles", "limits"):
                if key in spec:
                    cand = copy.deepcopy(case)
                    del cand["objs"][o][key]
                    try:
                        yield _finish(cand)
                    except Exception:
                        pass
        elif spec["kind"] == "pp" and spec["value"] not in (1, None):
            cand = copy.deepcopy(case)
            cand["objs"][o]["value"] = 1
            yield _finish(cand)


def observable(i, line):
    # replies to conf / drop / setglobal / enum lines only acknowledge the operation
    return line.split()[0] in ("render", "gp", "gpi", "conf", "str", "next")


def nontrivial(case, replies):
    """at least two renderings and a configuration change (drop / second configuration / new global) in between"""
    kinds = [op[0] for op in case["ops"]]
    shown = kinds.count("render") + kinds.count("str") + kinds.count("next")
    return shown >= 2 and (kinds.count("conf") >= 2 or "drop" in kinds or "setglobal" in kinds or "setfmt" in kinds
                           or "res" in kinds)


_STABLE = None


def _unstable_tags(line):
    """tags of a render line whose accessor waits for another palette class (hypothesis `tagStableAt` of
    C10.history_free: the accessor of the class that serves the tag — the one SUB_PALETTES_MAP of the object's own
    palette class substitutes for the class the tag names)"""
    global _STABLE
    from ak.color import ColorsConfig
    if _STABLE is None:
        classes = _classes()
        builtin = set(ColorsConfig._flatten_dict(ColorsConfig.BUILT_IN_CONFIG))
        dfl = [set(ColorsConfig._flatten_dict(c.SYNTAX_DEFAULTS)) if c.SYNTAX_DEFAULTS else set() for _, c in classes]
        alld = set().union(*dfl)
        _STABLE = {}
        for ci, (_, c) in enumerate(classes):
            for ai, x in enumerate(c._LOCAL_SYNTAX.values()):
                _STABLE[(ci, ai)] = x in builtin or x in dfl[ci] or x not in alld
    bad = set()
    top = int(line.split()[5])
    sub = {_cid(r): _cid(a) for r, a in (getattr(_classes()[top][1], "SUB_PALETTES_MAP", None) or {}).items()}
    for m in re.finditer(r"[;/ ](c|e\d+\.\d+\.)(\d+)\.(\d+)=", line):
        c = int(m.group(2))
        c = c if (m.group(1) == "c" and c == top) else sub.get(c, c)
        if not _STABLE.get((c, int(m.group(3))), True):
            bad.add((c, int(m.group(3))))
    return bad


def tags(case, replies):
    yield case.get("meta", {}).get("kind", "?")
    for line in case["lines"]:
        if line.startswith("render ") and _unstable_tags(line):
            yield "render:with-accessor-waiting-for-another-class"
    for op in case["ops"]:
        if op[0] == "render":
            yield "render:%s:%s" % (case["objs"][op[1]]["kind"], op[3])
            if len(op) > 4:
                d = _pk_class(op[4])
                how = ("helper-class" if d in "12" else
                       "customised-compound-" + ("object" if op[4][0] == "o" else "class") if d != "n" else
                       {"c": "class", "o": "object", "s": "synced-object"}[op[4]])
                yield "render:palette=" + how
                if d not in "n12":
                    yield "render:customised:%s:%s" % (_given_classes()[d][1].__name__, "no_color" if op[3] in "nmM" else "coloured")
        else:
            yield "op:" + op[0]
            if op[0] == "res" and len(op) > 5:
                yield "res:palette=customised-compound-class:" + ("no_color" if op[4] == "n" else "coloured")
    yield "ops:%d" % min(len(case["ops"]), 15)
    yield "confs:%d" % len(case["confs"])
    for r in replies:
        if r.startswith("err"):
            yield "reply:" + r


LEVEL_TEXT = ("NOT proved: that the real layout (texts, widths, line breaks) does not depend on colours or history — the model "
              "receives each object's layout as a shape obtained from the real code with tagging palettes, layout_indep and "
              "strip_eq take the same shape for both renderings, so this clause rests on the differential run and the oracle. "
              "The lazy_* theorems need `closed` and `tagStable` for coloured results (none for no-colour results; "
              "lines_eq_whole needs neither). Kernel-checked for all histories (any operations, any allocator returning unused addresses, any closed keep-set "
              "of the collector) on the palette state machine whose class table is regenerated from the source on every run: "
              "layout_indep (same visible characters whatever the colours/state), nocolor_no_esc, strip_eq (strip_colors of the "
              "coloured text = no-colour text, ESC-free content), lines_eq_whole, and history_free / "
              "same_description_same_output (a rendering equals the shape painted by a pure function of the configuration's "
              "description: always without colours; with colours for configurations whose descriptions were all resolved "
              "at creation; and, for every configuration at all (history_free_steady), whenever the rendering does not teach "
              "the configuration a new syntax id) via the invariant reachable_inv (every cache entry refers to a live palette and holds what would "
              "be recomputed); key_by_object is re-decided from ak/ppobj.py, so the id()-keyed cache of the pre-fix tree "
              "breaks the proofs, and its failing history is a checked example. The layout itself (shapes) is not modelled: "
              "that the real renderings factor through shape + palettes is established by the differential run. Also proved: "
              "gp_synced (the synced global_palette always shows the global configuration in force) and driver_alloc_valid "
              "(the driver's allocator is one of the allocators the theorems quantify over). Phase 2: lazy results and line "
              "iterators are part of the histories; lazy_lines_history_free / lazy_whole_history_free prove that what an "
              "iterator or the first str() gives, whenever and however interleaved, is the pure painting of the object's "
              "lines for the configuration the result was requested for (a held palette is never collected nor overwritten). "
              "Round 8: SUB_PALETTES_MAP is in the class table (generated from the palette classes, the package's and four customised "
              "ones) and in the model's get_sub_palette; all theorems above now hold for customised compound palettes too "
              "(colours stated through resolveTag = the class that serves a chunk after substitution); "
              "sub_palette_follows_parent: after any history a sub-palette — substituted or not — has the class the map "
              "gives, the no_color flag and (coloured) the configuration of the compound palette that made it, and no colour "
              "at all under no_color; no_substitution_no_change: for palette classes with an empty map the statements are the "
              "former ones.")
LEVEL_NOTE = ("Texts handed out by a result (fixed_len / get_ch_text / + / slices) and then extended in place by the caller "
              "(round 6, `derive`): the model has no aliasing — a result hands out values — so whole_memo_stable only states "
              "that the model returns the memoised value and leaves the state alone (it restates strRes for memo = some w); "
              "that the real CHTextResult never hands out its memo itself rests on the tie alone (differential run + "
              "fresh-state oracle, seed C10-m15), not on a theorem. Customised compound palettes: that the real "
              "get_sub_palette is the only way cell palettes are obtained (so that shape + class table determine the colours) "
              "rests on the tie; only substitutions by classes whose leading accessors are those of the requested class are "
              "generated. Console help: the notes a user's `_get_hdoc_method_notes` returns (stored BoundMethodNotes, shared between "
              "methods) are values in the model — rendering reads them and cannot write them; that the real code does not "
              "mutate user-returned objects rests on the tie (histories asking about the same subject several times, "
              "oracle = fresh-state rendering); the theorem for the help kind is history_free. Synced palette objects of classes other than GlobalPalette: modelled (mkSynced, re-synced by setGlobal and by "
              "registrations in the global configuration) and proved re-synced right after set_global (set_global_resyncs); "
              "that they stay in step over whole histories is proved for global_palette only (gp_synced), for the others it "
              "rests on the tie. Correspondence + oracle only: the layout state of a table (column widths negotiated at the first printing, "
              "shared / cloned format objects, re-formatting) is not in the Lean model — a fresh copy of the object with the same "
              "format history supplies the shape, so a width that leaks between tables or through a re-format shows as a model / "
              "code difference and as an oracle failure (seed C10-m5), not as a failed proof. Also correspondence only (not theorems): model = code on the generated histories; shapes come from the real code run "
              "with tagging palettes; the only renderings outside the history theorems are coloured renderings that register a palette class in "
              "a configuration with dangling references (known finding late_resolution, checked counter-example in Props/C10.lean). Trusted: Lean kernel (propext, Classical.choice, Quot.sound), translator/adapter/oracle in harness/c10.py.")
TECHNIQUE = ("Lean 4: explicit heap of palette addresses with adversarial allocator and collector, state invariant proved "
             "preserved by every operation (~150 lemmas); translator for the palette class table and the enum cache key; "
             "stateful correspondence check with address-reuse steering; independent oracle (fresh-state re-rendering)")


def corpus():
    """fixed histories: the witnesses of the repaired defect and of the known finding, and the quirks of the
    no-colour palettes that the model has to follow"""
    enum = {"values": [[1, "one", "name_good"], [2, "two", "name_warn"]], "missing": None}
    etable = {"kind": "table", "records": [[1, 1], [2, 2]], "fields": ["a", "st"], "types": {"st": "0"}}
    table = {"kind": "table", "records": [[1, 2]], "fields": ["x", "y"]}
    ttable = {"kind": "table", "records": [[1, 2]], "fields": ["x", "y"], "titles": {"x": ["t", 7]}}
    pp = {"kind": "pp", "value": {"d": [["a", 1]]}}
    out = []
    # design_probes/c10_enum_cache_id_reuse.py: enum cells keep the colours of a discarded configuration
    out.append({"ops": [["enum", "0"], ["conf", "1"], ["render", "0", "1", "c"], ["drop", "1"], ["conf", "2"],
                        ["render", "0", "2", "c"], ["render", "0", "2", "n"], ["render", "0", "2", "l"]],
                "confs": {"1": {"nc": 0, "items": {"TEXT": "RED", "WARN": "BLUE", "NAME": "CYAN"}},
                          "2": {"nc": 0, "items": {"TEXT": "GREEN", "WARN": "YELLOW", "NAME": "MAGENTA"}}},
                "enums": {"0": enum}, "objs": {"0": etable}, "meta": {"kind": "corpus-reuse"}})
    # known finding late_resolution: first and second rendering of the same table differ
    out.append({"ops": [["conf", "1"], ["render", "0", "1", "c"], ["render", "0", "1", "c"]],
                "confs": {"1": {"nc": 0, "items": {"TABLE.BORDER": "RECORD.TITLE"}}},
                "enums": {}, "objs": {"0": table}, "meta": {"kind": "corpus-late"}})
    # the same across objects: each rendering is the pure function of the description in force
    out.append({"ops": [["conf", "1"], ["render", "1", "1", "c"], ["render", "0", "1", "c"], ["render", "1", "1", "c"]],
                "confs": {"1": {"nc": 0, "items": {"NUMBER": "TABLE.BORDER"}}},
                "enums": {}, "objs": {"0": table, "1": pp}, "meta": {"kind": "corpus-late"}})
    # the per-class no-colour table palette stays bound to the first configuration it saw: the second no-colour table
    # registers the title palette there and not in configuration 2
    out.append({"ops": [["conf", "1"], ["conf", "2"], ["render", "0", "1", "n"], ["render", "0", "2", "n"],
                        ["render", "1", "2", "c"], ["render", "1", "1", "c"], ["render", "0", "2", "c"], ["render", "1", "2", "c"]],
                "confs": {"1": {"nc": 0, "items": {"NUMBER": "RECORD.TITLE"}}, "2": {"nc": 0, "items": {"NUMBER": "RECORD.TITLE"}}},
                "enums": {}, "objs": {"0": table, "1": pp}, "meta": {"kind": "corpus-nocolor-binding"}})
    # a number in a table title uses TitlePalette with RecordPalette's syntax id
    out.append({"ops": [["conf", "1"], ["render", "0", "1", "c"], ["render", "0", "1", "L"], ["setglobal", "1"], ["gp", 1],
                        ["render", "0", "g", "m"]],
                "confs": {"1": {"nc": 0, "items": {"RECORD": {"NUMBER": "RED:bold"}, "NAME": "BLUE/g3"}}},
                "enums": {}, "objs": {"0": ttable}, "meta": {"kind": "corpus-title-number"}})
    return [_finish(c) for c in out]
