"""C10 — rendering is pure: colours never change layout and output has no memory
(ak/color.py palettes + caches, ak/ppobj.py printable objects, ak/ghist.py report, ak/hdoc.py help).

A case is a *history*: configurations are created / dropped / made global, printable objects are
rendered coloured / without colours / line by line under them.  The real code runs the history on
live objects; the Lean driver runs it on the palette state machine of `Model/PaletteState.lean`.
What the driver gets about an object is its *shape* (lines of chunks, each with the palette class
and accessor the real code used for it — obtained with tagging palettes on a fresh copy of the
object), never colours: palettes, caches and colour resolution are the model's.
"""
import ast
import gc
import os
import re
import types

from harness.core import enc_str, dec_str

PROPERTY = "C10"
READY = False
STATEFUL = True
PARALLEL = False
THEOREMS = []

ESC = "\x1b"

# ------------------------------------------------------------------ palette classes of the package


def _classes():
    """ordered list of (name, class): the index is the class id of the protocol"""
    from ak.ppobj import PrettyPrinter, FieldType, _DefaultTitleFieldType, PPTable, PPRecordFmt, PPEnumFieldType
    from ak.ghist import GHistReport
    from ak.hdoc import HCommand
    from ak.color import GlobalPalette
    return [
        ("PPPalette", PrettyPrinter.PPPalette),
        ("RecordPalette", FieldType.RecordPalette),
        ("TitlePalette", _DefaultTitleFieldType.TitlePalette),
        ("TablePalette", PPTable.TablePalette),
        ("PPRecordPalette", PPRecordFmt.PPRecordPalette),
        ("EnumPalette", PPEnumFieldType.EnumPalette),
        ("GHistPalette", GHistReport.GHistPalette),
        ("HCmdPalette", HCommand.HCmdPalette),
        ("GlobalPalette", GlobalPalette),
    ]


_CID = None


def _cid(cls):
    global _CID
    if _CID is None:
        _CID = {c: i for i, (_, c) in enumerate(_classes())}
    return _CID[cls]


def _sid(s):
    """syntax id -> protocol token ('@' = empty id)"""
    if not re.fullmatch(r"[A-Za-z0-9_.]*", s):
        raise ValueError("syntax id %r cannot be written in the protocol" % s)
    return s or "@"


def _descr_token(init_str):
    """colour description string -> 'parent~fg~bg~mods' (structure found by the package's own parser;
    concrete colours are passed as the SGR element the package makes of them)"""
    from ak.color import _ColorConfColorDescr, _ColorSequences
    parent, fg, bg, mods = _ColorConfColorDescr._parse_init_str(init_str)

    def spec(c, is_bg):
        if c is None or c == "":
            return "i"
        if c == "-":
            return "s"
        return _ColorSequences._make_seq_element(c, is_bg)
    m = "".join("-" if n not in mods else ("1" if mods[n] else "0")
                for n in ("bold", "faint", "underline", "blink", "crossed"))
    extra = set(mods) - {"bold", "faint", "underline", "blink", "crossed"}
    if extra:
        raise ValueError("unknown modifiers %s" % sorted(extra))
    return "%s~%s~%s~%s" % ("!" if parent is None else _sid(parent), spec(fg, False), spec(bg, True), m)


def _items_token(flat):
    if not flat:
        return "-"
    return ";".join("%s~%s" % (_sid(k), _descr_token(v)) for k, v in flat.items())


# ------------------------------------------------------------------ translator
def _lean_str(s):
    if not all(32 <= ord(c) < 127 and c not in '"\\' for c in s):
        raise ValueError("constant %r is not plain printable ASCII" % s)
    return '"%s".toList' % s


def _lean_descr(init_str):
    parent, fg, bg, mods = _descr_token(init_str).split("~")

    def spec(t):
        return ".inherit" if t == "i" else ".system" if t == "s" else "(.elem %s)" % _lean_str(t)
    ms = "[%s]" % ", ".join("none" if c == "-" else "some true" if c == "1" else "some false" for c in mods)
    par = "none" if parent == "!" else "(some %s)" % _lean_str("" if parent == "@" else parent)
    return "{ parent := %s, fg := %s, bg := %s, mods := %s }" % (par, spec(fg), spec(bg), ms)


def _enum_key_mode(repo):
    """how PPEnumFieldType keys its cell cache: 'object' (cache_key = field_palette) or 'id' (id(field_palette))"""
    tree = ast.parse(open(os.path.join(repo, "ak", "ppobj.py")).read())
    for node in ast.walk(tree):
        if isinstance(node, ast.ClassDef) and node.name == "PPEnumFieldType":
            for fn in node.body:
                if isinstance(fn, ast.FunctionDef) and fn.name == "make_desired_cell_ch_chunks":
                    for st in ast.walk(fn):
                        if (isinstance(st, ast.Assign) and len(st.targets) == 1 and isinstance(st.targets[0], ast.Name)
                                and st.targets[0].id == "cache_key"):
                            v = st.value
                            if isinstance(v, ast.Name) and v.id == "field_palette":
                                return "object"
                            if (isinstance(v, ast.Call) and isinstance(v.func, ast.Name) and v.func.id == "id"
                                    and len(v.args) == 1 and isinstance(v.args[0], ast.Name) and v.args[0].id == "field_palette"):
                                return "id"
                            raise ValueError("cache_key of PPEnumFieldType is neither the palette nor its id()")
    raise ValueError("PPEnumFieldType.make_desired_cell_ch_chunks / cache_key not found")


def translate(repo):
    from ak.color import ColorsConfig, CompoundPalette
    classes = _classes()
    lines = ["-- GENERATED by harness/c10.py:translate from /repo/ak/{color,ppobj,ghist,hdoc}.py -- do not edit",
             "import AkVerif.Model.PaletteState",
             "namespace Gen.C10", "open PaletteState", ""]
    builtin = ColorsConfig._flatten_dict(ColorsConfig.BUILT_IN_CONFIG)
    lines.append("def dfltId : SyntId := %s" % _lean_str(ColorsConfig.DFLT_SYNTAX_ID))
    lines.append("def builtin : List (SyntId × Descr) := [")
    lines.append(",\n".join("  (%s, %s)" % (_lean_str(k), _lean_descr(v)) for k, v in builtin.items()))
    lines.append("]")
    lines.append("def classes : List ClassInfo := [")
    rows = []
    for name, c in classes:
        parents = c.PARENT_PALETTES or []
        for p in parents:
            _cid(p)
        if c.SYNTAX_DEFAULTS is None:
            dfl = "none"
        else:
            flat = ColorsConfig._flatten_dict(c.SYNTAX_DEFAULTS)
            dfl = "(some [%s])" % ", ".join("(%s, %s)" % (_lean_str(k), _lean_descr(v)) for k, v in flat.items())
        sub = getattr(c, "SUB_PALETTES_MAP", None) or {}
        if sub:
            raise ValueError("%s.SUB_PALETTES_MAP is not empty: not modelled" % name)
        loc = ", ".join(_lean_str(s) for s in c._LOCAL_SYNTAX.values())
        rows.append("  -- %d %s: accessors %s\n  { compound := %s, parents := [%s], defaults := %s, localSyntax := [%s] }" % (
            len(rows), name, " ".join(c._LOCAL_SYNTAX.keys()),
            "true" if issubclass(c, CompoundPalette) else "false",
            ", ".join(str(_cid(p)) for p in parents), dfl, loc))
    lines.append(",\n".join(rows))
    lines.append("]")
    lines.append("def globalPaletteClass : ClassId := %d" % [n for n, _ in classes].index("GlobalPalette"))
    lines.append("/-- `cache_key = field_palette` (true) or `id(field_palette)` (false) in PPEnumFieldType -/")
    lines.append("def enumKeyIsObject : Bool := %s" % ("true" if _enum_key_mode(repo) == "object" else "false"))
    lines.append("def cfg : Cfg := { dfltId := dfltId, builtin := builtin, classes := classes, gpClass := globalPaletteClass, "
                 "keyByObj := enumKeyIsObject }")
    lines += ["", "end Gen.C10", ""]
    return {"AkVerif/Gen/C10.lean": "\n".join(lines)}
