"""Shared machinery of all checks (DESIGN.md §2).

One run of `./check Cxx`:
  1. translate   : harness/cXX.py:translate() regenerates lean/AkVerif/Gen/*.lean from /repo
  2. build       : lake build <Props module> drv_cxx   (kernel re-checks every proof touched)
  3. audit       : forbidden words, `#print axioms` of every pinned theorem, pinned theorem list
  4. correspond  : real code (in-process) and Lean driver answer the same protocol lines
  5. oracle      : the property, stated on the real code's answers
  6. verdict     : see `verdict()`
  7. evidence    : evidence/Cxx.json

Per-property module interface (harness/cXX.py), everything except the first five optional:
  PROPERTY, THEOREMS (pinned names, in file order), gen_cases(rng, tier), impl(case), oracle(case, replies)
  LEAN_PROPS   = "AkVerif.Props.Cxx"           (default)
  DRIVER       = "drv_cxx"                     (default)
  translate(repo) -> {path relative to lean/: content}
  corpus()     -> fixed cases run first (defect witnesses, past disagreements); corpus/Cxx/*.json is added
  nontrivial(case, replies) -> bool            (default: True)
  tags(case, replies) -> iterable of str       (input distribution histogram)
  observable(i, line) -> bool                  (default True) lines whose difference breaks the tie;
                                               the others are compared as diagnostics only
  shrink(case) -> iterable of smaller cases
  search_cases(rng, tier) -> iterable of cases (directed search when the tie is broken)
  KNOWN = {name: predicate(case) -> bool}      matchers referenced from known_findings.json
  PARALLEL = True                              run impl/oracle in worker processes
  STATEFUL = False                             driver keeps state: a `reset` line is sent before each case
  ASSUMPTIONS, TRUSTED (lists of str), RULE (str)

A case is a JSON-serialisable dict with at least {"lines": [str, ...]}.
"""
import fcntl
import hashlib
import importlib
import json
import multiprocessing
import os
import random
import re
import subprocess
import sys
import time
import traceback

VERIF = os.path.dirname(os.path.dirname(os.path.abspath(__file__)))
LEAN = os.path.join(VERIF, "lean")
REPO = os.environ.get("AK_PY_REPO", "/repo")
ALLOWED_AXIOMS = {"propext", "Classical.choice", "Quot.sound"}
FORBIDDEN = re.compile(
    r"\bsorry\b|\badmit\b|^\s*axiom\s|native_decide|bv_decide|implemented_by|\bunsafe\s|maxHeartbeats\s+0|"
    r"\bextern\b|debug\.skipKernelTC")

if REPO not in sys.path:
    sys.path.insert(0, REPO)


# ---------------------------------------------------------------- small utilities

def enc_str(s):
    """str -> comma separated code points ('-' for empty)"""
    return ",".join(str(ord(c)) for c in s) if s else "-"


def dec_str(t):
    return "" if t == "-" else "".join(chr(int(x)) for x in t.split(","))


def case_key(case):
    return hashlib.sha1("\n".join(case["lines"]).encode()).hexdigest()[:16]


def load_module(pid):
    return importlib.import_module("harness." + pid.lower())


class Lock:
    """serialises lake invocations between concurrently running checks"""

    def __enter__(self):
        os.makedirs(os.path.join(LEAN, ".lake"), exist_ok=True)
        self.f = open(os.path.join(LEAN, ".lake", "verif.lock"), "w")
        fcntl.flock(self.f, fcntl.LOCK_EX)
        return self

    def __exit__(self, *a):
        fcntl.flock(self.f, fcntl.LOCK_UN)
        self.f.close()


def sh(cmd, cwd=LEAN, timeout=3600, inp=None):
    p = subprocess.run(cmd, cwd=cwd, stdout=subprocess.PIPE, stderr=subprocess.STDOUT,
                       input=inp, timeout=timeout, text=True)
    return p.returncode, p.stdout


# ---------------------------------------------------------------- 1. translator

def run_translate(mod):
    """returns (ok, message). Writes Gen files only when their content changed."""
    tr = getattr(mod, "translate", None)
    if tr is None:
        return True, "no generated constants"
    try:
        files = tr(REPO)
    except Exception as e:  # the source no longer has the shape the translator understands
        return False, "translator refused: %s: %s" % (type(e).__name__, e)
    changed = []
    for rel, content in files.items():
        path = os.path.join(LEAN, rel)
        os.makedirs(os.path.dirname(path), exist_ok=True)
        old = open(path).read() if os.path.exists(path) else None
        if old != content:
            with open(path, "w") as f:
                f.write(content)
            changed.append(rel)
    return True, "generated %d file(s), %d changed" % (len(files), len(changed))


# ---------------------------------------------------------------- 2. build

def lean_props(mod):
    return getattr(mod, "LEAN_PROPS", "AkVerif.Props." + mod.PROPERTY)


def driver_name(mod):
    return getattr(mod, "DRIVER", "drv_" + mod.PROPERTY.lower())


def build(targets):
    with Lock():
        rc, out = sh(["lake", "build"] + targets)
    return rc == 0, out


def first_error(out):
    """(file, line, message, theorem) of the first Lean error in a lake log"""
    m = re.search(r"error: (\S+?\.lean):(\d+):(\d+): (.*)", out)
    if not m:
        return None
    f, line, _, msg = m.group(1), int(m.group(2)), m.group(3), m.group(4)
    thm = None
    try:
        src = open(os.path.join(LEAN, f)).read().split("\n")
        for i in range(min(line, len(src)) - 1, -1, -1):
            mm = re.match(r"\s*(?:private\s+|protected\s+)?(theorem|lemma|def|example|instance|abbrev)\s*(\S*)", src[i])
            if mm:
                thm = (mm.group(1) + " " + mm.group(2)).strip()
                break
    except OSError:
        pass
    return {"file": f, "line": line, "message": msg, "declaration": thm}


# ---------------------------------------------------------------- 3. audit

def module_file(modname):
    return os.path.join(LEAN, *modname.split(".")) + ".lean"


def local_closure(roots):
    """transitive closure of local (AkVerif.* / Drv.*) imports, as file paths"""
    seen, todo = {}, list(roots)
    while todo:
        m = todo.pop()
        if m in seen:
            continue
        path = module_file(m)
        if not os.path.exists(path):
            continue
        seen[m] = path
        for line in open(path):
            mm = re.match(r"\s*(?:public\s+)?import\s+(\S+)", line)
            if mm and (mm.group(1).startswith("AkVerif.") or mm.group(1).startswith("Drv.")):
                todo.append(mm.group(1))
    return seen


def strip_comments(src):
    # remove /- ... -/ (nested) and -- ... comments
    out, i, depth = [], 0, 0
    while i < len(src):
        if src.startswith("/-", i):
            depth += 1
            i += 2
        elif depth and src.startswith("-/", i):
            depth -= 1
            i += 2
        elif depth:
            if src[i] == "\n":
                out.append("\n")
            i += 1
        elif src.startswith("--", i):
            while i < len(src) and src[i] != "\n":
                i += 1
        else:
            out.append(src[i])
            i += 1
    return "".join(out)


def theorem_names(path, namespace_aware=True):
    """fully qualified names of the theorems declared in a Lean file (simple namespace tracking)"""
    src = strip_comments(open(path).read())
    ns, names = [], []
    for line in src.split("\n"):
        m = re.match(r"\s*namespace\s+(\S+)", line)
        if m:
            ns.append(m.group(1))
            continue
        m = re.match(r"\s*end\s+(\S+)\s*$", line)
        if m and ns and ns[-1] == m.group(1):
            ns.pop()
            continue
        m = re.match(r"\s*(?:@\[[^\]]*\]\s*)?(private\s+|protected\s+)?(?:theorem|lemma)\s+(\S+)", line)
        if m:
            if m.group(1) and m.group(1).strip() == "private":
                continue
            names.append(".".join(ns + [m.group(2)]))
    return names


def audit(mod):
    """returns (problems, info)"""
    problems, info = [], {}
    props = lean_props(mod)
    files = local_closure([props, "Drv." + mod.PROPERTY])
    info["lean_files"] = sorted(os.path.relpath(p, LEAN) for p in files.values())
    # forbidden words outside comments
    for m, path in files.items():
        src = strip_comments(open(path).read())
        for n, line in enumerate(src.split("\n"), 1):
            if FORBIDDEN.search(line):
                problems.append("forbidden construct in %s:%d: %s" % (os.path.relpath(path, LEAN), n, line.strip()))
    # model / driver files must not import Mathlib
    for m, path in local_closure(["Drv." + mod.PROPERTY]).items():
        if re.search(r"^\s*import\s+(Mathlib|Batteries|Aesop)", open(path).read(), re.M):
            problems.append("driver closure imports Mathlib: " + m)
    # pinned theorem list
    found = theorem_names(module_file(props)) if os.path.exists(module_file(props)) else []
    pinned = list(mod.THEOREMS)
    if found != pinned:
        problems.append("theorem list of %s differs from the pinned list: missing %s, unexpected %s" % (
            props, sorted(set(pinned) - set(found)), sorted(set(found) - set(pinned))))
    # axioms
    os.makedirs(os.path.join(LEAN, ".audit"), exist_ok=True)
    apath = os.path.join(LEAN, ".audit", mod.PROPERTY + ".lean")
    with open(apath, "w") as f:
        f.write("import %s\n" % props)
        for t in pinned:
            f.write("#print axioms %s\n" % t)
    rc, out = sh(["lake", "env", "lean", apath])
    axioms = {}
    for m in re.finditer(r"'([^']+)' (does not depend on any axioms|depends on axioms: \[([^\]]*)\])", out):
        axioms[m.group(1)] = [a.strip() for a in (m.group(3) or "").replace("\n", " ").split(",") if a.strip()]
    info["axioms"] = axioms
    if rc != 0:
        problems.append("axiom audit failed to run: " + out[-400:])
    for t in pinned:
        if t not in axioms:
            problems.append("no axiom report for pinned theorem " + t)
        elif not set(axioms[t]) <= ALLOWED_AXIOMS:
            problems.append("theorem %s depends on %s" % (t, axioms[t]))
    # obligations = theorems (public and private) in the closure, all compiled by the build
    n = 0
    for path in files.values():
        n += len(re.findall(r"^\s*(?:@\[[^\]]*\]\s*)?(?:private\s+|protected\s+)?(?:theorem|lemma)\s", strip_comments(open(path).read()), re.M))
    info["obligations"] = n
    return problems, info


# ---------------------------------------------------------------- 4/5. correspondence and oracle

def run_driver(mod, cases):
    """feeds all lines of all cases to the driver; returns list of reply lists (None if the driver died)"""
    exe = os.path.join(LEAN, ".lake", "build", "bin", driver_name(mod))
    stateful = getattr(mod, "STATEFUL", False)
    lines = []
    for c in cases:
        if stateful:
            lines.append("reset")
        lines.extend(c["lines"])
    for l in lines:
        assert "\n" not in l, "protocol line with newline"
    p = subprocess.run([exe], input="\n".join(lines) + "\n", stdout=subprocess.PIPE,
                       stderr=subprocess.PIPE, text=True, timeout=3600)
    out = p.stdout.split("\n")
    if out and out[-1] == "":
        out.pop()
    res, pos = [], 0
    for c in cases:
        if stateful:
            pos += 1
        n = len(c["lines"])
        chunk = out[pos:pos + n]
        res.append(chunk if len(chunk) == n else None)
        pos += n
    return res, (p.returncode, p.stderr[-300:])


def _impl_one(mod, case):
    try:
        replies = list(mod.impl(case))
    except Exception as e:  # an exception the adapter did not expect is itself an observable
        replies = ["crash %s: %s" % (type(e).__name__, str(e)[:200])] * len(case["lines"])
    msg = None
    try:
        msg = mod.oracle(case, replies)
    except Exception as e:
        msg = "oracle crashed: %s: %s" % (type(e).__name__, "".join(traceback.format_exception_only(type(e), e)).strip()[:300])
    return replies, msg


_WMOD = None


def _worker(args):
    global _WMOD
    pid, chunk = args
    if _WMOD is None or _WMOD.PROPERTY != pid:
        _WMOD = load_module(pid)
    return [_impl_one(_WMOD, c) for c in chunk]


def run_impl(mod, cases, workers=None):
    if not cases:
        return []
    parallel = getattr(mod, "PARALLEL", True) and len(cases) >= 64
    if not parallel:
        return [_impl_one(mod, c) for c in cases]
    workers = workers or min(16, os.cpu_count() or 4)
    size = max(1, min(500, len(cases) // (workers * 4) + 1))
    chunks = [(mod.PROPERTY, cases[i:i + size]) for i in range(0, len(cases), size)]
    with multiprocessing.get_context("fork").Pool(workers) as pool:
        parts = pool.map(_worker, chunks)
    return [x for part in parts for x in part]


def compare(mod, case, impl_replies, model_replies):
    """returns (observable_diff, diagnostic_diff) as lists of (index, line, impl, model)"""
    obs_fn = getattr(mod, "observable", None)
    obs, diag = [], []
    if model_replies is None:
        return [(-1, "<driver produced no answer for this case>", "", "")], []
    for i, (line, a, b) in enumerate(zip(case["lines"], impl_replies, model_replies)):
        if a != b:
            (obs if obs_fn is None or obs_fn(i, line) else diag).append((i, line, a, b))
    return obs, diag


def shrink_case(mod, case, fails, budget_s=20.0):
    sh_fn = getattr(mod, "shrink", None)
    if sh_fn is None:
        return case
    t0 = time.time()
    cur = case
    improved = True
    while improved and time.time() - t0 < budget_s:
        improved = False
        for cand in sh_fn(cur):
            if time.time() - t0 > budget_s:
                break
            try:
                if fails(cand):
                    cur, improved = cand, True
                    break
            except Exception:
                continue
    return cur


# ---------------------------------------------------------------- known findings

def load_known():
    path = os.path.join(VERIF, "known_findings.json")
    if not os.path.exists(path):
        return []
    return json.load(open(path)).get("findings", [])


def match_known(mod, case):
    for f in load_known():
        if f.get("property") != mod.PROPERTY or f.get("status") != "known":
            continue
        pred = getattr(mod, "KNOWN", {}).get(f.get("match"))
        try:
            if pred is not None and pred(case):
                return f
        except Exception:
            pass
    return None


# ---------------------------------------------------------------- replay files

def write_replay(mod, kind, payload):
    os.makedirs(os.path.join(VERIF, "replays"), exist_ok=True)
    body = {"property": mod.PROPERTY, "kind": kind}
    body.update(payload)
    h = hashlib.sha1(json.dumps(body, sort_keys=True, default=str).encode()).hexdigest()[:10]
    rel = os.path.join("replays", "%s-%s-%s.json" % (mod.PROPERTY, kind, h))
    with open(os.path.join(VERIF, rel), "w") as f:
        json.dump(body, f, indent=1, default=str)
    return rel


def load_corpus(mod):
    cases = []
    fn = getattr(mod, "corpus", None)
    if fn is not None:
        cases.extend(fn())
    d = os.path.join(VERIF, "corpus", mod.PROPERTY)
    if os.path.isdir(d):
        for name in sorted(os.listdir(d)):
            if name.endswith(".json"):
                c = json.load(open(os.path.join(d, name)))
                cases.append(c.get("case", c))
    for c in cases:
        c.setdefault("meta", {})["corpus"] = True
    return cases


# ---------------------------------------------------------------- the check

def run_check(pid, tier="quick", seed=0, replay=None, out=sys.stdout):
    t0 = time.time()
    mod = load_module(pid)
    rng = random.Random("%s/%s" % (pid, seed))
    tie_problems = []          # (kind, text, detail)
    log = []

    def say(s):
        log.append(s)
        print(s, file=out, flush=True)

    # 1. translator
    ok, msg = run_translate(mod)
    say("[%s] translate: %s" % (pid, msg))
    if not ok:
        tie_problems.append(("translator", msg, {}))

    # 2. build (driver first: it may still build when a proof does not)
    drv_ok, drv_out = build([driver_name(mod)])
    if not drv_ok:
        fe = first_error(drv_out)
        tie_problems.append(("build-driver", "driver does not build", {"first_error": fe, "log": drv_out[-1500:]}))
    prf_ok, prf_out = build([lean_props(mod)])
    if not prf_ok:
        fe = first_error(prf_out)
        tie_problems.append(("proof", "proof obligation no longer checks: %s" % (fe or {}).get("declaration"),
                             {"first_error": fe, "log": prf_out[-1500:]}))
    say("[%s] build: driver %s, proofs %s" % (pid, "ok" if drv_ok else "FAILED", "ok" if prf_ok else "FAILED"))

    # 3. audit
    info = {"axioms": {}, "obligations": 0, "lean_files": []}
    if prf_ok:
        with Lock():
            problems, info = audit(mod)
        for p in problems:
            tie_problems.append(("audit", p, {}))
        say("[%s] audit: %d theorem(s) pinned, %d obligation(s) in %d file(s), %d problem(s)" % (
            pid, len(mod.THEOREMS), info["obligations"], len(info["lean_files"]), len(problems)))

    # thorough: independent re-check of the compiled proofs
    if prf_ok and tier == "thorough" and not replay:
        with Lock():
            rc, lc_out = sh(["lake", "env", "leanchecker", lean_props(mod)], timeout=3000)
        say("[%s] leanchecker %s: %s" % (pid, lean_props(mod), "ok" if rc == 0 else "FAILED"))
        info["leanchecker"] = "ok" if rc == 0 else lc_out[-500:]
        if rc != 0:
            tie_problems.append(("audit", "leanchecker rejects " + lean_props(mod), {"log": lc_out[-1500:]}))

    # 4/5. cases
    if replay:
        body = json.load(open(replay))
        cases = [body["case"]] if "case" in body else []
        gen_count = 0
    else:
        cases = load_corpus(mod)
        gen_count = 0
        seen = set(case_key(c) for c in cases)
        for c in mod.gen_cases(rng, tier):
            k = case_key(c)
            gen_count += 1
            if k in seen:
                continue
            seen.add(k)
            cases.append(c)
    t1 = time.time()
    impl_res = run_impl(mod, cases)
    t2 = time.time()
    model_res = [None] * len(cases)
    if drv_ok:
        model_res, (rc, err) = run_driver(mod, cases)
        if rc != 0:
            say("[%s] driver exit code %s: %s" % (pid, rc, err))
    t3 = time.time()
    say("[%s] cases: %d (%d generated, %d distinct), impl %.1fs, model %.1fs" % (
        pid, len(cases), gen_count, len(cases), t2 - t1, t3 - t2))

    oracle_fail, corr_fail, diag_count = [], [], 0
    nontrivial_fn = getattr(mod, "nontrivial", None)
    tags_fn = getattr(mod, "tags", None)
    hist, nontriv = {}, 0
    for c, (replies, omsg), mrep in zip(cases, impl_res, model_res):
        if omsg is not None:
            oracle_fail.append((c, replies, omsg))
        if drv_ok:
            obs, diag = compare(mod, c, replies, mrep)
            if obs:
                corr_fail.append((c, obs))
            diag_count += len(diag)
        if nontrivial_fn is None or nontrivial_fn(c, replies):
            nontriv += 1
        if tags_fn is not None:
            for t in tags_fn(c, replies):
                hist[t] = hist.get(t, 0) + 1

    violations, known_lines = [], []

    def impl_fails(cand):
        return _impl_one(mod, cand)[1] is not None

    # oracle failures on the real code: the property is violated, whatever the model says
    reported = set()
    shrink_deadline = time.time() + (60 if tier == "quick" else 240)   # total budget for minimising failures
    for c, replies, omsg in oracle_fail[:50]:
        if omsg.split(":")[0] in reported and match_known(mod, c) is None and not getattr(mod, "KNOWN", None):
            continue                      # same kind of failure already reported with a minimised replay
        small = shrink_case(mod, c, impl_fails, budget_s=max(0.5, min(20.0, shrink_deadline - time.time())))
        replies2, omsg2 = _impl_one(mod, small)
        if omsg2 is None:
            small, replies2, omsg2 = c, replies, omsg
        kf = match_known(mod, small)
        if kf is not None:
            line = "KNOWN-FINDING: property=%s %s" % (pid, kf.get("what", ""))
            if line not in known_lines:
                known_lines.append(line)
            continue
        k = omsg2.split(":")[0]
        if k in reported:
            continue
        reported.add(k)
        rel = write_replay(mod, "impl-violation", {
            "seed": seed, "tier": tier, "case": small, "impl_replies": replies2, "oracle": omsg2,
            "how_to_replay": "./check %s --replay <this file>" % pid})
        violations.append("VIOLATION property=%s replay=%s" % (pid, rel))

    if corr_fail:
        c, obs = corr_fail[0]

        def corr_fails(cand):
            r, _ = _impl_one(mod, cand)
            m, _ = run_driver(mod, [cand])
            return bool(compare(mod, cand, r, m[0])[0])
        small = shrink_case(mod, c, corr_fails)
        r, _ = _impl_one(mod, small)
        m, _ = run_driver(mod, [small])
        obs2 = compare(mod, small, r, m[0])[0]
        if not obs2:
            small, obs2 = c, obs
        tie_problems.append(("correspondence", "model and implementation differ on %d case(s)" % len(corr_fail), {
            "case": small,
            "differences": [{"line": l, "impl": a, "model": b} for (_, l, a, b) in obs2[:5]]}))

    # broken tie and no unexplained oracle failure so far: directed search on the real code
    searched = 0
    if tie_problems and not violations:
        say("[%s] tie broken (%s); searching the implementation for a failing input" % (
            pid, "; ".join(sorted(set(k for k, _, _ in tie_problems)))))
        sfn = getattr(mod, "search_cases", None)
        budget = 90 if tier == "quick" else 600
        ts = time.time()
        srng = random.Random("%s/search/%s" % (pid, seed))
        found = None

        def examine(batch):
            """first failing case of the batch that is not a known finding: (case, replies, msg) or None"""
            for cc, (rr, om) in zip(batch, run_impl(mod, batch)):
                if om is None:
                    continue
                small = shrink_case(mod, cc, impl_fails, budget_s=5.0)
                rr2, om2 = _impl_one(mod, small)
                if om2 is None:
                    small, rr2, om2 = cc, rr, om
                kf = match_known(mod, small)
                if kf is not None:
                    line = "KNOWN-FINDING: property=%s %s" % (pid, kf.get("what", ""))
                    if line not in known_lines:
                        known_lines.append(line)
                    continue
                return small, rr2, om2
            return None

        gens = [sfn(srng, tier)] if sfn else []
        gens.append(mod.gen_cases(srng, "thorough"))
        for g in gens:
            batch = []
            for c in g:
                batch.append(c)
                if len(batch) >= 2000:
                    found = examine(batch)
                    searched += len(batch)
                    batch = []
                    if found or time.time() - ts > budget:
                        break
            if not found and batch and time.time() - ts <= budget:
                found = examine(batch)
                searched += len(batch)
            if found or time.time() - ts > budget:
                break
        if found:
            small, replies2, omsg2 = found
            rel = write_replay(mod, "impl-violation", {
                "seed": seed, "tier": tier, "case": small, "impl_replies": replies2, "oracle": omsg2,
                "tie_problems": [{"kind": k, "what": t} for k, t, _ in tie_problems],
                "how_to_replay": "./check %s --replay <this file>" % pid})
            violations.append("VIOLATION property=%s replay=%s" % (pid, rel))
        else:
            rel = write_replay(mod, "tie-broken", {
                "seed": seed, "tier": tier,
                "no_longer_checks": [{"kind": k, "what": t, "detail": d} for k, t, d in tie_problems],
                "searched_cases_without_failure": searched + len(cases)})
            violations.append("VIOLATION property=%s replay=%s no-failing-input-found" % (pid, rel))

    # 7. evidence
    wall = time.time() - t0
    samples = []
    for c, (replies, _) in list(zip(cases, impl_res))[:: max(1, len(cases) // 4)][:4]:
        samples.append({"lines": c["lines"][:6], "replies": replies[:6], "meta": c.get("meta", {})})
    obligations = info.get("obligations", 0)
    ev = {
        "property_id": pid, "tier": tier, "seed": seed, "level": "proof",
        "coverage": {
            "obligations": max(obligations, 1),
            "discharged": obligations if prf_ok and not [p for p in tie_problems if p[0] in ("audit", "proof")] else 0,
            "checker_cmd": "cd lean && lake build %s %s && lake env lean .audit/%s.lean" % (lean_props(mod), driver_name(mod), pid),
            "trusted_base": ["Lean 4.33.0 kernel", "axioms: propext, Classical.choice, Quot.sound (audited per theorem)",
                             "Lean compiler/leanc for the driver", "harness/core.py + harness/%s.py (translator, adapter, oracle)" % pid.lower(),
                             "model = code only on the generated inputs (sampled correspondence)"] + list(getattr(mod, "TRUSTED", [])),
            "theorems": list(mod.THEOREMS),
            "axioms": info.get("axioms", {}),
            "lean_files": info.get("lean_files", []),
            "leanchecker": info.get("leanchecker", "not run (quick tier)"),
            "evaluations": len(cases),
            "distinct_nontrivial": nontriv,
            "rule": getattr(mod, "RULE", "cases distinct by protocol text; every case counted non-trivial"),
            "samples": samples,
            "distribution": dict(sorted(hist.items())),
            "correspondence_lines": sum(len(c["lines"]) for c in cases),
            "correspondence_differences": len(corr_fail),
            "diagnostic_differences": diag_count,
            "oracle_failures": len(oracle_fail),
            "directed_search_cases": searched,
            "tie_problems": [{"kind": k, "what": t} for k, t, _ in tie_problems],
            "known_findings_reported": known_lines,
        },
        "assumptions": list(getattr(mod, "ASSUMPTIONS", [])),
        "wall_s": round(wall, 2),
        "violations": len(violations),
    }
    if ev["coverage"]["discharged"] == 0:
        # proofs did not check in this run: do not present proof-level counts (schema: discharged >= 1)
        ev["coverage"]["proof_status"] = "FAILED: %d obligation(s) not discharged" % ev["coverage"].pop("obligations")
        ev["coverage"].pop("discharged")
    os.makedirs(os.path.join(VERIF, "evidence"), exist_ok=True)
    with open(os.path.join(VERIF, "evidence", pid + ".json"), "w") as f:
        json.dump(ev, f, indent=1, default=str)

    for l in known_lines:
        say(l)
    for v in violations:
        say(v)
    say("[%s] %s in %.1fs: %d case(s), %d oracle failure(s), %d correspondence difference(s), %d tie problem(s)" % (
        pid, "FAIL" if violations else "ok", wall, len(cases), len(oracle_fail), len(corr_fail), len(tie_problems)))
    return 1 if violations else 0


# ---------------------------------------------------------------- setup / cli

def all_ready():
    ids = []
    for n in range(1, 100):
        pid = "C%02d" % n
        if os.path.exists(os.path.join(VERIF, "harness", pid.lower() + ".py")):
            try:
                m = load_module(pid)
            except Exception as e:
                print("cannot import %s: %s" % (pid, e), file=sys.stderr)
                continue
            if getattr(m, "READY", False):
                ids.append(pid)
    return ids


def setup():
    ids = all_ready()
    targets = []
    for pid in ids:
        m = load_module(pid)
        ok, msg = run_translate(m)
        print("[setup] %s translate: %s" % (pid, msg))
        targets += [lean_props(m), driver_name(m)]
    ok, out = build(targets)
    print(out[-3000:])
    print("[setup] build %s for %s" % ("ok" if ok else "FAILED", " ".join(ids)))
    return 0 if ok else 2


def main(argv):
    import argparse
    ap = argparse.ArgumentParser(prog="check")
    ap.add_argument("property", nargs="?")
    ap.add_argument("--tier", default=os.environ.get("VERIF_TIER", "quick"), choices=["quick", "thorough"])
    ap.add_argument("--seed", type=int, default=int(os.environ.get("VERIF_SEED", "0") or 0))
    ap.add_argument("--replay")
    ap.add_argument("--setup", action="store_true")
    a = ap.parse_args(argv)
    if a.setup:
        return setup()
    if not a.property:
        ap.error("property id needed")
    try:
        return run_check(a.property.upper(), a.tier, a.seed, a.replay)
    except subprocess.TimeoutExpired as e:
        print("internal: timeout: %s" % e, file=sys.stderr)
        return 2
    except Exception:
        traceback.print_exc()
        return 2
