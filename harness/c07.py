"""C07 — component builds are reported at the first parent build that ships them (ak/ghist.py)."""
import itertools
import logging

from harness.core import enc_str, dec_str
from harness import ghist_common as G

PROPERTY = "C07"
READY = True
THEOREMS = [
    "C07.repo_order", "C07.repo_order_independent", "C07.cycle_rejected", "C07.repo_order_total",
    "C07.included_first_partial", "C07.bumps_recorded", "C07.parent_version_in_from",
    "C07.included_only_first_partial", "C07.parent_builds_nearest", "C07.included_first_reported_partial",
    "C07.bump_build_reported_partial", "C07.reported_bump", "C07.skipped_version",
    "C07.included_first_spec_partial", "C07.included_first_exists_partial", "C07.included_first_git_partial",
    "C07.pending_from_latest", "C07.pending_bump_from_pin",
    "C07.analysis_total", "C07.skipped_not_member", "C07.saved_detector", "C07.analysis_registrations",
]
TEXT = "BUG-9"
NAMES = ["app", "core", "lib", "mid", "util", "zeta"]        # repository id = position (sorted() order of the names)
RULE = ("col: 2-3 repositories (app->lib; app->lib,util; app->mid->lib), component with 1-2 release lines and merges, parent "
        "branches forking/merging, pins moving by 0-2 component builds and never decreasing along a path (25%: the oldest "
        "parent commits pin a version that is no build tag); in 60% of the components with two lines no matching commit lies below the fork (the rest shows the known finding "
        "cross_line_pin; those scenarios come last in the stream); forked-lines: a component whose 2nd/3rd release line forks from the "
        "first, pins contained in one another by git ancestry that stay in a line or move on to the forked one (also in one "
        "jump to the newest builds); 25% of the owners (`app`, nobody's component) have build numbers that do NOT grow along "
        "their history: the first builds made by the master job and numbered from a VERSION file above the release line, a "
        "build counter running down, or in an order of its own, tags on half the commits, commit times tight (25%), spread "
        "inside the windows (40%), component builds days apart in any order w.r.t. its branches with the owner starting right "
        "inside the 1-day component cut-off of the oldest build the component must report (25%: a fix built on the newer "
        "line, backported later) or anywhere (10%, mostly not judged), both supply orders; ord: random dependency graphs over <=6 repositories incl. cycles, self-dependencies and "
        "unknown components, shuffled supply order; entries that the constructor skips (a path whose id has no repository class, "
        "in the three documented value formats) - in 20% of the scenarios, mostly named as a component by the others - and "
        "ready objects given as object / (object, remote) / (object, None); 25% of the components and 15% of the owners keep "
        "their build number in a file and use the saved-number builds detector (builds = bumps of the number, merges carry "
        "the old number of the first or of another parent); 20% of the components are built from master with a version file that is "
        "bumped between builds; 15% of the tagged commits also carry the first build tag of the next release line (higher "
        "version, lower build counter); about half of the refs of the git stand-in are loose; 35% of the repositories have release lines with a version component 0 or 9998/9999/10000 (names, tags, pins, "
        "included_at) and 35% have build counters that pass 9998/9999/10000/8888 at one of their commits (owner, component "
        "and the middle repository of a chain alike); parent and mid branch names also with numbers of different width "
        "(release/5.9 vs release/5.10); the component map of a repository is configured on the class, on the object only, or "
        "on the object with a contradicting class-level map (a third each); every collection is analysed twice (the second answer must equal the "
        "first). non-trivial = col with a non-empty included_at somewhere, or ord with >=2 "
        "repositories; distinct by protocol line")
TRUSTED = ["tests/mock_git.py (synthetic git objects fed to the real ak.ghist code)",
           "sorted() on repository names (the model sorts the ranks of the names)",
           "iteration order of the set `relevant_cmpnts` is not observable: bumps are compared sorted by component"]
ASSUMPTIONS = ["repositories that keep their build number in a file (RepoBuildsBySavedBuildNumDetector): the release heads are "
               "builds (the code shows the saved number for a head that is no build, the model's 'not built' cannot say that)",
               "commit times inside the cut-off windows (quantifier): inside a repository at most 30 days between a branch head and any "
               "younger commit, no parent commit a day or more older than the oldest build the component's report must show - the "
               "earliest builds containing a matching commit, computed from the history (Hist.InWindow, "
               "CompWindow in the theorems; outside, model and code are compared, the oracle does not judge)",
               "component build numbers increase along history (parent build numbers need not: generated in any order); pins never "
               "decrease along a path, read as containment by git ancestry in the component: the newly pinned component build "
               "contains the previously pinned one - inside a release line or on a line forked from it -, a pin that names no build of the component (unknown "
               "version) ships nothing and may only come before pins that name builds (scenarios with incomparable "
               "consecutive pins, tag 'pin-crosses-parallel-builds', are compared with the model but not judged)",
               "ASCII ref names; fewer than 10^9 report commits per repository"]

translate = G.translate


# ------------------------------------------------------------------ protocol text
def enc_commit(c, i=None):
    pins = "+".join("%d=%s" % (NAMES.index(k), ".".join(str(x) for x in v)) for k, v in sorted(c.get("pins", {}).items())) or "-"
    return G.enc_commit(c, i) + ":" + pins


def enc_repo(r):
    if r.get("skipped"):
        return "%d@!" % NAMES.index(r["name"])
    h = r["hist"]
    commits = ";".join(enc_commit(c, i) for i, c in enumerate(h["commits"])) or "-"
    refs = ";".join("%s:%d" % (enc_str(G.REMOTE + "/" + n), hd) for n, hd in G.ref_order(h["refs"])) or "-"
    deps = ",".join(str(NAMES.index(d)) for d in r["deps"]) or "-"
    return "%d@%s@%s@%s@%s" % (NAMES.index(r["name"]), deps, commits, refs, "s" if r.get("mode") == "saved" else "t")


def enc_col(repos):
    return "col %s %s" % (enc_str(G.REMOTE), " ".join(enc_repo(r) for r in repos))


def dec_repo(tok):
    if tok.endswith("@!"):
        return {"name": NAMES[int(tok[:-2])], "deps": [], "hist": {"commits": [], "refs": []}, "skipped": True}
    i, d, cs, rs, mode = tok.split("@")
    commits = []
    if cs != "-":
        for t in cs.split(";"):
            p, tg, m, ts, sv, pins = t.split(":")
            sv3 = None
            if mode == "s":
                sv3, sv = [int(x) for x in sv.split(".")], "-"
            bns, other = G.dec_tags(tg, sv)
            c = {"p": [] if p == "-" else [int(x) for x in p.split(",")], "t": bns,
                 "m": int(m), "ts": int(ts), "pins": {}}
            if other:
                c["xt"] = other
            c["names"] = [] if tg == "-" else [dec_str(x) for x in tg.split("+")]
            if sv != "-":
                c["sv"] = [int(x) for x in sv.split(".")]
            if sv3 is not None:
                c["sv3"] = sv3
            if pins != "-":
                for q in pins.split("+"):
                    k, v = q.split("=")
                    c["pins"][NAMES[int(k)]] = [int(x) for x in v.split(".")]
            commits.append(c)
    refs = []
    if rs != "-":
        for t in rs.split(";"):
            n, hd = t.split(":")
            refs.append([dec_str(n)[len(G.REMOTE) + 1:], int(hd)])
    if mode == "s":
        # builds of a repository that keeps its build number in a file: "a build is created when the saved number is
        # bumped" - the commits whose number differs from the number of every parent (the harness' own reading)
        for c in commits:
            bumped = all(commits[q]["sv3"] != c["sv3"] for q in c["p"])
            c["t"] = [c["sv3"] + [c["sv3"][2]]] if bumped else []
            c["names"] = []
    out = {"name": NAMES[int(i)], "deps": [] if d == "-" else [NAMES[int(x)] for x in d.split(",")],
           "hist": {"commits": commits, "refs": refs}}
    if mode == "s":
        out["mode"] = "saved"
    return out


# ------------------------------------------------------------------ real code
def _classes(deps_by_name, cfg="class", loc=lambda d: "DEP_" + d, saved=()):
    """factories of ProjectRepo objects whose component map (`_COMPONENTS_VERSIONS_LOCATIONS`) is configured
    * "class"    : on the class (a subclass per repository, as in the package's tests),
    * "instance" : on the object only (one generic class, the class-level map is the empty default),
    * "both"     : on the object, while the class carries another map (every other repository: cycles everywhere) -
                   the object's own attribute is the one that counts"""
    k = G.repo_classes()
    from ak.ghist import RepoBuildsBySavedBuildNumDetector
    out = {}
    for name, deps in deps_by_name.items():
        real = {d: loc(d) for d in deps}
        # repositories that keep their build number in a file select the other builds detector (the documented hook)
        extra = {"make_builds_detector": lambda self: RepoBuildsBySavedBuildNumDetector(self)} if name in saved else {}
        if cfg == "class":
            out[name] = type("Repo_" + name, (k["StdTestRepo"],), dict(extra, _COMPONENTS_VERSIONS_LOCATIONS=real))
            continue
        attrs = dict(extra) if cfg == "instance" else \
            dict(extra, _COMPONENTS_VERSIONS_LOCATIONS={d: loc(d) for d in deps_by_name if d != name})
        cls = type("Repo_" + name, (k["StdTestRepo"],), attrs)

        def make(*a, _cls=cls, _real=real):
            obj = _cls(*a)
            obj._COMPONENTS_VERSIONS_LOCATIONS = _real
            return obj
        out[name] = make
    return out


def _bn(b):
    return G.show_bn(b.as_tuple())


def _repo_text(rid, rg):
    out = ["r=%d" % NAMES.index(rid)]
    for rb in rg.branches:
        bl = []
        for b in rb.get_rbuilds_list():
            kind = "M" if b.build_type == 2 else "N"
            bc = str(b.rcommit.commit.intid - 1) if b.rcommit is not None else "-"
            cs = [str(r.commit.intid - 1) for r in b.get_printable_rcommits()]
            bumps = ["%d>%s<%s" % (NAMES.index(c), _bn(bp.to_buildnum), "/".join(_bn(x) for x in bp.from_build_nums) or "-")
                     for c, bp in sorted(b.bumps.items(), key=lambda kv: NAMES.index(kv[0]))]
            incl = ["%d~%s~%s" % (NAMES.index(x[0]), enc_str(str(x[1])), _bn(x[2])) for x in b.included_at]
            bl.append("%s:%s:%s:%s:%s:%s" % (kind, _bn(b.build_num), bc, ",".join(cs) or "-",
                                             "+".join(bumps) or "-", "+".join(incl) or "-"))
        out.append("%s=%s" % (enc_str(str(rb.branch_name)), ";".join(bl)))
    return " ".join(out)


def run_col(repos, cfg="class"):
    from ak.ghist import ReposCollection
    kept = [r for r in repos if not r.get("skipped")]
    cls = _classes({r["name"]: r["deps"] for r in kept}, cfg, saved=[r["name"] for r in kept if r.get("mode") == "saved"])
    objs = {}
    for j, r in enumerate(repos):
        if r.get("skipped"):
            # a path whose id has no class in _REPOS_TYPES, in one of the documented formats: skipped with a warning
            objs[r["name"]] = ["/no/such/repo", ("/no/such/repo", "origin"), ("/no/such/repo", None)][j % 3]
            continue
        obj = cls[r["name"]](r["name"], G.mock_repo(r["hist"], r["name"], TEXT, pins_file="DEP_"), G.REMOTE)
        objs[r["name"]] = [obj, (obj, G.REMOTE), (obj, None)][(j + len(repos)) % 3]
    rc = ReposCollection(objs)
    data = dict(rc.make_reports_data(TEXT))
    # the collection can be asked again: the second answer must not depend on the first call
    again = dict(rc.make_reports_data(TEXT))
    if sorted(again) != sorted(data) or any(_repo_text(k, again[k]) != _repo_text(k, data[k]) for k in data):
        raise SecondCallDiffers("make_reports_data answers differently the second time")
    return rc.sorted_repos, data


class SecondCallDiffers(Exception):
    pass


def impl(case):
    logging.disable(logging.CRITICAL)
    out = []
    cfg = case.get("meta", {}).get("cfg", "class")
    for line in case["lines"]:
        op, *args = line.split()
        try:
            if op == "ord":
                from ak.ghist import ReposCollection
                deps, supplied = {}, []
                for tok in args:
                    i, d = tok.split("@")
                    name = NAMES[int(i)] if int(i) < len(NAMES) else "n%d" % int(i)
                    supplied.append((name, d == "!"))
                    if d != "!":
                        deps[name] = [] if d == "-" else \
                            [(NAMES[int(x)] if int(x) < len(NAMES) else "zz%d" % int(x)) for x in d.split(",")]

                class FakeGit:
                    remotes = {}
                cls = _classes(deps, cfg, loc=lambda d: "DEP")
                objs = {}
                for j, (name, skipped) in enumerate(supplied):
                    if skipped:     # a path whose id has no class in _REPOS_TYPES: the constructor skips it
                        objs[name] = ["/no/such/repo", ("/no/such/repo", "origin"), ("/no/such/repo", None)][j % 3]
                    else:
                        obj = cls[name](name, FakeGit(), G.REMOTE)
                        objs[name] = [obj, (obj, G.REMOTE), (obj, None)][(j + len(supplied)) % 3]
                rc = ReposCollection(objs)
                out.append("ok " + (",".join(str(NAMES.index(x)) for x in rc.sorted_repos) or "-"))
            elif op == "col":
                repos = [dec_repo(t) for t in args[1:]]
                order, data = G.with_timeout(4, run_col, repos, cfg)
                out.append("ok o=%s %s" % (",".join(str(NAMES.index(x)) for x in order) or "-",
                                           " ".join(_repo_text(rid, data[rid]) for rid in order)))
            else:
                out.append("bad-op")
        except Exception as e:
            out.append("err " + type(e).__name__)
    return out


# ------------------------------------------------------------------ oracle
def has_cycle(deps):
    names = set(deps)
    color = {}

    def dfs(u):
        color[u] = 1
        for v in deps[u]:
            if v not in names:
                continue
            if color.get(v) == 1:
                return True
            if v not in color and dfs(v):
                return True
        color[u] = 2
        return False
    return any(dfs(u) for u in sorted(deps) if u not in color)


def parse_col(rep):
    """-> order, {repo id: [(branch, [(kind, bn, commit, commits, bumps, incl)])]}"""
    toks = rep.split()[1:]
    order = [] if toks[0] == "o=-" else [int(x) for x in toks[0][2:].split(",")]
    repos, cur = {}, None
    for t in toks[1:]:
        if t.startswith("r="):
            cur = int(t[2:])
            repos[cur] = []
            continue
        n, bl = t.split("=", 1)
        builds = []
        for b in (bl.split(";") if bl else []):
            kind, bn, bc, cs, bumps, incl = b.split(":")
            builds.append((kind, tuple(x if x == "?" else int(x) for x in bn.split(".")), None if bc == "-" else int(bc),
                           [] if cs == "-" else [int(x) for x in cs.split(",")],
                           [] if bumps == "-" else bumps.split("+"),
                           [] if incl == "-" else [tuple(x.split("~")) for x in incl.split("+")]))
        repos[cur].append((dec_str(n), builds))
    return order, repos


def oracle(case, replies):
    for line, rep in zip(case["lines"], replies):
        op, *args = line.split()
        if op == "ord":
            deps = {}
            for tok in args:
                i, d = tok.split("@")
                if d == "!":
                    continue            # skipped by the constructor: not a member of the collection
                deps[int(i)] = [] if d == "-" else [int(x) for x in d.split(",")]
            cyc = has_cycle(deps)
            if cyc:
                if rep != "err ValueError":
                    return "cycle-accepted: cyclic dependencies %s give %s" % (deps, rep)
                continue
            if not rep.startswith("ok"):
                return "acyclic-rejected: dependencies %s give %s" % (deps, rep)
            order = [] if rep == "ok -" else [int(x) for x in rep[3:].split(",")]
            msg = check_order(order, deps)
            if msg:
                return msg
        elif op == "col":
            repos = [r for r in (dec_repo(t) for t in args[1:]) if not r.get("skipped")]
            deps = {NAMES.index(r["name"]): [NAMES.index(d) for d in r["deps"]] for r in repos}
            if has_cycle(deps):
                if rep != "err ValueError":
                    return "cycle-accepted: cyclic dependencies %s give %s" % (deps, rep)
                continue
            if not rep.startswith("ok"):
                return "crash: the report is not produced (%s)" % rep
            order, reports = parse_col(rep)
            msg = check_order(order, deps)
            if msg is None and in_windows(repos):
                msg = check_included(repos, reports)
                if msg is None or msg.startswith(CROSS):
                    msg = check_pending(repos, reports) or msg
            if msg:
                return msg
    return None


def in_windows(repos):
    """the quantifier "commit times within the cut-off windows", decided from the times alone: in every repository no
    commit is more than 30 days younger than the head of a release/master branch (no branch is dropped as obsolete),
    and no commit of a parent repository is a day or more older than the oldest component build that the component's
    report must show (the earliest builds containing a matching commit: the component's earliest report-related build is
    at most that old, so the component stays relevant down to the parent's roots)"""
    by = {r["name"]: r for r in repos}
    ts = {n: [G.commit_ts(c, i) for i, c in enumerate(r["hist"]["commits"])] for n, r in by.items()}
    for n, r in by.items():
        if not ts[n]:
            continue
        for nm, hd in r["hist"]["refs"]:
            if (nm in ("master", "main") or nm.startswith("release/")) and max(ts[n]) > ts[n][hd] + 30 * G.DAY:
                return False
        for d in r["deps"]:
            if d not in ts or not ts[d]:
                continue
            u = surely_reported_min(by[d]["hist"])
            if u == "?" or (u is None and by[d]["deps"]):
                u = max(ts[d])          # order of the component's branches undecided, or a component that may have
                #                         builds reported only for the bumps of its own components: the safe bound
            if u is not None and min(ts[n]) + G.DAY <= u:
                return False
    return True


def check_order(order, deps):
    if sorted(order) != sorted(deps):
        return "order-not-permutation: sorted_repos = %s for repositories %s" % (order, sorted(deps))
    pos = {r: i for i, r in enumerate(order)}
    for a in deps:
        for b in deps[a]:
            if b in pos and pos[b] > pos[a]:
                return "order: component %d is analysed after its owner %d (%s)" % (b, a, order)
    return None


def single_line(h):
    n = [nm for nm, _ in h["refs"] if nm in ("master", "main") or nm.startswith("release/")]
    return len(n) == 1


def line_of(ch):
    """commit -> position of the release line it belongs to (the first branch, in the order of the statement, whose head
    reaches it); None when the statement does not decide the order of the branches"""
    from harness.c06 import spec_order
    order = spec_order(ch["refs"])
    if order is None:
        return None
    out = {}
    for k, (nm, hd) in enumerate(order):
        for c in G.anc(ch, hd):
            out.setdefault(c, k)
    return out


def surely_reported_min(ch):
    """an upper bound of the time of the component's earliest report-related build, computed from the history alone: a
    matching commit is listed under one of the earliest builds of the branch that contain it (C06), so that build is
    reported - the youngest of these candidates bounds it, and the oldest such bound over the matching commits is taken.  None: nothing matches, the component has no report-related builds.  "?" when undecided."""
    from harness.c06 import spec_order
    order = spec_order(ch["refs"])
    if order is None:
        return "?"
    cs = ch["commits"]
    times, seen, ancs = [], set(), {}
    for nm, hd in order:
        A = G.anc(ch, hd)
        elig = [c for c in A - seen if cs[c]["t"] or c == hd]
        for e in elig:
            ancs[e] = G.anc(ch, e)
        for c in A:
            if not cs[c]["m"]:
                continue
            cont = [e for e in elig if c in ancs[e]]
            mins = [G.commit_ts(cs[e], e) for e in cont if not any(e2 != e and e2 in ancs[e] for e2 in cont)]
            if mins:
                times.append(max(mins))     # the commit is listed under ONE of its earliest builds: that one is reported
        seen |= A
    return min(times) if times else None


def ver_to_commit(ch):
    out = {}
    for i, c in enumerate(ch["commits"]):
        for bn in c["t"]:
            out[tuple(bn[:3])] = i
    return out


def pins_cross(owner, comp):
    """True when along some path of the owner's history the pinned component build moves to a build that does not
    contain the previously pinned one (the pin moves between parallel sub-branches of the component).  Only the pins
    of tagged commits and branch heads are ever read."""
    oh, ch = owner["hist"], comp["hist"]
    v2c = ver_to_commit(ch)
    heads = {hd for _, hd in oh["refs"]}
    elig = [i for i, c in enumerate(oh["commits"]) if c["t"] or i in heads]
    pinc = {}
    for i in elig:
        v = oh["commits"][i].get("pins", {}).get(comp["name"])
        if v is not None and tuple(v) in v2c:
            pinc[i] = v2c[tuple(v)]
    canc = {}
    for i in pinc:
        ai = G.anc(oh, i)
        for k in pinc:
            if k != i and k in ai:
                if pinc[i] not in canc:
                    canc[pinc[i]] = G.anc(ch, pinc[i])
                if pinc[k] not in canc[pinc[i]]:
                    return True
    return False


def numbers_not_monotone(h):
    """some build of the history has a smaller number than a build among its ancestors"""
    cs = h["commits"]
    for i, c in enumerate(cs):
        if c["t"] and not any("?" in b for b in c["t"]):
            lo = min(tuple(b) for b in c["t"])          # the number of a build is the smallest of its tags
            for a in G.anc(h, i):
                if a != i and cs[a]["t"] and not any("?" in b for b in cs[a]["t"]) and min(tuple(b) for b in cs[a]["t"]) > lo:
                    return True
    return False


def pin_changes_line(owner, comp):
    """along the owner's history the pinned component commit moves from one release line of the component to another"""
    ch = comp["hist"]
    if single_line(ch):
        return False
    lines = line_of(ch)
    if lines is None:
        return False
    v2c = ver_to_commit(ch)
    cs = owner["hist"]["commits"]
    ln = [lines.get(v2c.get(tuple(c.get("pins", {}).get(comp["name"], ())))) for c in cs]
    return any(ln[i] is not None and ln[p] is not None and ln[p] != ln[i] for i, c in enumerate(cs) for p in c["p"])


def cross_shape(repos):
    """the shape of the known finding `cross_line_pin`, read off the scenario alone: some parent commit pins a build of
    the component whose commit has, among its git ancestors, a build with a matching commit at or below it that lies on
    another release line"""
    by = {r["name"]: r for r in repos}
    for r in repos:
        for d in r["deps"]:
            comp = by.get(d)
            if comp is None or comp.get("skipped") or single_line(comp["hist"]):
                continue
            ch = comp["hist"]
            lines = line_of(ch)
            if lines is None:
                continue
            v2c = ver_to_commit(ch)
            cs = ch["commits"]
            rep_ = [i for i, c in enumerate(cs) if c["t"] and any(cs[a]["m"] for a in G.anc(ch, i))]
            for c in r["hist"]["commits"]:
                pc = v2c.get(tuple(c.get("pins", {}).get(d, ())))
                if pc is not None and pc in lines:
                    apc = G.anc(ch, pc)
                    if any(R in apc and lines.get(R) != lines[pc] for R in rep_):
                        return True
    return False


def clean_forks(commits, heads):
    """no matching commit below the point where a release line forks from another one: the older line has no
    report-related build that the younger line contains"""
    h = {"commits": commits}
    for k, (name, hd) in enumerate(heads):
        own = [i for i, c in enumerate(commits) if c["line"] == name]
        if not own:
            continue
        first = min(own)
        for p in commits[first]["p"]:
            if commits[p]["line"] != name:
                for a in G.anc(h, p):
                    commits[a]["m"] = 0


def known_pin_cross(case):
    line = case["lines"][0]
    if not line.startswith("col"):
        return False
    repos = [dec_repo(t) for t in line.split()[2:]]
    byname = {r["name"]: r for r in repos}
    return any(d in byname and pins_cross(r, byname[d]) for r in repos for d in r["deps"])


def has_merge(hist):
    """the release line contains a merge commit reachable from its head (parallel sub-branches)"""
    reach = set()
    for nm, hd in hist["refs"]:
        if nm in ("master", "main") or nm.startswith("release/"):
            reach |= G.anc(hist, hd)
    for c in reach:
        ps = hist["commits"][c]["p"]
        for a in ps:
            for b in ps:
                if a < b and a not in G.anc(hist, b):      # two parents, neither an ancestor of the other
                    return True
    return False


def known_component_merges(case):
    line = case["lines"][0]
    if not line.startswith("col"):
        return False
    repos = [dec_repo(t) for t in line.split()[2:]]
    byname = {r["name"]: r for r in repos}
    return any(d in byname and has_merge(byname[d]["hist"]) for r in repos for d in r["deps"])


def fail_kind(case):
    """kind of the oracle's verdict on the real code's answer to the case (None: no failure)"""
    msg = oracle(case, impl(case))
    return msg.split(":")[0] if msg else None


def known_cross_line_pin(case):
    """the ONLY thing the oracle finds on this case is the shape of the known finding: an included_at entry (or the
    parent build carrying it) is missing for a component build that lies on another release line than the pinned
    commit and is a git ancestor of it.  The oracle reports every other difference first (another included_at error,
    a doubled entry, a wrong pending bump ... in the same scenario), so those stay violations."""
    return case["lines"][0].startswith("col") and fail_kind(case) == CROSS


KNOWN = {"pin-crosses-parallel-component-builds": known_pin_cross,
         "component-history-with-merges": known_component_merges,
         "cross_line_pin": known_cross_line_pin}
# Component lines with merges (diamonds of reported builds) are judged: the defect found there was repaired by
# 88b742a.  Scenarios whose consecutive pins are incomparable in the component history are outside the quantifier
# ("the pinned version never decreases along a path" = the newly pinned build contains the previously pinned one):
# they are generated for the correspondence but not judged.
STRICT_PINS = False
STRICT_MERGES = True


def comp_views(repos, reports):
    """every (component, owners) pair the oracle judges, with the owner branches in the order of the statement:
    yields (comp, cid, lines, reported, ver2commit, [(owner, oid, orep, [(branch, head, elig, pinc)])]).
    `lines`: commit -> release line of the component (None for a component with one release line); `reported`:
    commit of a reported component build -> its included_at entries; `elig`: the commits of the branch that are builds
    or its unbuilt head (tagged or head, new in the branch); `pinc`: eligible commit -> the component commit whose
    build tag it pins (None: a version that is no build tag of the component)."""
    from harness.c06 import spec_order
    for comp in repos:
        ch = comp["hist"]
        cid = NAMES.index(comp["name"])
        if cid not in reports:
            continue
        lines = None if single_line(ch) else line_of(ch)
        if not single_line(ch) and lines is None:
            continue
        owners = [r for r in repos if comp["name"] in r["deps"]]
        if not owners:
            continue
        if not STRICT_PINS and any(pins_cross(o, comp) for o in owners):
            continue
        if not STRICT_MERGES and has_merge(ch):
            continue
        # reported component builds, by commit; version -> commit of the tagged component commits
        reported = {}
        for bname, builds in reports[cid]:
            for kind, bn, bc, cs, bumps, incl in builds:
                if bc is not None:
                    reported[bc] = incl
        ver2commit = ver_to_commit(ch)
        judged, views = True, []
        for owner in owners:
            oh = owner["hist"]
            order = spec_order(oh["refs"])
            if order is None:
                judged = False
                break
            oid = NAMES.index(owner["name"])
            orep = dict(reports.get(oid, []))
            seen, brs = set(), []
            for bname, head in order:
                A = G.anc(oh, head)
                elig = {c for c in A - seen if oh["commits"][c]["t"] or c == head}
                pinc = {}
                for c in elig:
                    v = oh["commits"][c].get("pins", {}).get(comp["name"])
                    if v is None:
                        judged = False          # outside the quantifier: no pin at all
                        break
                    pinc[c] = ver2commit.get(tuple(v))      # None: a version that is no build tag of the component
                for c in elig:
                    if judged and pinc[c] is None:
                        ac = G.anc(oh, c)
                        if any(c2 != c and c2 in ac and pinc[c2] is not None for c2 in elig):
                            judged = False      # outside the quantifier: the pin goes back to a version that names nothing
                if judged and lines is not None and any(pc is not None and pc not in lines for pc in pinc.values()):
                    judged = False              # a pinned commit that no release line of the component reaches
                if not judged:
                    break
                brs.append((bname, head, elig, pinc))
                seen |= A
            if not judged:
                break
            views.append((owner, oid, orep, brs))
        if judged:
            yield comp, cid, lines, reported, ver2commit, views


CROSS = "cross-line-pin"


def check_included(repos, reports):
    """included_at(R) for parent branch P = the minimal (w.r.t. ancestry) own builds / unbuilt head of P whose pinned
    version contains R, containment = git ancestry in the component: R's commit is the pinned commit or an ancestor of
    it, whatever release lines of the component the two lie on (the pin may stay in a line forked above R, or move to a
    line forked from the old one).  An expected entry that is missing where R lies on another release line than the
    pinned commit is reported under the kind CROSS (known finding `cross_line_pin`: the code links component builds
    inside one release line only); everything else - and any other difference in the same scenario - under its own
    kind, first."""
    soft = None
    for comp, cid, lines, reported, ver2commit, views in comp_views(repos, reports):
        ch = comp["hist"]
        canc = {}
        exp = {R: set() for R in reported if ch["commits"][R]["t"]}
        xexp = {R: set() for R in exp}          # expected by git ancestry across release lines
        for owner, oid, orep, brs in views:
            oh = owner["hist"]
            for bname, head, elig, pinc in brs:
                for R in exp:
                    cont = set()
                    for c in elig:
                        pc = pinc[c]
                        if pc is None:
                            continue            # ships nothing
                        if pc not in canc:
                            canc[pc] = G.anc(ch, pc)
                        if R in canc[pc]:
                            cont.add(c)
                    for c in cont:
                        ac = G.anc(oh, c)
                        if any(c2 != c and c2 in ac for c2 in cont):
                            continue
                        tags = oh["commits"][c]["t"]
                        bn = tuple(min(tags)) if tags else (8888, 8888, 8888, 8888)
                        cross = lines is not None and lines.get(R) != lines.get(pinc[c])
                        (xexp if cross else exp)[R].add((str(oid), bname, G.show_bn(bn)))
                        # the parent build itself must be reported
                        if not any(bc == c for kind, _, bc, _, _, _ in orep.get(bname, [])):
                            msg = "build at commit %d of %s/%s first ships %s build %d but is not reported" % (
                                c, owner["name"], bname, comp["name"], R)
                            if not cross:
                                return "bump-build-missing: " + msg
                            soft = soft or "%s: %s (the build lies on another release line than the pinned commit)" % (CROSS, msg)
        for R in exp:
            got = [(a, dec_str(b), c) for a, b, c in reported[R]]
            if len(set(got)) != len(got):
                return "included-twice: %s build at commit %d lists a parent build twice: %s" % (comp["name"], R, got)
            if set(got) - xexp[R] != exp[R]:
                return "included-at: %s build at commit %d is included at %s, expected %s" % (
                    comp["name"], R, sorted(got), sorted(exp[R] | xexp[R]))
            if xexp[R] - set(got):
                soft = soft or ("%s: %s build at commit %d is included at %s, expected %s: it lies on another release line "
                                "than the pinned commits that contain it" % (CROSS, comp["name"], R, sorted(got),
                                                                            sorted(exp[R] | xexp[R])))
    return soft


def pending_of(builds, cid):
    """(to, [from ...]) of the bump of component `cid` in the 'not merged' pseudo build of a reported branch, or None"""
    for kind, bn, bc, cs, bumps, incl in builds:
        if kind != "M":
            continue
        for b in bumps:
            c, rest = b.split(">")
            if int(c) == cid:
                to, frm = rest.split("<")
                return to, ([] if frm == "-" else frm.split("/"))
    return None


def check_pending(repos, reports, stats=None):
    """pending bumps of the 'not merged' pseudo build of a parent branch: the component builds that no build of the
    branch ships yet.  Judged for a branch with exactly one last reported build B (no other reported build of the
    branch has B among its ancestors - whatever the build NUMBERS are):
    * a pending bump starts from the version pinned in B's commit;
    * when the version pinned in B contains reported builds of one release line of the component only, and the
      component's report of that line has one last build L and no pseudo build of its own: the pending bump exists
      exactly when L is not contained in the pinned version, and leads to L."""
    from harness.c06 import spec_order
    for comp, cid, lines, reported, ver2commit, views in comp_views(repos, reports):
        ch = comp["hist"]
        creps = dict(reports[cid])
        corder = spec_order(ch["refs"])
        for owner, oid, orep, brs in views:
            oh = owner["hist"]
            for bname, head, elig, pinc in brs:
                builds = orep.get(bname)
                if not builds:
                    continue
                real = [bc for kind, bn, bc, cs, bumps, incl in builds if kind == "N" and bc is not None]
                ancs = {bc: G.anc(oh, bc) for bc in real}
                last = [bc for bc in real if not any(b2 != bc and bc in ancs[b2] for b2 in real)]
                if len(last) != 1 or last[0] not in pinc:
                    continue
                B = last[0]
                v = oh["commits"][B]["pins"][comp["name"]]
                pend = pending_of(builds, cid)
                where = "%s/%s (last build at commit %d pins %s %s)" % (owner["name"], bname, B, comp["name"], G.show_bn(v))
                if stats is not None:
                    stats.append("pending-judged" if pend else "no-pending-judged")
                if pend is not None and pend[1] != [G.show_bn(list(v) + [v[2]])]:
                    return "pending-from: the pending bump of %s starts from %s" % (where, "/".join(pend[1]) or "-")
                pc = pinc[B]
                if pc is None or corder is None:
                    continue
                apc = G.anc(ch, pc)
                below = [R for R in reported if R in apc]
                if not below:
                    continue                    # the pinned version names no reported build
                if lines is not None and any(lines.get(R) != lines.get(pc) for R in below):
                    continue                    # see CROSS
                cname = corder[lines[pc] if lines is not None else 0][0]
                cb = creps.get(cname)
                if not cb or any(k == "M" for k, *_ in cb):
                    continue
                creal = [(bn, bc) for kind, bn, bc, cs, bumps, incl in cb if bc is not None]
                cancs = {bc: G.anc(ch, bc) for _, bc in creal}
                clast = [(bn, bc) for bn, bc in creal if not any(b2 != bc and bc in cancs[b2] for _, b2 in creal)]
                if len(clast) != 1:
                    continue
                Lbn, L = clast[0]
                if L in apc:
                    if pend is not None:
                        return "pending-spurious: %s has a pending bump to %s although the pinned version contains every " \
                               "reported build of %s" % (where, pend[0], cname)
                elif pend is None:
                    return "pending-missing: %s has no pending bump although %s build at commit %d is shipped by no build " \
                           "of the branch" % (where, comp["name"], L)
                elif pend[0] != G.show_bn(Lbn):
                    return "pending-to: the pending bump of %s leads to %s, the last build of %s is %s" % (
                        where, pend[0], cname, G.show_bn(Lbn))
    return None


# ------------------------------------------------------------------ generators
def gen_repo(rng, nbr_max, base_names, pmerge=0.15, pmatch=0.4):
    """branches fork from earlier commits, occasional merges; every commit carries the (major, minor) of the branch
    it was created on (used for its tag)"""
    commits, heads, allc = [], [], []
    nbr = rng.randint(1, nbr_max)
    vb = 0
    for name in base_names[:nbr]:
        parent = rng.choice(allc) if allc and rng.random() < 0.85 else None
        for _ in range(rng.randint(1, 4) if name != "master" or nbr > 1 else rng.randint(2, 6)):
            ps = [parent] if parent is not None else []
            if parent is not None and allc and rng.random() < pmerge:
                o = rng.choice(allc)
                if o != parent:
                    ps.append(o)
                    if rng.random() < 0.5:
                        ps.reverse()
            cid = len(commits)
            if name == "master" and rng.random() < 0.4:
                vb += 1                 # the version file of a master-built repository is bumped now and then
            commits.append({"p": ps, "line": name, "tagged": rng.random() < 0.5, "m": 1 if rng.random() < pmatch else 0,
                            "pins": {}, "two": rng.random() < 0.2, "vb": vb, "xl": rng.random() < 0.15})
            parent = cid
            allc.append(cid)
        heads.append([name, parent])
    return commits, heads


def ver_of(name):
    if name in ("master", "main"):
        return (99, 0)
    a, b = name.split("/")[1].split(".")[:2]
    return (int(a), int(b))


def cver(c):
    """(major, minor) of the builds made from the commit: the release line's, or what the version file of a master-built
    repository says at that commit"""
    if c.get("mv"):
        return tuple(c["mv"])           # built by the master job before the release line got its own: VERSION file
    M, m = ver_of(c["line"])
    return (M, m + c.get("vb", 0)) if c["line"] in ("master", "main") else (M, m)


def tag_nums(i, c):
    """build numbers of the tags on commit i (increasing along history); a fifth of the tagged commits carry two"""
    b = c.get("cb", 0)
    return [b + 10 * i + 1, b + 10 * i + 2] if c.get("two") else [b + 10 * i + 1]


BOUNDARY_LINES = [["release/0.0", "release/0.1", "release/1.0"], ["release/0.9", "release/0.10", "release/0.100"],
                  ["release/5.9998", "release/5.9999", "release/5.10000"],
                  ["release/9998.1", "release/9999.1", "release/10000.1"],
                  ["release/0.9999", "release/1.0", "release/9999.0"]]


def boundary_values(rng, commits, heads):
    """version components 0 and 9998/9999/10000 in the names of the release lines (so in tags, pins and included_at), and
    build counters that pass 9998, 9999, 10000 at some commit of the repository - the numbers of the pseudo builds are
    9999.9999.9999 and 8888.8888.8888, a real build may have some of these components"""
    from harness.c06 import spec_key
    if rng.random() < 0.35:
        names = sorted({c["line"] for c in commits if c["line"].startswith("release/")}, key=spec_key)
        fam = rng.choice(BOUNDARY_LINES)
        if len(names) <= len(fam):
            ren = dict(zip(names, fam))
            for c in commits:
                c["line"] = ren.get(c["line"], c["line"])
            for hd in heads:
                hd[0] = ren.get(hd[0], hd[0])
    if rng.random() < 0.35:
        k = rng.randrange(len(commits))
        base = rng.choice([9998, 9999, 10000, 8888]) - (10 * k + 1)
        for c in commits:
            c["cb"] = base


def unordered_numbers(rng, commits):
    """build numbers of a parent repository that do NOT grow along its history (the quantifier asks for increasing
    numbers in component histories only): the first builds of the repository made by the master job, numbered from the
    VERSION file of the commit (a version above the release line's); a build counter that was reset and runs down; a
    counter in an order of its own (builds of sub-branches numbered as they happened to finish)"""
    n = len(commits)
    mode = rng.choice(["master-first", "master-first", "counter-down", "counter-shuffled"])
    if mode == "master-first":
        k = rng.randint(1, max(1, (n + 1) // 2))        # ids below a bound are closed under git ancestry
        mv = [rng.choice([60, 77, 98]), rng.randrange(4)]
        for c in commits[:k]:
            c["mv"] = mv
            c["xl"] = False
    elif mode == "counter-down":
        for i, c in enumerate(commits):
            c["cb"] = c.get("cb", 0) + 20 * (n - i)
    else:
        perm = list(range(n))
        rng.shuffle(perm)
        for i, c in enumerate(commits):
            c["cb"] = c.get("cb", 0) + 10 * perm[i] - 10 * i + 10 * n
            c["xl"] = False
    return mode


def to_saved(rng, commits, heads):
    """the repository keeps its build number in a file (RepoBuildsBySavedBuildNumDetector): a build is a commit that
    bumps the number; the roots and the branch heads are builds; a commit that is no build carries the number of one of
    its parents - for a merge any of them, so that the old number may come from the first or from another parent"""
    hs = {hd for _, hd in heads}
    for i, c in enumerate(commits):
        c["two"] = False
        c["xl"] = False
        c["svmode"] = True
        if not c["p"] or i in hs:
            c["tagged"] = True
        c["svp"] = rng.randrange(len(c["p"])) if c["p"] else 0


def finish_repo(commits, heads):
    for i, c in enumerate(commits):
        M, m = cver(c)
        tagged = c.pop("tagged")
        c["t"] = [[M, m, n, n] for n in tag_nums(i, c)] if tagged else []
        if c.pop("svmode", False):
            c["sv3"] = [M, m, tag_nums(i, c)[0]] if tagged else list(commits[c["p"][c["svp"]]]["sv3"])
            c["names"] = []             # no build tags: the builds are the bumps of the saved number
        c.pop("svp", None)
        if tagged and c.get("xl") and M < G.MASTER_STYLE_FROM:
            # the commit is also the first build of the next release line (fork point): a higher version with a
            # LOWER build counter - the order of the build numbers is not the order of the counters
            c["t"].append([M, m + 1, c.get("cb", 0) + 10 * i, c.get("cb", 0) + 10 * i])
        c.pop("line")
        c.pop("mv", None)
        c.pop("two", None)
        c.pop("vb", None)
        c.pop("xl", None)
        c.pop("cb", None)
    return {"commits": commits, "refs": heads}


def add_pins(rng, parent_commits, comp_name, comp_commits):
    builds = [i for i, c in enumerate(comp_commits) if c["tagged"]]
    idx = {}
    for i, c in enumerate(parent_commits):
        lo = max([idx[p] for p in c["p"]] + [0])
        idx[i] = min(len(builds) - 1, lo + rng.choice([0, 0, 1, 1, 2]))
        b = builds[idx[i]]
        M, m = cver(comp_commits[b])
        c["pins"][comp_name] = [M, m, rng.choice(tag_nums(b, comp_commits[b]))]


def gen_dag_repo(rng, name, n, ptag=0.6, pmatch=0.5, pmerge=0.35):
    """one release line whose history is a DAG with parallel sub-branches (C06 style); the head is the last commit"""
    commits = []
    for i in range(n):
        if i == 0:
            ps = []
        else:
            k = 2 if (i > 1 and rng.random() < pmerge) else 1
            cands = list(range(max(0, i - 4), i))
            ps = rng.sample(cands, min(k, len(cands)))
        commits.append({"p": ps, "line": name, "tagged": i == 0 or rng.random() < ptag,
                        "m": 1 if rng.random() < pmatch else 0, "pins": {}, "two": rng.random() < 0.2})
    return commits, [[name, n - 1]]


def add_pins_dag(rng, parent_commits, comp_name, comp_commits, comp_head, monotone):
    """pins on a DAG-shaped component: `monotone` = the new pin always contains the pins of the parents"""
    ch = {"commits": comp_commits}
    reach = G.anc(ch, comp_head)
    builds = [i for i, c in enumerate(comp_commits) if c["tagged"] and i in reach]
    ancs = {b: G.anc(ch, b) for b in builds}
    pin = {}
    for i, c in enumerate(parent_commits):
        prev = [pin[p] for p in c["p"]]
        if monotone:
            cands = [b for b in builds if all(q in ancs[b] for q in prev)]
        else:
            cands = [b for b in builds if all(q <= b for q in prev)]
        cands = cands[:3] if cands else [max(prev)]
        pin[i] = rng.choice(cands)
        M, m = cver(comp_commits[pin[i]])
        c["pins"][comp_name] = [M, m, rng.choice(tag_nums(pin[i], comp_commits[pin[i]]))]


def add_pins_contained(rng, parent_commits, comp_name, comp_commits, comp_heads, far=False):
    """pins on a component with several release lines: the new pin always contains the pins of the parents by git
    ancestry - it stays in its line, moves on to a line forked from it, or (`far`) jumps to the newest builds at once"""
    ch = {"commits": comp_commits}
    reach = set()
    for _, hd in comp_heads:
        reach |= G.anc(ch, hd)
    builds = [i for i, c in enumerate(comp_commits) if c["tagged"] and i in reach]
    ancs = {b: G.anc(ch, b) for b in builds}
    pin = {}
    for i, c in enumerate(parent_commits):
        prev = [pin[p] for p in c["p"]]
        cands = [b for b in builds if all(q in ancs[b] for q in prev)]
        if not cands:
            cands = [max(prev)]
        elif far and rng.random() < 0.5:
            cands = cands[-2:]
        else:
            cands = cands[:4]
        pin[i] = rng.choice(cands)
        M, m = cver(comp_commits[pin[i]])
        c["pins"][comp_name] = [M, m, rng.choice(tag_nums(pin[i], comp_commits[pin[i]]))]


def gen_forked_lib(rng):
    """a component whose second (and third) release line forks from a commit of the first one"""
    commits, heads = [], []
    for k, name in enumerate(rng.choice([LIB_LINES[:2], LIB_LINES[:2], LIB_LINES])):
        parent = rng.randrange(len(commits)) if commits else None
        for _ in range(rng.randint(2, 4) if not commits else rng.randint(1, 3)):
            cid = len(commits)
            commits.append({"p": [parent] if parent is not None else [], "line": name, "tagged": rng.random() < 0.7,
                            "m": 1 if rng.random() < 0.6 else 0, "pins": {}, "two": rng.random() < 0.2, "vb": 0,
                            "xl": False})
            parent = cid
        heads.append([name, parent])
    return commits, heads


LIB_LINES = ["release/10.20", "release/10.21", "master"]
APP_LINES = ["release/5.1", "release/5.2", "master"]
MID_LINES = ["release/7.1", "release/7.3"]
# numbers of different width: the numeric order is not the lexicographic one
APP_LINES_W = [["release/5.9", "release/5.10", "master"], ["release/9.1", "release/10.1", "master"]]
MID_LINES_W = ["release/7.9", "release/7.10"]


def gen_col(rng, shape, lib_lines):
    if shape in ("dag-monotone", "dag-numeric", "dagapp-daglib"):
        lib, lheads = gen_dag_repo(rng, "release/10.20", rng.randint(4, 9))
    elif shape == "forked-lines":
        lib, lheads = gen_forked_lib(rng)
    elif shape == "dagapp-linlib":
        lib, lheads = gen_dag_repo(rng, "release/10.20", rng.randint(3, 7), ptag=0.9, pmatch=0.7, pmerge=0.0)
        for i, c in enumerate(lib):
            c["p"] = [i - 1] if i else []
    else:
        lib, lheads = gen_repo(rng, lib_lines, LIB_LINES if rng.random() < 0.8 else ["master"], pmerge=0.1)
    lib[0]["tagged"] = True
    if len(lheads) > 1 and shape != "forked-lines" and rng.random() < 0.6:
        clean_forks(lib, lheads)
    boundary_values(rng, lib, lheads)
    if shape.startswith("dagapp"):
        n = rng.randint(4, 9)
        hi, lo = rng.choice([("release/5.2", "release/5.1"), ("release/5.10", "release/5.9")])
        app, aheads = gen_dag_repo(rng, hi, n, ptag=0.8, pmatch=0.2, pmerge=0.45)
        for c in app:
            c["line"] = hi
        if rng.random() < 0.5:
            aheads.append([lo, rng.randrange(n)])
        if rng.random() < 0.3:
            aheads.append(["master", rng.randrange(n)])
    else:
        app, aheads = gen_repo(rng, 3, APP_LINES if rng.random() < 0.5 else rng.choice(APP_LINES_W))
    boundary_values(rng, app, aheads)
    if rng.random() < 0.25:
        unordered_numbers(rng, app)     # `app` is nobody's component
    saved = set()
    if rng.random() < 0.25:
        saved.add("lib")
        to_saved(rng, lib, lheads)
    if rng.random() < 0.15:
        saved.add("app")
        to_saved(rng, app, aheads)
    repos = []
    if shape.startswith("dag"):
        add_pins_dag(rng, app, "lib", lib, lheads[0][1], monotone=(shape != "dag-numeric"))
        repos = [{"name": "app", "deps": ["lib"], "hist": None}, {"name": "lib", "deps": [], "hist": None}]
        raw = {"app": (app, aheads), "lib": (lib, lheads)}
    elif shape == "forked-lines":
        add_pins_contained(rng, app, "lib", lib, lheads, far=rng.random() < 0.4)
        repos = [{"name": "app", "deps": ["lib"], "hist": None}, {"name": "lib", "deps": [], "hist": None}]
        raw = {"app": (app, aheads), "lib": (lib, lheads)}
    elif shape == "app-lib":
        add_pins(rng, app, "lib", lib)
        repos = [{"name": "app", "deps": ["lib"] + (["zeta"] if rng.random() < 0.2 else []), "hist": None},
                 {"name": "lib", "deps": [], "hist": None}]
        raw = {"app": (app, aheads), "lib": (lib, lheads)}
    elif shape == "app-lib-util":
        util, uheads = gen_repo(rng, 1, ["release/3.0"], pmerge=0.1)
        util[0]["tagged"] = True
        boundary_values(rng, util, uheads)
        add_pins(rng, app, "lib", lib)
        add_pins(rng, app, "util", util)
        repos = [{"name": "app", "deps": ["lib", "util"], "hist": None}, {"name": "lib", "deps": [], "hist": None},
                 {"name": "util", "deps": [], "hist": None}]
        raw = {"app": (app, aheads), "lib": (lib, lheads), "util": (util, uheads)}
    else:   # chain app -> mid -> lib
        mid, mheads = gen_repo(rng, 2, MID_LINES if rng.random() < 0.5 else MID_LINES_W, pmerge=0.1, pmatch=0.2)
        mid[0]["tagged"] = True
        boundary_values(rng, mid, mheads)
        add_pins(rng, mid, "lib", lib)
        add_pins(rng, app, "mid", mid)
        repos = [{"name": "app", "deps": ["mid"], "hist": None}, {"name": "mid", "deps": ["lib"], "hist": None},
                 {"name": "lib", "deps": [], "hist": None}]
        raw = {"app": (app, aheads), "lib": (lib, lheads), "mid": (mid, mheads)}
    for r in repos:
        r["hist"] = finish_repo(*raw[r["name"]])
        if r["name"] in saved:
            r["mode"] = "saved"
    if rng.random() < 0.2:
        # an entry that the constructor skips (a path whose id has no repository class), named as a component by some
        # of the others: it is no member of the collection
        free = [n for n in NAMES if n not in [r["name"] for r in repos]]
        sk = rng.choice(free)
        for r in repos:
            if rng.random() < 0.6 and sk not in r["deps"]:
                r["deps"] = r["deps"] + [sk]
        repos.append({"name": sk, "deps": [], "hist": {"commits": [], "refs": []}, "skipped": True})
    if rng.random() < 0.25:
        unknown_early_pins(rng, repos)
    if rng.random() < 0.2:
        for r in repos:                 # other tags (no build tags) on some commits
            G.add_noise_tags(rng, r["hist"], p=0.25, traps=False)
    add_col_times(rng, repos)
    rng.shuffle(repos)
    return repos


def unknown_early_pins(rng, repos):
    """the oldest commits of a parent repository pin a version that is no build tag of the component (it ships no
    reported build); commit ids below a bound are closed under git ancestry, so the pin never goes back to it"""
    for r in repos:
        cs = r["hist"]["commits"]
        if not r["deps"] or len(cs) < 2:
            continue
        k = rng.randint(1, max(1, len(cs) // 2))
        for c in cs[:k]:
            for d in list(c.get("pins", {})):
                if rng.random() < 0.8:
                    c["pins"][d] = [0, 0, 1 + rng.randrange(3)]


def add_col_times(rng, repos, mode=None):
    """commit times inside both cut-off windows: inside a repository at most 29 days apart (in any order w.r.t. the
    graph), and no commit of a parent repository is a day or more older than a commit of one of its components (so a
    component with reported builds stays relevant down to the parent's roots, whichever of its builds are reported)"""
    if mode is None:
        x = rng.random()
        mode = "tight" if x < 0.25 else "spread" if x < 0.65 else "backport" if x < 0.9 else "loose"
    if mode == "tight":
        return
    if mode == "loose":         # anywhere, also outside the windows: compared with the model, not judged
        for r in repos:
            base = rng.randrange(40 * G.DAY)
            span = rng.choice([G.DAY, 3 * G.DAY, 45 * G.DAY])
            for c in r["hist"]["commits"]:
                c["ts"] = base + rng.randrange(span + 1)
        return
    by = {r["name"]: r for r in repos}
    done = {}
    if mode == "backport":
        # the builds of a component are days apart, in any order w.r.t. its branches (a fix built on the newer line
        # first, backported later); the owner's commits start right inside the component cut-off window: less than a
        # day before the oldest build the component's report must show
        def place_b(name):
            if name in done or name not in by:
                return
            r = by[name]
            for d in r["deps"]:
                place_b(d)
            cs = r["hist"]["commits"]
            bounds = []
            for d in r["deps"]:
                if d in by and by[d]["hist"]["commits"]:
                    u = surely_reported_min(by[d]["hist"])
                    if u == "?" or (u is None and by[d]["deps"]):
                        u = max(c["ts"] for c in by[d]["hist"]["commits"])
                    if u is not None:
                        bounds.append(u)
            base = max(0, max(bounds) - G.DAY + 1 + rng.randrange(7200)) if bounds else rng.randrange(2 * G.DAY)
            span = rng.choice([3 * G.DAY, 8 * G.DAY, 20 * G.DAY])
            for c in cs:
                c["ts"] = base + rng.randrange(span + 1)
            if bounds and cs:
                rng.choice(cs)["ts"] = base          # some commit right at the start of the window
            done[name] = True
        for r in repos:
            place_b(r["name"])
        return

    def place(name):
        if name in done or name not in by:
            return
        r = by[name]
        for d in r["deps"]:
            place(d)
        n = len(r["hist"]["commits"])
        span = rng.choice([0, G.DAY // 2, 3 * G.DAY, 29 * G.DAY])
        off = [rng.randrange(span + 1) for _ in range(n)]
        if rng.random() < 0.5:
            off.sort()
        newest = [max(c["ts"] for c in by[d]["hist"]["commits"]) for d in r["deps"] if d in by and by[d]["hist"]["commits"]]
        base = (max(newest) - G.DAY + 1 + rng.randrange(3600)) if newest else rng.randrange(5 * G.DAY)
        base = max(base, 0)
        for c, o in zip(r["hist"]["commits"], off):
            c["ts"] = base + o
        done[name] = True
    for r in repos:
        place(r["name"])


CFGS = ["class", "instance", "both"]


def mk_case(repos, kind, cfg="class"):
    return {"lines": [enc_col(repos)], "meta": {"kind": kind, "cfg": cfg}}


def gen_ord(rng, nmax=6):
    n = rng.randint(1, nmax)
    ids = rng.sample(range(len(NAMES)), n)
    toks = []
    dens = rng.choice([0.06, 0.12, 0.25])
    pskip = rng.choice([0, 0, 0.15, 0.3])
    for a in ids:
        if rng.random() < pskip:
            toks.append("%d@!" % a)         # supplied as a path of unknown type: skipped by the constructor
            continue
        ds = [b for b in ids + [9] if rng.random() < dens]
        rng.shuffle(ds)
        toks.append("%d@%s" % (a, ",".join(str(x) for x in ds) or "-"))
    return {"lines": ["ord " + " ".join(toks)], "meta": {"kind": "ord", "cfg": rng.choice(CFGS)}}


def gen_cases(rng, tier):
    n_col = 1500 if tier == "quick" else 30000
    # components with one release line first: the scenarios with several lines often show the known finding
    # `cross_line_pin`, and only the first failures of a run are minimised
    for k in range(n_col):
        shape = ["app-lib", "app-lib", "app-lib-util", "chain"][k % 4]
        if k % 3:
            yield mk_case(gen_col(rng, shape, 1), shape + "/1line", rng.choice(CFGS))
    for k in range(n_col // 2):
        shape = "dag-monotone" if k % 4 else "dag-numeric"
        yield mk_case(gen_col(rng, shape, 1), shape, rng.choice(CFGS))
    for k in range(n_col // 2):
        shape = "dagapp-linlib" if k % 3 else "dagapp-daglib"
        yield mk_case(gen_col(rng, shape, 1), shape, rng.choice(CFGS))
    late = []
    for k in range(0, n_col, 3):
        shape = ["app-lib", "app-lib", "app-lib-util", "chain"][k % 4]
        late.append((gen_col(rng, shape, 2), shape + "/2lines", rng.choice(CFGS)))
    for k in range(n_col // 5):
        late.append((gen_col(rng, "forked-lines", 2), "forked-lines", rng.choice(CFGS)))
    late.sort(key=lambda x: cross_shape(x[0]))      # (stable) the scenarios with the shape of the known finding last
    for repos, kind, cfg in late:
        yield mk_case(repos, kind, cfg)
    for _ in range(3000 if tier == "quick" else 40000):
        yield gen_ord(rng)


def search_cases(rng, tier):
    # every dependency graph over 3 repositories (incl. self loops), every supply order
    ids = [0, 2, 3]
    pairs = [(a, b) for a in ids for b in ids]
    for bits in range(2 ** len(pairs)):
        deps = {a: [] for a in ids}
        for k, (a, b) in enumerate(pairs):
            if (bits >> k) & 1:
                deps[a].append(b)
        for perm in itertools.permutations(ids):
            yield {"lines": ["ord " + " ".join("%d@%s" % (a, ",".join(map(str, deps[a])) or "-") for a in perm)],
                   "meta": {"kind": "search-ord"}}
    for k in range(2000):
        yield mk_case(gen_col(rng, ["app-lib", "chain"][k % 2], 1), "search-col", CFGS[k % 3])


def shrink(case):
    """smaller cases that keep the KIND of failure: a case that fails in another way than the known cross-line shape is
    never reduced to one that shows only that shape (the known finding must not hide another error); a case that shows
    only the known shape is not reduced at all (the matcher judges the case as generated)"""
    col = case["lines"][0].startswith("col")
    k0 = fail_kind(case) if col else None
    if k0 == CROSS:
        return
    ok0 = col and well_formed(case)
    for cand in shrink_raw(case):
        if ok0 and not well_formed(cand):
            continue                    # the smaller scenario must stay one the generators could have produced
        if k0 is not None and fail_kind(cand) in (None, CROSS):
            continue
        yield cand


def well_formed(case):
    """what every generated scenario satisfies and a reduction must keep: a pinned version that is a build tag of the
    component names a commit some release line of the component reaches (dropping a ref must not leave the pinned build
    outside the component's report); in a repository that keeps its build number in a file the roots and the release
    heads are builds (ASSUMPTIONS)"""
    repos = [dec_repo(t) for t in case["lines"][0].split()[2:]]
    by = {r["name"]: r for r in repos}
    reach = {}
    for r in repos:
        h = r["hist"]
        reach[r["name"]] = set()
        for nm, hd in h["refs"]:
            if nm in ("master", "main") or nm.startswith("release/"):
                reach[r["name"]] |= G.anc(h, hd)
                if r.get("mode") == "saved" and not h["commits"][hd]["t"]:
                    return False
    for r in repos:
        for d in r["deps"]:
            if d not in by or by[d].get("skipped"):
                continue
            v2c = ver_to_commit(by[d]["hist"])
            for c in r["hist"]["commits"]:
                v = c.get("pins", {}).get(d)
                if v is not None and tuple(v) in v2c and v2c[tuple(v)] not in reach[d]:
                    return False
    return True


def shrink_raw(case):
    line = case["lines"][0]
    op, *args = line.split()
    meta = dict(case.get("meta", {}))
    if op == "ord":
        for i in range(len(args)):
            if len(args) > 1:
                yield {"lines": ["ord " + " ".join(args[:i] + args[i + 1:])], "meta": meta}
        for i, tok in enumerate(args):
            a, d = tok.split("@")
            ds = [] if d == "-" else d.split(",")
            for j in range(len(ds)):
                nd = ",".join(ds[:j] + ds[j + 1:]) or "-"
                yield {"lines": ["ord " + " ".join(args[:i] + ["%s@%s" % (a, nd)] + args[i + 1:])], "meta": meta}
        return
    repos = [dec_repo(t) for t in args[1:]]

    def mk(rs):
        return {"lines": [enc_col(rs)], "meta": meta}
    for ri, r in enumerate(repos):
        h = r["hist"]
        # drop a ref
        for i in range(len(h["refs"])):
            if len(h["refs"]) > 1:
                h2 = {"commits": h["commits"], "refs": h["refs"][:i] + h["refs"][i + 1:]}
                yield mk(repos[:ri] + [dict(r, hist=h2)] + repos[ri + 1:])
        # drop the last commit when no other commit / pin needs it
        n = len(h["commits"])
        if n > 1 and not any(n - 1 in c["p"] for c in h["commits"]):
            last = h["commits"][n - 1]
            used = any(tuple(c.get("pins", {}).get(r["name"], [])) in [tuple(bn[:3]) for bn in last["t"]]
                       for o in repos for c in o["hist"]["commits"])
            refs = [[nm, (last["p"][0] if hd == n - 1 else hd)] for nm, hd in h["refs"] if hd != n - 1 or last["p"]]
            if not used and refs:
                h2 = {"commits": h["commits"][:-1], "refs": refs}
                yield mk(repos[:ri] + [dict(r, hist=h2)] + repos[ri + 1:])
        # un-match / un-tag a commit (a tag that is pinned stays)
        for k, c in enumerate(h["commits"]):
            if c["m"]:
                cs = h["commits"][:k] + [dict(c, m=0)] + h["commits"][k + 1:]
                yield mk(repos[:ri] + [dict(r, hist={"commits": cs, "refs": h["refs"]})] + repos[ri + 1:])
            if c["t"] and r.get("mode") != "saved":      # (the builds of a saved-number repository are no tags)
                used = any(tuple(c2.get("pins", {}).get(r["name"], [])) in [tuple(bn[:3]) for bn in c["t"]]
                           for o in repos for c2 in o["hist"]["commits"])
                if not used:
                    cs = h["commits"][:k] + [dict(c, t=[], xt=[], names=None)] + h["commits"][k + 1:]
                    yield mk(repos[:ri] + [dict(r, hist={"commits": cs, "refs": h["refs"]})] + repos[ri + 1:])


def nontrivial(case, replies):
    op = case["lines"][0].split()[0]
    if op == "ord":
        return len(case["lines"][0].split()) > 2
    return "~" in replies[0]


def corpus():
    # pins moving between parallel sub-branches of the component (outside the quantifier): correspondence only
    lib = {"commits": [{"p": [], "t": [[10, 20, 1, 1]], "m": 1, "pins": {}}, {"p": [0], "t": [[10, 20, 2, 2]], "m": 1, "pins": {}},
                       {"p": [0], "t": [[10, 20, 3, 3]], "m": 1, "pins": {}}, {"p": [1, 2], "t": [[10, 20, 4, 4]], "m": 0, "pins": {}}],
           "refs": [["release/10.20", 3]]}
    app = {"commits": [{"p": [], "t": [[5, 1, 1, 1]], "m": 0, "pins": {"lib": [10, 20, 2]}},
                       {"p": [0], "t": [[5, 1, 2, 2]], "m": 0, "pins": {"lib": [10, 20, 3]}},
                       {"p": [1], "t": [[5, 1, 3, 3]], "m": 0, "pins": {"lib": [10, 20, 4]}}],
           "refs": [["release/5.1", 2]]}
    out = [mk_case([{"name": "app", "deps": ["lib"], "hist": app}, {"name": "lib", "deps": [], "hist": lib}],
                   "corpus-pin-crosses-parallel-builds")]
    # a diamond of reported component builds: before 88b742a 10.20.4 was registered again at the unbuilt head
    lib2 = {"commits": [{"p": [], "t": [], "m": 0, "pins": {}}, {"p": [0], "t": [], "m": 0, "pins": {}},
                        {"p": [0], "t": [], "m": 0, "pins": {}}, {"p": [2, 0], "t": [[10, 20, 4, 4]], "m": 1, "pins": {}},
                        {"p": [2, 3], "t": [[10, 20, 5, 5]], "m": 1, "pins": {}}, {"p": [3, 1], "t": [[10, 20, 6, 6]], "m": 1, "pins": {}},
                        {"p": [5, 4], "t": [], "m": 0, "pins": {}}, {"p": [5, 6], "t": [[10, 20, 8, 8]], "m": 0, "pins": {}}],
            "refs": [["release/10.20", 7]]}
    app2 = {"commits": [{"p": [], "t": [], "m": 0, "pins": {"lib": [10, 20, 4]}},
                        {"p": [0], "t": [[5, 1, 2, 2]], "m": 0, "pins": {"lib": [10, 20, 6]}},
                        {"p": [1], "t": [], "m": 0, "pins": {"lib": [10, 20, 8]}}],
            "refs": [["release/5.2", 2]]}
    out.append(mk_case([{"name": "app", "deps": ["lib"], "hist": app2}, {"name": "lib", "deps": [], "hist": lib2}],
                       "corpus-component-diamond"))
    # the fix is built on release/10.21 first and backported to release/10.20 three days later; the owner takes 10.21.5
    # an hour after it was built: the component's earliest report-related build is not in the branch that is read first
    D = G.DAY
    lib3 = {"commits": [{"p": [], "t": [], "m": 0, "pins": {}, "ts": 0},
                        {"p": [0], "t": [[10, 21, 5, 5]], "m": 1, "pins": {}, "ts": D},
                        {"p": [0], "t": [[10, 20, 3, 3]], "m": 1, "pins": {}, "ts": 4 * D}],
            "refs": [["release/10.20", 2], ["release/10.21", 1]]}
    app3 = {"commits": [{"p": [], "t": [[5, 9, 1, 1]], "m": 0, "pins": {"lib": [0, 0, 1]}, "ts": D // 2},
                        {"p": [0], "t": [[5, 9, 2, 2]], "m": 0, "pins": {"lib": [10, 21, 5]}, "ts": D + 3600},
                        {"p": [1], "t": [[5, 9, 3, 3]], "m": 0, "pins": {"lib": [10, 21, 5]}, "ts": 4 * D + D // 2}],
            "refs": [["release/5.9", 2]]}
    out.append(mk_case([{"name": "app", "deps": ["lib"], "hist": app3}, {"name": "lib", "deps": [], "hist": lib3}],
                       "corpus-backport-days-later"))
    # known finding cross_line_pin: the pin moves from release/10.20 to release/10.21, forked from it above 10.20.3 -
    # lib 10.20.2 and 10.20.3 are shipped by app 5.1.2 (git ancestors of 10.21.5) and registered nowhere
    lib4 = {"commits": [{"p": [], "t": [[10, 20, 1, 1]], "m": 1, "pins": {}}, {"p": [0], "t": [[10, 20, 2, 2]], "m": 1, "pins": {}},
                        {"p": [1], "t": [[10, 20, 3, 3]], "m": 1, "pins": {}}, {"p": [2], "t": [[10, 20, 4, 4]], "m": 1, "pins": {}},
                        {"p": [2], "t": [[10, 21, 5, 5]], "m": 1, "pins": {}}],
            "refs": [["release/10.20", 3], ["release/10.21", 4]]}
    app4 = {"commits": [{"p": [], "t": [[5, 1, 1, 1]], "m": 0, "pins": {"lib": [10, 20, 1]}},
                        {"p": [0], "t": [[5, 1, 2, 2]], "m": 0, "pins": {"lib": [10, 21, 5]}}],
            "refs": [["release/5.1", 1]]}
    out.append(mk_case([{"name": "app", "deps": ["lib"], "hist": app4}, {"name": "lib", "deps": [], "hist": lib4}],
                       "corpus-cross-line-pin"))
    # parent build numbers that go down along the history: release/5.1 starts with a build of the master job (60.2.5,
    # numbered from the VERSION file), then 5.1.1; lib 10.20.4 is pinned by nobody: the pending bump of the pseudo build
    # starts from the pin of the LAST build (10.20.3), not from the pin of the build with the greatest number
    lib5 = {"commits": [{"p": [i - 1] if i else [], "t": [[10, 20, i + 1, i + 1]], "m": 1, "pins": {}} for i in range(4)],
            "refs": [["release/10.20", 3]]}
    for first_pin, m0 in (([10, 20, 2], 0), ([10, 20, 1], 1)):
        app5 = {"commits": [{"p": [], "t": [[60, 2, 5, 5]], "m": m0, "pins": {"lib": first_pin}},
                            {"p": [0], "t": [[5, 1, 1, 1]], "m": 0, "pins": {"lib": [10, 20, 3]}}],
                "refs": [["release/5.1", 1]]}
        out.append(mk_case([{"name": "app", "deps": ["lib"], "hist": app5}, {"name": "lib", "deps": [], "hist": lib5}],
                           "corpus-parent-numbers-go-down"))
    return out


def tags(case, replies):
    yield case.get("meta", {}).get("kind", "?")
    yield "components-map-on:" + case.get("meta", {}).get("cfg", "class")
    if case["lines"][0].startswith("col"):
        rs = [dec_repo(t) for t in case["lines"][0].split()[2:]]
        if any(r.get("mode") == "saved" for r in rs):
            yield "saved-number-detector"
        nums = [x for r in rs for c in r["hist"]["commits"] for bn in c["t"] for x in bn[:3]]
        if 0 in nums:
            yield "version-component-0"
        if any(x in (9998, 9999, 10000) for x in nums):
            yield "component-9998..10000"
        if any(r.get("skipped") for r in rs):
            yield "skipped-entry-named-as-component" if any(x["name"] in r["deps"] for r in rs for x in rs if x.get("skipped")) \
                else "skipped-entry"
        rs = [r for r in rs if not r.get("skipped")]
        if not in_windows(rs):
            yield "outside-cut-off-windows(not judged)"
        elif any(max(c["ts"] for c in r["hist"]["commits"]) - min(c["ts"] for c in r["hist"]["commits"]) > G.DAY
                 for r in rs if r["hist"]["commits"]):
            yield "times-spread>1day"
        if any(numbers_not_monotone(r["hist"]) for r in rs if r["deps"]):
            yield "parent-build-numbers-not-monotone"
        byn = {r["name"]: r for r in rs}
        if any(d in byn and pin_changes_line(r, byn[d]) for r in rs for d in r["deps"]):
            yield "pin-moves-to-another-release-line"
        if cross_shape(rs):
            yield "cross-line-shape(known finding)"
        if known_pin_cross(case):
            yield "pin-crosses-parallel-builds(not judged)"
        elif known_component_merges(case):
            yield "component-with-merges(not judged)"
    rep = replies[0]
    if case["lines"][0].startswith("ord") and "@!" in case["lines"][0]:
        yield "ord-with-skipped-entry"
    if rep.startswith("err"):
        yield "reply:" + rep
    elif case["lines"][0].startswith("col"):
        if "~" in rep:
            yield "has-included-at"
        if ":M:" in rep or "=M:" in rep or ";M:" in rep:
            yield "has-pseudo-build"
        order, reports = parse_col(rep)
        if any(b[0] == "M" and b[4] for bl in reports.values() for _, bs in bl for b in bs):
            yield "has-pending-bump"
        if any(len(b[5]) > 1 for bl in reports.values() for _, bs in bl for b in bs):
            yield "included-at>1"
        if in_windows(rs):
            st = []
            check_pending(rs, reports, st)
            for t in sorted(set(st)):
                yield t


LEVEL_TEXT = ("Repository ordering is fully proved on the model the driver runs (the DFS of ReposCollection.__init__ with its "
              "path-name stack): the result is a permutation with every component before its owners (repo_order), it depends "
              "only on the set of repositories (repo_order_independent), ValueError is raised exactly for cyclic dependency "
              "graphs incl. self-dependencies (cycle_rejected) and nothing else can happen (repo_order_total). The whole "
              "multi-repository analysis is total (analysis_total): a dependency cycle's ValueError or the reports, none of the "
              "code's KeyError/AttributeError/TypeError/assertions is reachable, whatever the commit times, the pinned versions "
              "(known or not) and the build graphs are. An entry skipped by the constructor is no member of the collection (skipped_not_member restates the model's "
              "definition of the kept entries from the flag 'has a repository class', which is harness data: that the "
              "constructor skips exactly those entries rests on the tie), the saved-number builds "
              "detector makes a commit a build exactly when its number differs from every parent's (saved_detector). What the "
              "driver prints is linked to the objects of the theorems by analysis_registrations (the "
              "graphs are rgraph of each history with the plug of the components analysed before, the printed included_at "
              "entries are exactly the results of regsOfBuild); the hypotheses of the conditional theorems - all hypotheses of "
              "included_first_git_partial (PinsAt for both parent builds, hmonoC, TagsUnique, windows) as well as those of the "
              "spec-level theorems - are instantiated, with a non-empty set of registrations, on a concrete diamond scenario "
              "(examples at the end of Props/C07.lean). For included_at and bumps the clause is proved in git terms for a "
              "(parent branch, component release line) pair (included_first_git_partial), 'contains' meaning containment INSIDE "
              "that release line: a reported parent build registers a "
              "reported component build of the line exactly when the build's commit is a git ancestor of the component commit whose build "
              "tag the parent build pins, and of no component commit pinned by an eligible parent commit properly below. "
              "Hypotheses = the quantifier: every eligible parent commit pins a build tag of a commit of that component "
              "branch (with or without a reported build below it) or a version that ships no reported build at all (another "
              "release line without report-related builds, or no build tag of the component); pins never go back along "
              "ancestry (a move to another release line with reported builds is not covered: there the code falls short of "
              "the statement - a component build on another release line than the pinned commit is registered nowhere although "
              "it is a git ancestor of it; known finding cross_line_pin, judged by the oracle with git ancestry and reported as "
              "KNOWN-FINDING, every other difference in such a scenario stays a violation); component build numbers are unique; commit times inside the cut-off windows (Hist.InWindow, "
              "CompWindow — stated with the two cut-off periods the translator reads from ak/ghist.py). It rests on: the "
              "component's bn_map sends a tag to the reported build at or nearest below the tagged commit, names nothing when "
              "there is none, and containment in the component's report graph is git ancestry (Lemmas/GhistBnAll). Parent "
              "side, at specification level and for every parent history (forks, merges): a reported build registers a "
              "component build exactly when the version pinned in its commit contains it and the version pinned in no eligible "
              "commit (tagged or head, new in the branch, reported or not) properly below it does "
              "(included_first_spec_partial), such a first build is always a reported build (included_first_exists_partial, "
              "skipped_version), the bump of a reported build names what its commit's pin names, and nothing was shipped before "
              "when it names nothing (reported_bump), the parent builds recorded in a build are the nearest builds of the "
              "branch below it (parent_builds_nearest). Model level, all inputs: the registration loop records a "
              "component build at a parent build exactly when the build's new pinned version contains it and none of the "
              "versions contained in the build's parent builds does, for every shape of the component's build graph "
              "(included_first_partial, after the repair 88b742a); the stored bumps are the ones computed from the commit's pins, "
              "bn_map and the parent builds' bumps (bumps_recorded); what a parent build's version contains is not registered "
              "again at the next build (included_only_first_partial); an eligible commit that is not a reported build has only "
              "trivial bumps (bump_build_reported_partial). Pending bumps of the 'not merged' pseudo build: they are computed from the bumps of the "
              "LAST build of the branch - greatest iid, git ancestor of no other build of the branch - whatever the build "
              "numbers are, and that build is the pseudo build's only parent (pending_from_latest); each pending bump starts "
              "from the version that build pins and leads to the latest build of the component branch holding the pinned "
              "build, and exists only when that is another build (pending_bump_from_pin); non-vacuity: a branch whose first "
              "build is numbered 60.2.5 and whose last one 5.1.1 (example). The model has the commit times: the obsolete-branch test and the "
              "narrowing of the relevant components down the DFS (_get_relevant_cmpnts_names) are modelled and compared with "
              "the code inside and outside the windows. model = code is established by a differential run of the compiled "
              "model against the real ak.ghist on generated multi-repository scenarios, judged by an independent oracle "
              "(minimal own builds whose pin contains the component build by git ancestry, across release lines too; pending "
              "bump of a branch with one last reported build: starts from that build's pin, exists exactly when the last "
              "build of the component's line is not contained in it, leads to it).")
LEVEL_NOTE = ("Found and repaired while building this check: get_rbuilds_in_bump re-registered component builds contained in "
              "a previous version when the component history has a diamond of reported builds (fix 88b742a; witness in corpus(), "
              "pre-fix tree is caught with a concrete history). Quantifier reading agreed with the coordinator: 'the pinned "
              "version never decreases along a path' = the newly pinned component build contains the previously pinned one; "
              "scenarios with incomparable consecutive pins (tag 'pin-crosses-parallel-builds') are compared with the model but "
              "not judged. Why theorems keep the _partial suffix: parent branches whose pins move from one component release line "
              "with reported builds to another one are not covered by the git-level theorem (the code links component builds "
              "inside one release line only: such a parent build registers the builds of the new line and none of the old "
              "line's builds that the new version contains by git ancestry - by the letter of the statement a violation, "
              "recorded as known finding cross_line_pin (witness in corpus()); the oracle judges every scenario whose pins are "
              "contained in one another by git ancestry, whatever lines they lie on, and the matcher KNOWN['cross_line_pin'] "
              "accepts a case only when its sole failure is a missing entry for a build on another release line than the "
              "pinned commit); the spec-level theorems read 'never decreases' as containment in the component's report graph, "
              "which excludes such moves too. Round 8: the pending bumps of the pseudo build are judged (seed C07-m20: the "
              "build with the greatest NUMBER taken for the last one) on parents whose build numbers go down or jump; "
              "reductions of a failing case stay inside the generators' space (a pinned build stays reachable from a release "
              "line, saved-number heads stay builds) and keep the kind of failure. Trusted: Lean kernel, translator (constants incl. the two cut-off periods), adapter, mock "
              "git, sampled correspondence (2-3 repositories, linear and DAG-shaped components and parents, 1-3 component release "
              "lines incl. forked ones, parent build numbers in any order, commits with two build tags, early pins of versions that are no build tag, commit times inside the "
              "windows (spread up to 29 days per repository) and 10% anywhere, both supply orders; dependency graphs over <=6 "
              "repositories). Tag names are parsed by the model (see C06.tag_*). Not modelled: repository names (ranks in "
              "sorted() order).")
TECHNIQUE = ("Lean 4: DFS invariant (topological order, path stack) for the repository ordering; closure/DFS specifications for "
             "get_rbuilds_in_bump, invariants carried through the commit DFS for the stored bumps and skipped eligible commits; "
             "executable model of bumps / bn_map / included_at + correspondence and spec oracle on multi-repository scenarios")
