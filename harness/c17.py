"""C17 — layered HTTP connections compose adapters without side effects
(ak/conn_http.py, ak/mcaller_http.py).

Protocol (one operation per line; names are small integers chosen by the generator; strings travel as
comma separated code points, `-` = empty):

  list  L <adapters>                    L = [a1, a2, ...]            (a list object of the caller)
  lappend L <adapter>                   L.append(a)
  dict  D <k=v;k=v|->                   D = {k: v, ...}              (a str -> str dict object of the caller)
  data  O <json value>                  O = a structured data= object of the caller (dict, list, number, bool, None)
  pairs P <d|l|t> <k=val;..|->          P = a params object: dict | list of (k, v) pairs | tuple of pairs; a key may
                                        repeat in a sequence; val = s<str> | i<int> | T | F | N
  class K <mro> <bases|-> <pmap|~> <wrappers|->
                                        class K(bases or MCallerHttp): [_HTTP_PREFIX_MAP = pmap]; wrappers
                                        name=<comps>/name=<comps>=<inner>/name=<comps>=<inner>=<flags>…, comps = n | e |
                                        comp+comp…; a wrapper with <inner> is `def name(self, …): return self.<inner>(…)`;
                                        with `*` for <inner> the body reaches get_conn() through a helper method shared by
                                        all such wrappers; `.` = no inner; every other wrapper is
                                        `@method_http(None, comps) def name(self, …): self.get_conn().<verb>(path + "~<k>", …)`
                                        with k = number of the class (order of creation); mro = K.__mro__ as Python
                                        computes it (names, K first). flags (how the body is written / when it runs):
                                        g = a generator function (`yield <what the body computes>`), y = a generator
                                        function that delegates to a helper generator (`yield from self._gen_conn(…)`,
                                        only without <inner>), a = a coroutine function (`async def`): the body runs when
                                        the returned object is driven, by whoever drives it; d = the body drives the object
                                        `self.<inner>(…)` returns itself (`_drive(self.<inner>(…))`) instead of handing it
                                        on. The result of every `call` is driven to its value by the harness (plain code).
  mk    C <target> <own> <cls>          C = cls(target[, adapters=own | credentials])
  add   C <adapter>                     C.add_adapter(a)
  caller K <target> <class>             K = <class>(target)
  clone K2 K <own>                      K2 = K.clone(own)
  connof C K                            C = K.http_conn
  cached C K <prefix>                   C = the connection K's get_conn() made for that prefix
  call  K <method> <verb> <path> <params> <body> <headers> <response> <raw>
                                        K.<method>(…): the wrapper body Python's MRO selects does
                                        self.get_conn().<verb>(path + "~k", params=, data=, headers=[, raw_response=True])
  req   C <verb> <path> <params> <body> <headers> <response> <raw>

  adapter : p/<prefix> | b/<login>/<password> | c/<client id>/<secret> | t/<token>      (the repository's)
            x/<tag>   tracing adapter: appends the tag to the X-Trace header and to the returned value
            u/<key>   process_response: rv[key] if rv is a dict with that key     k   len(rv) of list/str/dict
            f         [x for x in rv if x] of a list          z   rv if rv else None
            e/q | e/r raises ValueError in process_req_args | in process_response
            adapters that REBIND a field of req_args to a new object (never touch the caller's):
            q/<k>/<v> req_args.params = list(pairs of req_args.params) + [(k, v)]
            w/<key>   req_args.data = {key: req_args.data} for a structured body
            X/<tag>   as x/<tag>, but req_args.headers is first rebound to a new dict
            N/<C>/<f|a>/<q|r>/<id>  sends a request of its own, C.get("/nested"), from process_req_args (q) or
                      process_response (r), on first use only (f) or every time (a); id = the adapter object
  adapters: adapter;adapter;... | -
  target  : c=<C> | s=<address> (str) | a=<address>=<0|1> ([address, send_request_ids]) | d=<address>=<0|1> (dict)
  own     : n | o=<adapter> | l=<L>
  cls     : H (HttpConn) | B | C | T (BAuthConn / ClientAuthConn / TokenAuthConn; own = o=<b|c|t adapter>)
  verb    : get|post|put|delete|patch | raw=<method>|raw=n (conn_impl.do_request(conn.adapters, path, method, …))
  params  : n | <D> | <P>               headers: n | <D>
  body    : n | b=<bytes> | s=<str> | j=<O>                   (O: a structured object of the caller, dumped by json.dumps)
  response: E (empty body) | <json value>                     (body of the fake response, json.dumps of the value)
  raw     : 0 | 1                                             (raw_response=True: processors get the response object)
  json value: tokens joined by `|`: N T F I<int> S<str> A<n> (n values follow) O<n> (n times K<key>, value); R = the
              response object (only in replies)

  debuglog                              logging.getLogger('ak.conn_http') at DEBUG (NullHandler) until the end of the history
  lastid                                diagnostic (not part of the verdict): facts of the last request that belong to
                                        C16 or that the property does not spell out:
                                        `id=<number taken from the connection's counter|n> h=<g (generated)|s<value>|absent>
                                        u=<the url character by character>`

Reply of req/call: ok u=<url> m=<method> h=<name>:<s|b><value>;… (Request.headers without the request-id header,
sorted by name; the url with runs of '/' after the scheme collapsed) d=<body bytes|n> r=<returned json value> same=<1 iff every dict/list/data object of the caller is
unchanged>. Exceptions: `err <ClassName> n=<number of
Requests handed to the opener before the exception>`. Other operations reply `ok` / `err <ClassName>`.
"""
import ast
import base64
import copy
import json
import os
import re
from unittest.mock import patch
from urllib.parse import urlencode

from harness.core import enc_str, dec_str

PROPERTY = "C17"
STATEFUL = True
READY = True


VERBS = ("get", "post", "put", "delete", "patch")


# ------------------------------------------------------------------ translator
def _const(node):
    if isinstance(node, ast.Constant) and isinstance(node.value, (str, bytes)):
        v = node.value
        return v.decode("ascii") if isinstance(v, bytes) else v
    raise ValueError("expected a string/bytes literal at line %s" % getattr(node, "lineno", "?"))


def _find_class(body, name):
    for n in body:
        if isinstance(n, ast.ClassDef) and n.name == name:
            return n
    raise ValueError("class %s not found" % name)


def _find_func(body, name):
    for n in body:
        if isinstance(n, ast.FunctionDef) and n.name == name:
            return n
    raise ValueError("function %s not found" % name)


def _auth_adapter_consts(tree, cls):
    """(header name asserted absent, header name written, literal prefix of the value, credential separator)"""
    ad = _find_class(_find_class(tree.body, cls).body, "Adapter")
    proc = _find_func(ad.body, "process_req_args")
    asserted = written = None
    for n in ast.walk(proc):
        if isinstance(n, ast.Assert) and isinstance(n.test, ast.Compare) and isinstance(n.test.ops[0], ast.NotIn):
            asserted = _const(n.test.left)
        if isinstance(n, ast.Assign) and isinstance(n.targets[0], ast.Subscript):
            written = _const(n.targets[0].slice)
    init = _find_func(ad.body, "__init__")
    prefix = sep = None
    for n in ast.walk(init):
        if isinstance(n, ast.BinOp) and isinstance(n.op, ast.Add) and isinstance(n.left, ast.Constant) \
                and isinstance(n.left.value, bytes):
            prefix = _const(n.left)
            for m in ast.walk(n.right):
                if isinstance(m, ast.JoinedStr):
                    lits = [_const(v) for v in m.values if isinstance(v, ast.Constant)]
                    if len(lits) == 1 and len(m.values) == 3:
                        sep = lits[0]
        if isinstance(n, ast.Assign) and isinstance(n.value, ast.JoinedStr) and prefix is None \
                and isinstance(n.value.values[0], ast.Constant) and len(n.value.values) == 2:
            prefix = _const(n.value.values[0])
    if asserted is None or written is None or prefix is None:
        raise ValueError("%s.Adapter no longer has the expected shape" % cls)
    return asserted, written, prefix, sep


def _lean_str(s):
    if not all(32 <= ord(c) < 127 and c not in '"\\' for c in s):
        raise ValueError("literal %r is not plain printable ASCII" % s)
    return '"%s".toList' % s


def translate(repo):
    src = open(os.path.join(repo, "ak", "conn_http.py")).read()
    tree = ast.parse(src)
    b = _auth_adapter_consts(tree, "BAuthConn")
    c = _auth_adapter_consts(tree, "ClientAuthConn")
    t = _auth_adapter_consts(tree, "TokenAuthConn")
    names = {b[0], b[1], c[0], c[1], t[0], t[1]}
    if len(names) != 1:
        raise ValueError("auth adapters test / write different header names: %s" % sorted(names))
    if b[3] is None or b[3] != c[3]:
        raise ValueError("credential separator of the basic/client adapters not found")
    do = _find_func(_find_class(tree.body, "_HttpConnImpl").body, "do_request")
    id_header = id_lower = ct_header = ct_value = post = get = None
    for n in ast.walk(do):
        if isinstance(n, ast.Assign) and isinstance(n.targets[0], ast.Subscript):
            is_id = isinstance(n.value, ast.Call) and isinstance(n.value.func, ast.Attribute) \
                and n.value.func.attr == "_generate_request_id"
            if is_id:
                # where and when the id is put into the headers is C16's business: only the literal is taken
                try:
                    id_header = _const(n.targets[0].slice)
                except ValueError:
                    pass
            elif isinstance(n.targets[0].value, ast.Name) and n.targets[0].value.id == "headers":
                ct_header, ct_value = _const(n.targets[0].slice), _const(n.value)
        if isinstance(n, ast.Compare) and isinstance(n.ops[0], ast.Eq) and isinstance(n.left, ast.Call) \
                and isinstance(n.left.func, ast.Attribute) and n.left.func.attr == "lower" \
                and isinstance(n.comparators[0], ast.Constant):
            id_lower = _const(n.comparators[0])
        if isinstance(n, ast.IfExp) and isinstance(n.body, ast.Constant) and isinstance(n.orelse, ast.Constant):
            post, get = _const(n.body), _const(n.orelse)
    for n in ast.walk(do):
        if isinstance(n, ast.Compare) and isinstance(n.ops[0], ast.NotIn) and isinstance(n.left, ast.Constant):
            if _const(n.left) not in (ct_header, id_header):
                raise ValueError("a header test of do_request uses a name that is assigned nowhere")
    if None in (ct_header, ct_value, post, get):
        raise ValueError("do_request no longer has the expected shape")
    # the request-id literals (C16): taken from the source when it shows them, else the documented ones
    id_header = id_header or "X-Request-ID"
    id_lower = id_lower or id_header.lower()
    # the two aliasing facts the heap model builds in (Model/HttpConn.lean: `request` allocates a new dict for
    # RequestArguments.headers, `mkConn` allocates a new adapter list): read from the source on every run
    ra_init = _find_func(_find_class(tree.body, "RequestArguments").body, "__init__")
    headers_fresh = False
    for n in ast.walk(ra_init):
        if isinstance(n, ast.Assign) and isinstance(n.targets[0], ast.Attribute) and n.targets[0].attr == "headers":
            v = n.value
            headers_fresh = (isinstance(v, ast.IfExp) and isinstance(v.body, ast.Call)
                             and isinstance(v.body.func, ast.Attribute) and v.body.func.attr == "copy"
                             and isinstance(v.body.func.value, ast.Name) and v.body.func.value.id == "headers"
                             and not v.body.args and isinstance(v.orelse, ast.Dict) and not v.orelse.keys)
    base_init = _find_func(_find_class(tree.body, "_HttpConnBase").body, "__init__")
    assigns = [n for n in ast.walk(base_init)
               if isinstance(n, (ast.Assign, ast.AugAssign))
               and isinstance((n.targets[0] if isinstance(n, ast.Assign) else n.target), ast.Attribute)
               and (n.targets[0] if isinstance(n, ast.Assign) else n.target).attr == "adapters"]
    adapters_fresh = (len(assigns) == 1 and isinstance(assigns[0], ast.Assign)
                      and isinstance(assigns[0].value, ast.BinOp) and isinstance(assigns[0].value.op, ast.Add))
    flags = "\ndef headersFresh : Bool := %s\ndef adaptersFresh : Bool := %s" % (
        "true" if headers_fresh else "false", "true" if adapters_fresh else "false")
    body = "\n".join("def %s : List Char := %s" % (k, _lean_str(v)) for k, v in [
        ("authHeader", b[0]), ("basicPrefix", b[2]), ("clientPrefix", c[2]), ("bearerPrefix", t[2]),
        ("idHeader", id_header), ("idHeaderLower", id_lower), ("ctHeader", ct_header), ("ctValue", ct_value),
        ("postMethod", post), ("getMethod", get), ("credSep", b[3])])
    return {"AkVerif/Gen/C17.lean":
            "-- GENERATED by harness/c17.py:translate from /repo/ak/conn_http.py -- do not edit\n"
            "namespace Gen.C17\n" + body + flags + "\nend Gen.C17\n"}


# ------------------------------------------------------------------ real code
def _mods():
    from ak import conn_http, mcaller_http
    return conn_http, mcaller_http


_TRACE = {}


def _adapter_classes():
    """harness adapters built on the repository's RequestAdapter: a tracing one (order of application visible in
    the request and in the result) and response processors with real transformations"""
    ch, _ = _mods()
    if "cls" not in _TRACE:
        class Trace(ch.RequestAdapter):
            def __init__(self, tag):
                self.tag = tag

            def process_req_args(self, req_args):
                req_args.headers["X-Trace"] = req_args.headers.get("X-Trace", "") + self.tag

            def process_response(self, return_value):
                if isinstance(return_value, list):
                    return return_value + [self.tag]
                return [return_value, self.tag]

        class Unwrap(ch.RequestAdapter):
            def __init__(self, key):
                self.key = key

            def process_response(self, return_value):
                if isinstance(return_value, dict) and self.key in return_value:
                    return return_value[self.key]
                return return_value

        class Count(ch.RequestAdapter):
            def process_response(self, return_value):
                return len(return_value) if isinstance(return_value, (list, str, dict)) else return_value

        class Compact(ch.RequestAdapter):
            def process_response(self, return_value):
                return [x for x in return_value if x] if isinstance(return_value, list) else return_value

        class Nullify(ch.RequestAdapter):
            def process_response(self, return_value):
                return return_value if return_value else None

        class Boom(ch.RequestAdapter):
            def __init__(self, on_request):
                self.on_request = on_request

            def process_req_args(self, req_args):
                if self.on_request:
                    raise ValueError("adapter refuses the request")

            def process_response(self, return_value):
                if not self.on_request:
                    raise ValueError("adapter refuses the response")
                return return_value
        class TraceRebind(Trace):
            """the same tracing, but `req_args.headers` is rebound to a new dict first (not mutated)"""

            def process_req_args(self, req_args):
                req_args.headers = dict(req_args.headers)
                Trace.process_req_args(self, req_args)

        class AddParam(ch.RequestAdapter):
            """adds a query parameter; rebinds `req_args.params` (the caller's object is never touched)"""

            def __init__(self, key, value):
                self.key, self.value = key, value

            def process_req_args(self, req_args):
                cur = req_args.params
                items = list(cur.items()) if isinstance(cur, dict) else list(cur or [])
                req_args.params = items + [(self.key, self.value)]

        class WrapData(ch.RequestAdapter):
            """wraps a structured body into an envelope; rebinds `req_args.data`"""

            def __init__(self, key):
                self.key = key

            def process_req_args(self, req_args):
                d = req_args.data
                if d is not None and not isinstance(d, (bytes, str)):
                    req_args.data = {self.key: d}
        class Nested(ch.RequestAdapter):
            """sends a request of its own (`target.get("/nested")`, result unused) from process_req_args or from
            process_response, every time or on first use only - like an adapter that fetches its token"""

            def __init__(self, target, first_only, on_request, env):
                self.target, self.first_only, self.on_request, self.env, self.done = target, first_only, on_request, env, False

            def fire(self):
                if self.first_only and self.done:
                    return
                self.done = True
                n0 = len(self.env.captured)
                try:
                    self.target.get("/nested")
                finally:
                    self.env.inner.extend(self.env.captured[n0:])

            def process_req_args(self, req_args):
                if self.on_request:
                    self.fire()

            def process_response(self, return_value):
                if not self.on_request:
                    self.fire()
                return return_value
        _TRACE["cls"] = {"x": Trace, "u": Unwrap, "k": Count, "f": Compact, "z": Nullify, "e": Boom,
                         "X": TraceRebind, "q": AddParam, "w": WrapData, "N": Nested}
    return _TRACE["cls"]


class _FakeResponse:
    def __init__(self, method, data=b""):
        self.data, self._method, self.code = data, method, 200

    def __enter__(self):
        return self

    def __exit__(self, *a):
        pass

    def read(self):
        return self.data

    def getheaders(self):
        return {}


def parse_adapter(tok):
    """-> descriptor tuple"""
    f = tok.split("/")
    if f[0] == "p" and len(f) == 2:
        return ("p", dec_str(f[1]))
    if f[0] in ("b", "c") and len(f) == 3:
        return (f[0], dec_str(f[1]), dec_str(f[2]))
    if f[0] in ("t", "x", "u", "w") and len(f) == 2:
        return (f[0], dec_str(f[1]))
    if f[0] == "X" and len(f) == 2:
        return ("x", dec_str(f[1]), "rebind")        # for the oracle the same adapter as x
    if f[0] == "q" and len(f) == 3:
        return ("q", dec_str(f[1]), dec_str(f[2]))
    if f[0] == "N" and len(f) == 5:
        return ("N", int(f[1]), f[2], f[3], int(f[4]))      # target connection, f|a, q|r, object id
    if f[0] in ("k", "f", "z") and len(f) == 1:
        return (f[0],)
    if f[0] == "e" and len(f) == 2 and f[1] in ("q", "r"):
        return ("e", f[1])
    raise ValueError("bad adapter " + tok)


class RawMark:
    """stands for the response object in the oracle's computation (raw_response=True)"""


# JSON values on the wire (R = the response object itself, only in replies): tokens joined by '|': N T F I<int> S<cps> A<n> (n values) O<n> (n times K<cps>, value)
def enc_json(v):
    out = []

    def go(x):
        if isinstance(x, (_FakeResponse, RawMark)):
            out.append("R")
        elif x is None:
            out.append("N")
        elif x is True:
            out.append("T")
        elif x is False:
            out.append("F")
        elif isinstance(x, int):
            out.append("I%d" % x)
        elif isinstance(x, str):
            out.append("S" + enc_str(x))
        elif isinstance(x, list):
            out.append("A%d" % len(x))
            for y in x:
                go(y)
        elif isinstance(x, dict):
            out.append("O%d" % len(x))
            for k, y in x.items():
                out.append("K" + enc_str(k))
                go(y)
        else:
            raise ValueError("not a json value of the protocol: %r" % (x,))
    go(v)
    return "|".join(out)


def dec_json(tok):
    ts = tok.split("|")
    pos = [0]

    def go():
        t = ts[pos[0]]
        pos[0] += 1
        if t == "N":
            return None
        if t == "T":
            return True
        if t == "F":
            return False
        if t[0] == "I":
            return int(t[1:])
        if t[0] == "S":
            return dec_str(t[1:])
        if t[0] == "A":
            return [go() for _ in range(int(t[1:]))]
        if t[0] == "O":
            d = {}
            for _ in range(int(t[1:])):
                k = ts[pos[0]]
                pos[0] += 1
                d[dec_str(k[1:])] = go()
            return d
        raise ValueError("bad json token " + t)
    v = go()
    if pos[0] != len(ts):
        raise ValueError("trailing json tokens")
    return v


def parse_adapters(tok):
    return [] if tok == "-" else [parse_adapter(t) for t in tok.split(";")]


def parse_pairs(tok):
    if tok == "-":
        return {}
    d = {}
    for kv in tok.split(";"):
        k, v = kv.split("=")
        d[dec_str(k)] = dec_str(v)
    return d


def parse_val(tok):
    if tok in ("T", "F", "N"):
        return {"T": True, "F": False, "N": None}[tok]
    return dec_str(tok[1:]) if tok[0] == "s" else int(tok[1:])


def parse_typed_pairs(kind, tok):
    """a params object: kind d = dict, l = list of pairs, t = tuple of pairs; values s<str> i<int> T F N"""
    items = [] if tok == "-" else [(dec_str(kv.split("=")[0]), parse_val(kv.split("=")[1])) for kv in tok.split(";")]
    return dict(items) if kind == "d" else (items if kind == "l" else tuple(items))


def parse_comps_tok(tok):
    if tok == "n":
        return None
    if tok == "e":
        return []
    return [dec_str(c) for c in tok.split("+")]


def parse_wrappers(tok):
    """[(method name, components, inner, flags)]: inner = name of the wrapper the body calls instead of making the
    request itself, `*` (shared helper) or None; flags: see the protocol (g / y / a: the body runs when the returned
    object is driven; d: the body drives the inner wrapper's result itself)"""
    if tok == "-":
        return []
    out = []
    for w in tok.split("/"):
        f = w.split("=")
        inner = None if len(f) < 3 or f[2] == "." else ("*" if f[2] == "*" else dec_str(f[2]))
        flags = f[3] if len(f) > 3 else ""
        if len(f) > 4 or set(flags) - set("gyad") or ("y" in flags and inner is not None):
            raise ValueError("bad wrapper " + w)
        out.append((dec_str(f[0]), parse_comps_tok(f[1]), inner, flags))
    return out


def parse_body(tok, objs=None):
    f = tok.split("=")
    if f[0] == "n":
        return None
    if f[0] == "b":
        return bytes(int(x) for x in f[1].split(",")) if f[1] != "-" else b""
    if f[0] == "s":
        return dec_str(f[1])
    if f[0] == "j":
        return objs[int(f[1])]       # a structured object of the caller, by name
    raise ValueError("bad body " + tok)


def parse_comps(tok):
    if tok == "n":
        return None
    if tok == "e":
        return []
    return [dec_str(c) for c in tok.split(";")]


def make_adapter(d, env=None):
    ch, _ = _mods()
    if d[0] == "N":
        return _adapter_classes()["N"](env.conns[d[1]], d[2] == "f", d[3] == "q", env)
    if d[0] == "p":
        return ch.RequestAdapterAddPathPrefix(d[1])
    if d[0] == "b":
        return ch.BAuthConn.Adapter(d[1], d[2])
    if d[0] == "c":
        return ch.ClientAuthConn.Adapter("client-name", d[1], d[2])
    if d[0] == "t":
        return ch.TokenAuthConn.Adapter(d[1])
    cls = _adapter_classes()[d[0]]
    if d[0] == "x" and len(d) == 3:
        return _adapter_classes()["X"](d[1])
    if d[0] == "q":
        return cls(d[1], d[2])
    if d[0] in ("x", "u", "w"):
        return cls(d[1])
    if d[0] == "e":
        return cls(d[1] == "q")
    return cls()


def enc_snapshot(values):
    """type-exact rendering of data objects (True is not 1, key order counts)"""
    out = []
    for v in values:
        try:
            out.append(enc_json(v) if not isinstance(v, (bytes, str)) or v is None else repr(v))
        except ValueError:
            out.append(repr(v))
    return out


def _shared_conn(self):
    """one function (one code object) through which wrappers of different components reach get_conn()"""
    return self.get_conn()


def _gen_conn(self, fn, suffix):
    """one helper generator to which generator wrappers of different components delegate (`yield from`)"""
    yield fn(self.get_conn(), suffix)


def _drive(x):
    """what consuming code does with the result of a wrapper: a generator is advanced to its first value, a coroutine is
    run to its result (both as often as the value is such an object again); anything else is the value"""
    import inspect
    while True:
        if inspect.isgenerator(x):
            g = x
            try:
                x = next(g)
            finally:
                g.close()
        elif inspect.iscoroutine(x):
            c = x
            try:
                c.send(None)
            except StopIteration as stop:
                x = stop.value
            else:
                c.close()
                raise RuntimeError("coroutine wrapper awaits something")
        else:
            return x


def wrapper_source(m, idx, inner, flags):
    """source of the wrapper body `m` of class number idx (see the protocol)"""
    if inner is None and "y" in flags:
        value = None
    elif inner is None:
        value = "fn(self.get_conn(), '~%d')" % idx
    elif inner == "*":
        value = "fn(self._shared_conn(), '~%d')" % idx
    else:
        value = "self.%s(fn)" % inner
        if "d" in flags:
            value = "_drive(%s)" % value
    if "y" in flags:
        stmt, head = "yield from self._gen_conn(fn, '~%d')" % idx, "def"
    elif "g" in flags:
        stmt, head = "yield " + value, "def"
    elif "a" in flags:
        stmt, head = "return " + value, "async def"
    else:
        stmt, head = "return " + value, "def"
    return "%s %s(self, fn):\n    'http wrapper'\n    %s\n" % (head, m, stmt)


class _BadOp(Exception):
    """a line names an object the history has not made (the driver answers `bad-op` too)"""


class _Names(dict):
    def __missing__(self, key):
        raise _BadOp(key)


class Env:
    """executes protocol lines on the real classes"""

    def __init__(self, lines):
        self.lists, self.dicts, self.conns, self.callers = _Names(), _Names(), _Names(), _Names()
        self.pairs = _Names()     # params objects: dicts with non-str values, lists / tuples of pairs
        self.datas = _Names()     # structured data= objects (dicts, lists, numbers ...)
        self.captured = []
        self.inner = []           # requests sent by nesting adapters (while an outer request is processed)
        self.response = [b""]     # body of the next fake response
        self.last_id = "none"
        self.classes = _Names()   # name -> class
        self.class_order = []     # names in the order of creation (the model's class references)

    # -- helpers
    def debug_logging(self, on):
        """the package's logger at DEBUG (records go nowhere): what is logged must not change what is sent"""
        import logging
        lg = logging.getLogger("ak.conn_http")
        if on:
            self.saved_logging = (lg.level, lg.propagate, list(lg.handlers))
            lg.handlers[:] = [logging.NullHandler()]
            lg.propagate = False
            lg.setLevel(logging.DEBUG)
        elif getattr(self, "saved_logging", None) is not None:
            lg.setLevel(self.saved_logging[0])
            lg.propagate = self.saved_logging[1]
            lg.handlers[:] = self.saved_logging[2]
            self.saved_logging = None

    def make_class(self, name, bases_tok, pmap_tok, wrappers_tok):
        """a subclass of MCallerHttp (or of earlier such classes) with wrappers `def m(self, fn)` declared with
        method_http(None, comps); a body calls fn(self.get_conn(), "~<number of its class>")"""
        _, mh = _mods()
        bases = tuple(self.classes[int(b)] for b in bases_tok.split(";")) if bases_tok != "-" else (mh.MCallerHttp,)
        body = {}
        if pmap_tok != "~":
            body["_HTTP_PREFIX_MAP"] = parse_pairs(pmap_tok)
        idx = len(self.class_order)
        for m, comps, inner, flags in parse_wrappers(wrappers_tok):
            ns = {"_drive": _drive}
            exec(wrapper_source(m, idx, inner, flags), ns)
            if inner == "*":    # get_conn() is reached through a helper method shared by all such wrappers
                body["_shared_conn"] = _shared_conn
            if "y" in flags:    # ... through a helper generator shared by all such wrappers
                body["_gen_conn"] = _gen_conn
            body[m] = mh.method_http(None, comps)(ns[m])
        cls = type(mh.MCallerHttp)("Caller%d" % idx, bases, body)
        self.classes[name] = cls
        self.class_order.append(name)

    def params(self, tok):
        if tok == "n":
            return None
        n = int(tok)
        return self.dicts[n] if n in self.dicts else self.pairs[n]

    def target(self, tok):
        f = tok.split("=")
        if f[0] == "c":
            return self.conns[int(f[1])]
        if f[0] == "s":
            return dec_str(f[1])
        if f[0] == "d":
            return {"address": dec_str(f[1]), "_send_request_ids": f[2] == "1"}
        return [dec_str(f[1]), f[2] == "1"]

    def own(self, tok):
        """-> (kind, value)"""
        f = tok.split("=")
        if f[0] == "n":
            return ("n", None)
        if f[0] == "o":
            return ("o", make_adapter(parse_adapter(f[1]), self))
        return ("l", self.lists[int(f[1])])

    def snapshot(self, data=None):
        data = [data] + [v for _, v in sorted(self.datas.items())]     # every structured object, not only this one
        return ([(k, dict(d)) for k, d in sorted(self.dicts.items())] +
                [(k, (type(p).__name__, list(p.items()) if isinstance(p, dict) else list(p)))
                 for k, p in sorted(self.pairs.items())],
                [(k, list(l)) for k, l in sorted(self.lists.items())],
                copy.deepcopy(data))

    def unchanged(self, snap, data):
        now = self.snapshot(data)
        if now[0] != snap[0] or enc_snapshot(now[2]) != enc_snapshot(snap[2]):
            return False
        if len(now[1]) != len(snap[1]):
            return False
        for (k1, l1), (k2, l2) in zip(now[1], snap[1]):
            if k1 != k2 or len(l1) != len(l2) or any(a is not b for a, b in zip(l1, l2)):
                return False
        return True

    def do_verb(self, conn, verb, path, params, data, headers, raw, suffix=""):
        path = path + suffix
        if verb.startswith("raw="):
            m = verb[4:]
            method = None if m == "n" else dec_str(m)
            return conn.conn_impl.do_request(conn.adapters, path, method, params, data, headers, raw)
        if raw:
            return getattr(conn, verb)(path, params=params, data=data, headers=headers, raw_response=True)
        return getattr(conn, verb)(path, params=params, data=data, headers=headers)

    def send(self, runner, f):
        """f = [verb, path, params, body, headers, response, raw]; runner(fn) calls fn(conn)"""
        verb, path = f[0], dec_str(f[1])
        params = self.params(f[2])
        data = parse_body(f[3], self.datas)
        headers = None if f[4] == "n" else self.dicts[int(f[4])]
        self.response[0] = b"" if f[5] == "E" else json.dumps(dec_json(f[5])).encode("utf-8")
        snap = self.snapshot(data)
        n0 = len(self.captured)
        try:
            # the result of a generator / coroutine wrapper is consumed here, by plain code (no wrapper on the stack)
            rv = _drive(runner(lambda conn, suffix="": self.do_verb(conn, verb, path, params, data, headers, f[6] == "1", suffix)))
        except Exception as e:
            reqs = self.captured[n0:]
            outer = [q for q in reqs if not any(q is i for i in self.inner)]
            self.last_id = id_info(outer[0], headers) if len(outer) == 1 else "none"
            del self.captured[n0:]
            del self.inner[:]
            return "err %s n=%d" % (type(e).__name__, len(reqs)) + ("" if self.unchanged(snap, data) else " same=0")
        reqs = self.captured[n0:]
        outer = [q for q in reqs if not any(q is i for i in self.inner)]
        nested = [q for q in reqs if any(q is i for i in self.inner)]
        del self.captured[n0:]
        del self.inner[:]
        if len(outer) != 1:
            return "err %d-requests-sent" % len(outer)
        self.last_id = id_info(outer[0], headers)
        return show_request(outer[0], headers, rv, self.unchanged(snap, data), nested)

    # -- one line
    def exec(self, line):
        f = line.split()
        op = f[0]
        ch, mh = _mods()
        if op == "lastid":
            return self.last_id
        if op == "debuglog":
            self.debug_logging(True)
            return "ok"
        if op == "list":
            self.lists[int(f[1])] = [make_adapter(d, self) for d in parse_adapters(f[2])]
        elif op == "lappend":
            self.lists[int(f[1])].append(make_adapter(parse_adapter(f[2]), self))
        elif op == "dict":
            self.dicts[int(f[1])] = parse_pairs(f[2])
        elif op == "pairs":
            self.pairs[int(f[1])] = parse_typed_pairs(f[2], f[3])
        elif op == "data":
            self.datas[int(f[1])] = dec_json(f[2])
        elif op == "class":
            self.make_class(int(f[1]), f[3], f[4], f[5])
        elif op == "mk":
            t, (kind, val), cls = self.target(f[2]), self.own(f[3]), f[4]
            if cls == "H":
                c = ch.HttpConn(t) if kind == "n" else ch.HttpConn(t, adapters=val)
            else:
                d = parse_adapter(f[3].split("=")[1])
                if cls == "B":
                    c = ch.BAuthConn(t, d[1], d[2])
                elif cls == "C":
                    c = ch.ClientAuthConn(t, "client-name", d[1], d[2])
                else:
                    c = ch.TokenAuthConn(t, d[1])
            self.conns[int(f[1])] = c
        elif op == "add":
            self.conns[int(f[1])].add_adapter(make_adapter(parse_adapter(f[2]), self))
        elif op == "caller":
            self.callers[int(f[1])] = self.classes[int(f[3])](self.target(f[2]))
        elif op == "clone":
            kind, val = self.own(f[3])
            k = self.callers[int(f[2])]
            self.callers[int(f[1])] = k.clone() if kind == "n" else k.clone(val)
        elif op == "connof":
            self.conns[int(f[1])] = self.callers[int(f[2])].http_conn
        elif op == "cached":
            self.conns[int(f[1])] = self.callers[int(f[2])]._mc_conns_by_prefix[dec_str(f[3])]
        elif op == "call":
            k = self.callers[int(f[1])]
            return self.send(getattr(k, dec_str(f[2])), f[3:])
        elif op == "req":
            c = self.conns[int(f[1])]
            return self.send(lambda fn: fn(c), f[2:])
        else:
            return "bad-op"
        return "ok"


def id_info(req, caller_headers):
    """diagnostic facts of a Request: the number taken from the id counter, the id header (C16's business), and the
    url character by character (the observable line has it with runs of '/' collapsed)"""
    supplied = any(k.lower() == "x-request-id" for k in (caller_headers or {}))
    out = "id=n h=absent"
    for k, v in req.headers.items():
        if k.lower() == "x-request-id":
            out = "id=n h=" + ("b" + enc_str(v.decode("latin-1")) if isinstance(v, bytes) else "s" + enc_str(str(v)))
            if not supplied:
                m = re.fullmatch(r"[0-9a-f]{4}(\d{4})-0000-0000-0000-(\d{12})", v if isinstance(v, str) else "")
                if m:
                    out = "id=%d h=g" % int(m.group(2))
    return out + " u=" + enc_str(req.full_url)


def show_request(req, caller_headers, rv, same, nested=()):
    hs = []
    for k in sorted(req.headers):
        v = req.headers[k]
        if k.lower() == "x-request-id":
            continue          # answered by the diagnostic `lastid` line
        if isinstance(v, bytes):
            hs.append(enc_str(k) + ":b" + enc_str(v.decode("latin-1")))
        elif v is None or isinstance(v, (bool, int)):
            hs.append(enc_str(k) + ":" + enc_val(v))
        else:
            hs.append(enc_str(k) + ":s" + enc_str(str(v)))
    d = req.data
    if d is None:
        ds = "n"
    else:
        ds = ",".join(str(x) for x in d) if d else "-"
    try:
        rs = enc_json(rv)
    except ValueError:
        rs = "?" + type(rv).__name__
    return "ok u=%s m=%s h=%s d=%s r=%s nested=%s same=%d" % (
        enc_str(canon_url(req.full_url)), enc_str(req.get_method()), ";".join(hs) if hs else "-", ds, rs,
        ";".join(enc_str(canon_url(q.full_url)) for q in nested) if nested else "-", 1 if same else 0)


class _Patched:
    """urllib's opener captured (observe_at), and the (irrelevant, slow) loading of CA files skipped"""

    def __init__(self, sink, response=None):
        def opener(_self, request, *a, **k):
            sink.append(request)
            return _FakeResponse(request.get_method(), response[0] if response else b"")
        self.ps = [patch("urllib.request.OpenerDirector.open", opener),
                   patch("ssl.SSLContext.load_default_certs", lambda *a, **k: None)]

    def __enter__(self):
        for p in self.ps:
            p.start()

    def __exit__(self, *a):
        for p in self.ps:
            p.stop()


def impl(case):
    env = Env(case["lines"])
    out = []
    try:
        with _Patched(env.captured, env.response):
            for line in case["lines"]:
                try:
                    out.append(env.exec(line))
                except _BadOp:
                    out.append("bad-op")
                except Exception as e:
                    out.append("err " + type(e).__name__)
    finally:
        env.debug_logging(False)
    return out


# ------------------------------------------------------------------ oracle
# An independent, declarative reading of the layering: every connection is a node with its own
# adapters (as declared at construction), its parent, and the adapters added to it later.

class Node:
    def __init__(self, parent, own, base, lists_used, plain=True):
        self.parent, self.own, self.base, self.plain = parent, list(own), base, plain
        self.added = []
        self.parent_snapshot = parent.chains() if parent is not None else [[]]
        self.lists_used = lists_used      # [(list name, length at construction)]

    def chains(self):
        """acceptable orders of application. The statement fixes: own adapters of a connection before
        its parent's. It does not fix whether an adapter added to a parent *after* the derivation is seen
        (both readings are accepted) nor where `add_adapter` puts an adapter relative to the parent's."""
        parents = list(self.parent_snapshot)
        if self.parent is not None:
            for c in self.parent.chains():
                if c not in parents:
                    parents.append(c)
        out = []
        for p in parents:
            for c in (self.own + p + self.added, self.own + self.added + p):
                if c not in out:
                    out.append(c)
        return out[:64]

    def ancestors(self):
        n, out = self.parent, []
        while n is not None:
            out.append(n)
            n = n.parent
        return out


def canon_url(url):
    """the statement does not spell out the joints (address | prefixes | path): slashes that meet there may
    be merged or not, so urls are compared with runs of '/' (outside the scheme) collapsed"""
    head, sep, rest = url.partition("://")
    return head + sep + re.sub(r"/{2,}", "/", rest)


def expected_url(address, path, params):
    """address + path (+ url-encoded params)"""
    return canon_url(address + "/" + path + ("?" + urlencode(params) if params else ""))


def auth_value(d):
    if d[0] == "t":
        return "Bearer " + d[1]
    return b"Basic " + base64.b64encode(("%s:%s" % (d[1], d[2])).encode("utf-8"))


def parse_reply(rep):
    """-> dict or None for err"""
    if not rep.startswith("ok "):
        return None
    out = {}
    for part in rep[3:].split():
        k, v = part.split("=", 1)
        out[k] = v
    hs = {}
    if out["h"] != "-":
        for h in out["h"].split(";"):
            name, val = h.split(":")
            name = dec_str(name).lower()
            if val == "g":
                hs[name] = ("g", "")
            else:
                hs[name] = (val[0], dec_str(val[1:]))
    out["h"] = hs
    out["u"] = dec_str(out["u"])
    out["m"] = dec_str(out["m"])
    out["r"] = out["r"]          # wire form of the returned value (distinguishes True from 1)
    if out["d"] == "n":
        out["d"] = None
    else:
        out["d"] = b"" if out["d"] == "-" else bytes(int(x) for x in out["d"].split(","))
    return out


def spec_process(a, v):
    """what the response processor of adapter descriptor `a` makes of value `v` (the harness adapters' contract)"""
    k = a[0]
    if k == "x":
        return v + [a[1]] if isinstance(v, list) else [v, a[1]]
    if k == "u":
        return v[a[1]] if isinstance(v, dict) and a[1] in v else v
    if k == "k":
        return len(v) if isinstance(v, (list, str, dict)) else v
    if k == "f":
        return [x for x in v if x] if isinstance(v, list) else v
    if k == "z":
        return v if v else None
    return v          # prefix / auth adapters, refusing adapters: identity


class ClassTable:
    """the caller classes as declared by the history; method and attribute resolution by Python's own MRO
    (computed on plain shadow classes, independent of the package's metaclass)"""

    def __init__(self):
        self.decl, self.order, self.shadow, self.back = {}, [], {}, {}

    def add(self, name, bases_tok, pmap_tok, wrappers_tok):
        bases = [int(b) for b in bases_tok.split(";")] if bases_tok != "-" else []
        ws = parse_wrappers(wrappers_tok)
        self.decl[name] = {"bases": bases, "pmap": None if pmap_tok == "~" else parse_pairs(pmap_tok),
                           "wrappers": {m: c for m, c, _, _ in ws},
                           "inner": {m: i for m, _, i, _ in ws if i is not None and i != "*"},
                           "flags": {m: fl for m, _, _, fl in ws}}
        self.order.append(name)
        sh = type("S%d" % name, tuple(self.shadow[b] for b in bases) or (object,), {})
        self.shadow[name] = sh
        self.back[sh] = name

    def mro(self, name):
        return [self.back[c] for c in self.shadow[name].__mro__ if c in self.back]

    def executing(self, name, method):
        """(name, class) of the wrapper that makes the request: bodies that only call another wrapper hand over"""
        for _ in range(16):
            for c in self.mro(name):
                if method in self.decl[c]["wrappers"]:
                    break
            else:
                raise KeyError(method)
            if method not in self.decl[c]["inner"]:
                return method, c
            method = self.decl[c]["inner"][method]
        raise KeyError("delegation cycle")

    def chain(self, name, method):
        """the wrappers a call goes through, outermost first: [(method, class of the body, flags)]"""
        out = []
        for _ in range(16):
            for c in self.mro(name):
                if method in self.decl[c]["wrappers"]:
                    break
            else:
                raise KeyError(method)
            out.append((method, c, self.decl[c]["flags"].get(method, "")))
            if method not in self.decl[c]["inner"]:
                return out
            method = self.decl[c]["inner"][method]
        raise KeyError("delegation cycle")

    def wrapper(self, name, method):
        """(components of the wrapper that makes the request, creation index of the class whose body that is)"""
        m, c = self.executing(name, method)
        return self.decl[c]["wrappers"][m], self.order.index(c)

    def methods(self, name):
        return sorted({m for c in self.mro(name) for m in self.decl[c]["wrappers"]})

    def pmap(self, name):
        for c in self.mro(name):
            if self.decl[c]["pmap"] is not None:
                return self.decl[c]["pmap"]
        return {}

    def code_comps(self, name, method):
        """the components in the package's table: the wrapper found first direct base first, depth first"""
        method = self.executing(name, method)[0]
        return self.decl[self.dfs_wrapper_class(name, method)]["wrappers"][method]

    def agrees(self, name, method):
        """first-direct-base-wins and Python's MRO select wrappers with the same components"""
        return self.code_comps(name, method) == self.wrapper(name, method)[0]

    def dfs_wrapper_class(self, name, method):
        """the class a depth-first, left-to-right search (first base first) finds the wrapper in"""
        if method in self.decl[name]["wrappers"]:
            return name
        for b in self.decl[name]["bases"]:
            r = self.dfs_wrapper_class(b, method)
            if r is not None:
                return r
        return None


def prefixed_paths(chain, path):
    """the path after the prefixes of the chain; where a prefix ending in '/' meets a path starting with '/' both
    the merged and the plain concatenation are accepted (that joint is not specified)"""
    ps = {path}
    for a in chain:
        if a[0] == "p":
            nxt = set()
            for p in ps:
                nxt.add(a[1] + p)
                if a[1].endswith("/") and p.startswith("/"):
                    nxt.add(a[1] + p[1:])
            ps = nxt
    return ps


def check_request(node, base, f, dicts, rep, what, suffix="", exact=None, nodes_by_name=None):
    nodes_by_name = nodes_by_name or {}
    """the clauses of the statement for one request; returns a message or None"""
    verb, path = f[0], dec_str(f[1]) + suffix
    params = None if f[2] == "n" else dicts[int(f[2])]
    data = parse_body(f[3], dicts)
    headers = None if f[4] == "n" else dicts[int(f[4])]
    ch = {k.lower(): v for k, v in (headers or {}).items()}
    chains = node.chains()
    r = parse_reply(rep)
    if " same=0" in rep:
        return "caller-object-modified: %s changed an object passed in by the caller" % what
    address = base

    def explains(chain):
        """None if this acceptable order of the declared layers explains the reply"""
        auths = [a for a in chain if a[0] in ("b", "c", "t")]
        boom_q, boom_r = ("e", "q") in chain, ("e", "r") in chain
        if r is None:
            cls, n = rep.split()[1], rep.split()[2] if len(rep.split()) > 2 else "n=?"
            if any(a[0] == "N" for a in chain) and cls in ("AssertionError", "ValueError"):
                return None       # a nested request may raise what its own chain raises: judged with the model only
            # nothing sent: an adapter's exception in process_req_args reaches the caller; besides that a
            # request may be refused only where the statement is silent: two authenticating layers, or an
            # Authorization header of the caller next to an authenticating layer
            if n == "n=0" and cls == "ValueError" and boom_q:
                return None
            if n == "n=0" and cls == "AssertionError" and (len(auths) > 1 or (auths and "authorization" in ch)):
                return None
            # sent, then a response processor raised: its exception reaches the caller
            if n == "n=1" and cls == "ValueError" and boom_r and not boom_q:
                return None
            return "request-fails: %s raises %s" % (what, rep)
        if boom_q or boom_r:
            return "exception-lost: %s: an adapter raised but the call returned normally" % what
        # -- path prefixes / url, trace header, response processors
        p = path
        for a in chain:
            if a[0] == "p":
                p = a[1] + "/" + p if a[1].endswith("/") or p.startswith("/") else a[1] + p
        tags = [a[1] for a in chain if a[0] == "x"]
        want_trace = (headers or {}).get("X-Trace", "") + "".join(tags) if tags else ch.get("x-trace")
        got_trace = r["h"].get("x-trace", (None, None))[1]
        trace_ok = got_trace == want_trace or ("x-trace" in ch and "X-Trace" not in (headers or {}))
        # params / data adapters rebind req_args.params / .data: the url and the body are made from what the chain left
        cparams = params
        for a in chain:
            if a[0] == "q":
                cur = cparams
                cparams = (list(cur.items()) if isinstance(cur, dict) else list(cur or [])) + [(a[1], a[2])]
        if not (canon_url(r["u"]) == expected_url(address, p, cparams) and trace_ok):
            return "chain: %s: url / applied adapters do not match the declared layering (%s)" % (what, r["u"])
        # -- "goes to address + path": exactly one '/' between the address and the path, judged character by
        # character where both are in normal form (address without a trailing '/' and a path with at most one leading
        # '/', or address with one trailing '/' and a relative path); the joints between prefixes stay lenient
        if exact is not None:
            query = "?" + urlencode(cparams) if cparams else ""
            wants = set()
            for pp in prefixed_paths(chain, path):
                lead = len(pp) - len(pp.lstrip("/"))
                if not address.endswith("/") and lead <= 1:
                    wants.add(address + ("" if lead else "/") + pp + query)
                elif address.endswith("/") and not address.endswith("//") and lead == 0:
                    wants.add(address + pp + query)
                else:
                    wants = None
                    break
            if wants is not None and exact not in wants:
                return "url: %s goes to %s, address + path is %s" % (what, exact, sorted(wants)[0])
        # -- requests sent by nesting adapters: each is a request through the adapter's target, judged on its own
        got_nested = [] if r.get("nested", "-") == "-" else [dec_str(u) for u in r["nested"].split(";")]
        ns = [a for a in chain if a[0] == "N"]
        if len(got_nested) > len(ns):
            return "nested: %s: more nested requests than nesting adapters" % what
        for u in got_nested:
            ok = False
            for a in ns:
                tnode = nodes_by_name.get(a[1])
                if tnode is None:
                    continue
                for tchain in tnode.chains():
                    tp = "/nested"
                    for b in tchain:
                        if b[0] == "p":
                            tp = b[1] + "/" + tp if b[1].endswith("/") or tp.startswith("/") else b[1] + tp
                    tq = []
                    for b in tchain:
                        if b[0] == "q":
                            tq = tq + [(b[1], b[2])]
                    if canon_url(u) == expected_url(tnode.base, tp, tq):
                        ok = True
            if not ok:
                return "nested: %s: a nested request went to %s, not through its adapter's target" % (what, u)
        # -- response: the processors of the chain in reverse order, each once, applied to the decoded response
        want = RawMark() if f[6] == "1" else ("" if f[5] == "E" else dec_json(f[5]))
        for a in chain[::-1]:
            want = spec_process(a, want)
        if r["r"] != enc_json(want):
            return "response: %s returned %s, the processors of the chain in reverse order give %s" % (
                what, r["r"], enc_json(want))
        # -- Authorization
        got = r["h"].get("authorization")
        if len(auths) == 1:
            want = auth_value(auths[0])
            want = ("b", want.decode("latin-1")) if isinstance(want, bytes) else ("s", want)
            if got != want:
                return "authorization: %s: header is not the one of the authenticating layer" % what
            if auths[0][0] != "t":
                try:
                    dec = base64.b64decode(got[1][6:], validate=True).decode("utf-8")
                except Exception:
                    return "authorization: %s: value does not decode" % what
                if dec != "%s:%s" % (auths[0][1], auths[0][2]):
                    return "authorization: %s: value decodes to other credentials" % what
        elif not auths:
            if got != (("s", ch["authorization"]) if "authorization" in ch else None):
                return "authorization: %s: header without an authenticating layer" % what
        elif got not in [(("b", auth_value(a).decode("latin-1")) if a[0] != "t" else ("s", auth_value(a))) for a in auths]:
            return "authorization: %s: header of no authenticating layer" % what
        return None

    msgs = [explains(c) for c in chains]
    if all(m is not None for m in msgs):
        return msgs[0]
    if r is None:
        return None
    # -- what the chain leaves in req_args.data (data wrappers rebind it), for every acceptable order
    datas_left = []
    for chain in chains:
        d = data
        if d is not None and not isinstance(d, (bytes, str)):
            for a in chain:
                if a[0] == "w":
                    d = {a[1]: d}
        datas_left.append(d)
    # -- method
    if verb.startswith("raw="):
        m = verb[4:]
        want_ms = {dec_str(m).upper()} if m not in ("n", "-") else {"POST" if d else "GET" for d in datas_left}
    else:
        want_ms = {verb.upper()}
    if r["m"] not in want_ms:
        return "method: %s sent as %s" % (what, r["m"])
    # -- body by type
    if data is None:
        want_d = None
    elif isinstance(data, bytes):
        want_d = data
    elif isinstance(data, str):
        want_d = data.encode("utf-8")
    else:
        want_d = None
        try:
            wants_d = [enc_json(d) for d in datas_left]
            if enc_json(json.loads(r["d"].decode("utf-8"))) not in wants_d:
                return "body: %s: structured body does not read back as what the chain left in req_args.data" % what
        except Exception:
            return "body: %s: structured body is not json" % what
        ct = r["h"].get("content-type")
        if "content-type" not in ch and ct != ("s", "application/json"):
            return "body: %s: structured body without json content type" % what
    if (data is None or isinstance(data, (bytes, str))) and r["d"] != want_d:
        return "body: %s: body not encoded according to its type" % what
    # -- every other header of the caller goes out unchanged
    for k, v in ch.items():
        if k in ("authorization", "content-type", "x-trace", "x-request-id"):
            continue
        if len([1 for kk in headers if kk.lower() == k]) == 1 and r["h"].get(k) != ("s", v):
            return "headers: %s: caller header %s lost or changed" % (what, k)
    return None


PROBE = ("post", "/probe/x", {"q": "1 2"}, {"a": [1]}, {"X-Probe": "v"})
PROBE_RESPONSE = {"result": [0, "", [], 3, {"k": None}], "n": 0}


def _probe(conn):
    sink = []
    with _Patched(sink, [json.dumps(PROBE_RESPONSE).encode()]):
        try:
            rv = conn.post(PROBE[1], params=dict(PROBE[2]), data=copy.deepcopy(PROBE[3]), headers=dict(PROBE[4]))
        except Exception as e:
            return "err %s n=%d" % (type(e).__name__, len(sink))
    if len(sink) != 1:
        return None          # a nesting adapter of the chain sent requests of its own: this probe is not compared
    rq = sink[0]
    hs = sorted((k.lower(), v) for k, v in rq.headers.items() if k.lower() != "x-request-id")
    try:
        rs = enc_json(rv)
    except ValueError:
        rs = repr(rv)
    return (rq.full_url, rq.get_method(), tuple(hs), rq.data, rs)


def oracle(case, replies):
    lines = case["lines"]
    # ---- part 1: every reply against the declared layering
    nodes, callers, dicts, lists = {}, {}, {}, {}
    classes = ClassTable()
    for idx, (line, rep) in enumerate(zip(lines, replies)):
        f = line.split()
        op = f[0]
        if op in ("lastid", "debuglog"):
            continue          # request ids are C16's property: diagnostic line; logging level: no effect allowed
        if rep.startswith("crash") or rep == "bad-op":
            return "harness: " + rep
        if op in ("req", "call"):
            pass
        elif rep != "ok":
            # constructing / deriving / cloning / adding never fails for the inputs of the quantifier
            if op == "cached" and rep == "err KeyError":
                if dec_str(f[3]) not in callers[int(f[2])]["cache"]:
                    return None       # (shrunk) history asks for a connection before any call made it
                return "cache: the connection made for a prefix is not kept by the caller"
            return "derive-fails: '%s' raises %s" % (op, rep)
        if op == "list":
            lists[int(f[1])] = parse_adapters(f[2])
        elif op == "lappend":
            lists[int(f[1])].append(parse_adapter(f[2]))
        elif op == "dict":
            dicts[int(f[1])] = parse_pairs(f[2])
        elif op == "pairs":
            dicts[int(f[1])] = parse_typed_pairs(f[2], f[3])
        elif op == "data":
            dicts[int(f[1])] = dec_json(f[2])
        elif op == "class":
            classes.add(int(f[1]), f[3], f[4], f[5])
        elif op in ("mk", "caller", "clone"):
            if op == "clone":
                src = callers[int(f[2])]
                parent, base, own_tok = src["node"], src["node"].base, f[3]
            else:
                t = f[2].split("=")
                own_tok = f[3] if op == "mk" else "n"
                if t[0] == "c":
                    parent = nodes[int(t[1])]
                    base = parent.base
                else:
                    # the address the connection is configured with; a `str` address is documented to lose one
                    # trailing '/', the list / dict forms are taken as they are
                    parent, base = None, dec_str(t[1])
                    if t[0] == "s" and base.endswith("/"):
                        base = base[:-1]
            o = own_tok.split("=")
            used = []
            if o[0] == "n":
                own = []
            elif o[0] == "o":
                own = [parse_adapter(o[1])]
            else:
                own = list(lists[int(o[1])])
                used = [(int(o[1]), len(own))]
            node = Node(parent, own, base, used, plain=(op != "mk" or f[4] == "H"))
            if op == "mk":
                nodes[int(f[1])] = node
            elif op == "caller":
                if parent is not None and parent.plain:
                    node = parent      # an HttpConn is used as it is
                callers[int(f[1])] = {"node": node, "cls": int(f[3]), "cache": {}}
            else:
                callers[int(f[1])] = {"node": node, "cls": src["cls"], "cache": {}}
        elif op == "add":
            nodes[int(f[1])].added.append(parse_adapter(f[2]))
        elif op == "connof":
            nodes[int(f[1])] = callers[int(f[2])]["node"]
        elif op == "cached":
            nodes[int(f[1])] = callers[int(f[2])]["cache"][dec_str(f[3])]
        elif op in ("req", "call"):
            suffix = ""
            if op == "req":
                node, rest = nodes[int(f[1])], f[2:]
            else:
                # the body that runs is the one Python's MRO selects for the name; the request goes through the
                # prefix of the component that wrapper was declared with (prefix map: class attribute lookup)
                k = callers[int(f[1])]
                comps, body = classes.wrapper(k["cls"], dec_str(f[2]))
                judged = classes.agrees(k["cls"], dec_str(f[2]))
                if not judged:
                    # a later base overrides a wrapper that an earlier base merely inherits: which component such a
                    # call resolves to is outside the property; follow the package's table (first direct base wins)
                    # to keep track of the prefix cache, and do not judge the request
                    comps = classes.code_comps(k["cls"], dec_str(f[2]))
                pmap = classes.pmap(k["cls"])
                suffix = "~%d" % body
                rest = f[3:]
                if comps is None:
                    node = k["node"]
                else:
                    match = [c for c in comps if c in pmap]
                    if len(match) != 1:
                        if judged and not rep.startswith("err AssertionError n=0"):
                            return "component: call without a unique component gives %s" % rep
                        continue
                    prefix = pmap[match[0]]
                    if prefix not in k["cache"]:
                        k["cache"][prefix] = Node(k["node"], [("p", prefix)], k["node"].base, []) if prefix else k["node"]
                    node = k["cache"][prefix]
                if not judged:
                    continue
            # lists mutated by the caller after they were used: the statement does not say which content counts
            stale = any(len(lists[l]) != n for nd in [node] + node.ancestors() for l, n in nd.lists_used)
            if stale:
                if " same=0" in rep:
                    return "caller-object-modified: request changed an object passed in by the caller"
                continue
            exact = None
            if idx + 1 < len(lines) and lines[idx + 1] == "lastid" and " u=" in replies[idx + 1]:
                exact = dec_str(replies[idx + 1].split(" u=")[1])
            msg = check_request(node, node.base, rest, dicts, rep, "'%s'" % " ".join(f[:3]), suffix, exact, nodes)
            if msg:
                return msg
    # ---- part 2: frame. Re-run the history; after every operation send the same probe through every
    # named connection; an operation on another connection / caller / list must not change it.
    env = Env(lines)
    last = {}
    with _Patched(env.captured, env.response):
        for line in lines:
            f = line.split()
            try:
                env.exec(line)
            except Exception:
                pass
            # connections whose chain has a nesting adapter are not probed: a probe would make the adapter send (and
            # use up a "first use only")
            now = {name: _probe(c) for name, c in env.conns.items()
                   if not (name in nodes and any(a[0] == "N" for ch_ in nodes[name].chains() for a in ch_))}
            touched = set()
            if f[0] == "add":
                touched = {n for n, c in env.conns.items() if c is env.conns.get(int(f[1]))}
                # descendants: the statement leaves open whether they see the new adapter
                touched |= _descendants(nodes, int(f[1]), env)
            elif f[0] == "lappend":
                touched = set(env.conns)     # users of the list (and their descendants): left open
                touched = {n for n in touched if _uses_list(nodes.get(n), int(f[1]))}
            for name, before in last.items():
                if name in now and name not in touched and before is not None and now[name] is not None \
                        and now[name] != before:
                    env.debug_logging(False)
                    return "frame: '%s' changed the request sent through connection %d: %r -> %r" % (
                        line.split()[0], name, before, now[name])
            last = now
    env.debug_logging(False)
    return None


def _uses_list(node, l):
    while node is not None:
        if any(x == l for x, _ in node.lists_used):
            return True
        node = node.parent
    return False


def _descendants(nodes, name, env):
    root = nodes.get(name)
    out = set()
    for n, nd in nodes.items():
        if n in env.conns and (nd is root or root in nd.ancestors()):
            out.add(n)
    return out


# ------------------------------------------------------------------ generators
ADDRS = ["http://h", "http://h/", "http://host:8080/base", "https://s.example/api/", "http://h//", "HTTPS://Up.example"]
PREFIXES = ["/a", "/a/", "b", "b/", "/cmp/x", "", "/", "/v1", "/é", "x/y/"]
PATHS = ["/p", "p", "", "/", "/p/q?z=1", "p%20q", "//d", "/ü", "a/b/"]
# the last four are rewritten by Unicode NFC normalisation (base letter + combining mark, ANGSTROM / OHM / KELVIN
# signs, conjoining Hangul jamo): the header must decode to the credentials as configured, code point by code point
LOGINS = ["u", "user:x", "", "üser", "a b", "e\u0308", "\u212b\u2126", "\u1100\u1161", "a\u0301:\u212a"]
HEADER_DICTS = [{}, {"X-A": "1"}, {"authorization": "mine"}, {"Authorization": "mine"}, {"content-type": "text/plain"},
                {"Content-Type": "text/x"}, {"X-Trace": "c."}, {"x-request-id": "abc"}, {"X-Request-ID": "my"},
                {"X-A": "1", "x-b": "two words", "Accept": "*/*"}, {"X-Request-Id": "Mixed", "X-A": "é"}]
PARAM_DICTS = [{}, {"a": "1"}, {"q": "x y&z=ü/", "b": ""}, {"k k": "~._-", "+": "%"}, {"n": "1", "m": "2", "o": "3"}]
BODIES = [None, b"", b"\x00\xffraw", "text", "ünï 中", "", {}, {"k": [1, 2, {"z": None}]}, [], [1, "a"], 0, 5, True,
          {"é": "é\n\"\\\x7f\U0001F600"}, -7, False, [[]], {"a": {"b": [None, True]}}]
# bodies of the fake responses (None = empty body): values that the response processors turn into empty / falsy
# results, nested wrappers, and plain values
RESPONSES = [None, None, [], {}, "", 0, False, None, [0, "", None, [], {}, False], [1, 0, "x"], {"result": []},
             {"result": {"result": 0}}, {"result": [0, 1], "n": 2}, {"other": 1}, "text", 17, True, [[], [0]],
             {"result": ""}, {"result": None}, [5], {"a": 1, "b": 2}]
COMPS = ["A", "B", "E", "X"]
PMAPS = [{"A": "/cmpA", "B": "/cmpB/", "E": ""}, {"A": "/same", "B": "/same"}, {}, {"A": "pa/"}]
# params objects that are not plain str dicts: repeated keys need a sequence of pairs; non-str values go through str()
PAIR_SEQS = [[("ids", 1), ("ids", 2)], [("ids", 1), ("x", "y"), ("ids", 2), ("ids", 3)], [], [("a", "1")],
             [("k", None), ("k", True), ("k", "v w")], [("n", -5), ("é", "ü/&"), ("n", 0)], [("a", "1"), ("a", "1")]]
TYPED_DICTS = [{"param": 25, "flag": False, "none": None, "s": "x"}, {"n": 0}, {"a b": -1, "t": True}]


def enc_adapter(d):
    if d[0] == "e":
        return "e/" + d[1]
    if d[0] == "N":
        return "N/%d/%s/%s/%d" % (d[1], d[2], d[3], d[4])
    if d[0] == "x" and len(d) == 3:
        return "X/" + enc_str(d[1])
    return "/".join([d[0]] + [enc_str(x) for x in d[1:]])


def enc_pairs(d):
    return ";".join("%s=%s" % (enc_str(k), enc_str(v)) for k, v in d.items()) if d else "-"


def enc_val(v):
    if v is None or v is True or v is False:
        return {None: "N", True: "T", False: "F"}[v]
    return "s" + enc_str(v) if isinstance(v, str) else "i%d" % v


def enc_typed_pairs(items):
    return ";".join("%s=%s" % (enc_str(k), enc_val(v)) for k, v in items) if items else "-"


def enc_comps(comps):
    if comps is None:
        return "n"
    return "+".join(enc_str(c) for c in comps) if comps else "e"


def enc_wrappers(ws):
    """ws: {name: comps} or {name: (comps, inner)} or {name: (comps, inner | None, flags)}"""
    out = []
    for m, c in ws.items():
        if isinstance(c, tuple):
            inner = "." if c[1] is None else "*" if c[1] == "*" else enc_str(c[1])
            out.append("%s=%s=%s" % (enc_str(m), enc_comps(c[0]), inner) + ("=" + c[2] if len(c) > 2 and c[2] else ""))
        else:
            out.append("%s=%s" % (enc_str(m), enc_comps(c)))
    return "/".join(out) if out else "-"


def enc_body(b):
    if b is None:
        return "n"
    if isinstance(b, bytes):
        return "b=" + (",".join(str(x) for x in b) if b else "-")
    if isinstance(b, str):
        return "s=" + enc_str(b)
    raise ValueError("a structured body is a `data` object")


class Builder:
    def __init__(self, rng, rich):
        self.rng, self.rich = rng, rich
        self.lines = []
        self.conns, self.callers, self.lists, self.dicts = [], [], [], []
        self.plain = {}
        self.next = 0
        self.tag = 0
        self.kinds = set()
        self.called = {}     # caller -> prefixes with a cached connection
        self.auth = {}       # connection -> number of authenticating adapters in its chain (approximate)
        self.kauth = {}      # caller -> the same for its connection
        self.lauth = {}      # list -> number of authenticating adapters
        self.datas = []      # structured data= objects
        self.mk_conns = []        # connections made by `mk` (their chains are tracked exactly)
        self.has_nested = set()   # connections whose chain has a nesting adapter
        self.nested_targets = set()   # connections a nesting adapter sends through (they stay free of nesting adapters)
        self.nid = 0
        self.table = ClassTable()    # the caller classes declared so far
        self.kcls = {}       # caller -> class

    def name(self):
        self.next += 1
        return self.next

    def rstr(self, pool):
        rng = self.rng
        if self.rich and rng.random() < 0.15:
            alphabet = "abz/AZ09-_.~%:@ éЖ中"
            return "".join(rng.choice(alphabet) for _ in range(rng.randrange(0, 6)))
        return rng.choice(pool)

    def adapter(self, auth_ok=True):
        rng = self.rng
        k = rng.choice("pppxxxbctukfzukfzqqw" if auth_ok else "pppxxxukfzukfzqqw")
        if rng.random() < 0.03:
            k = "e"
        self.kinds.add("adapter:" + k)
        if k == "p":
            return ("p", self.rstr(PREFIXES).replace(" ", "_"))
        if k == "x":
            self.tag += 1
            if rng.random() < 0.3:
                self.kinds.add("adapter:x-rebinding-headers")
                return ("x", "%d." % self.tag, "rebind")
            return ("x", "%d." % self.tag)
        if k == "q":       # rebinds req_args.params
            return ("q", rng.choice(["api_key", "tenant", "a", "ids", "k k"]), self.rstr(["K-1", "t 1", "", "ü&="]))
        if k == "w":       # rebinds req_args.data
            return ("w", rng.choice(["payload", "env", "é"]))
        if k == "t":
            return ("t", self.rstr(["tok", "a.b-c", ""]))
        if k == "u":
            return ("u", rng.choice(["result", "result", "n", "é"]))
        if k in "kfz":
            return (k,)
        if k == "e":
            return ("e", rng.choice("qr"))
        return (k, self.rstr(LOGINS), self.rstr(["pw", "p:w", "", "£€", "o\u0302\u037e", "\u1112\u1161\u11ab"]))

    def response(self):
        rng = self.rng
        i = rng.randrange(len(RESPONSES))
        v = RESPONSES[i]
        if v is None and i >= 2:
            self.kinds.add("response:null")
            return "N"
        if self.rich and rng.random() < 0.3:
            v = {"result": rng.choice(RESPONSES)} if rng.random() < 0.5 else [rng.choice(RESPONSES), rng.choice(RESPONSES)]
            if isinstance(v, dict) and v["result"] is None and rng.random() < 0.5:
                v = {"result": [self.rstr(["v"]), rng.randrange(-3, 3)]}
        self.kinds.add("response:" + ("empty-body" if v is None else type(v).__name__ + (":falsy" if not v else "")))
        return "E" if v is None else enc_json(v)

    def dict_ref(self, pool, p_none=0.3):
        rng = self.rng
        if rng.random() < p_none:
            return "n"
        if self.dicts and rng.random() < 0.3:
            return str(rng.choice(self.dicts)[0])
        d = dict(rng.choice(pool))
        if self.rich and rng.random() < 0.2:
            d[rng.choice(["X-R", "x-r", "X-A"])] = self.rstr(["v", ""])
        n = self.name()
        self.dicts.append((n, d))
        self.lines.append("dict %d %s" % (n, enc_pairs(d)))
        return str(n)

    def body_ref(self, body):
        """bytes / str / None travel inline; a structured body is an object of the caller (re-used now and then)"""
        if body is None or isinstance(body, (bytes, str)):
            return enc_body(body)
        if self.datas and self.rng.random() < 0.35:
            self.kinds.add("data:reused")
            return "j=%d" % self.rng.choice(self.datas)
        n = self.name()
        self.datas.append(n)
        self.lines.append("data %d %s" % (n, enc_json(body)))
        return "j=%d" % n

    def params_ref(self):
        """n | a str dict | a dict with non-str values | a list / tuple of pairs (keys may repeat)"""
        rng = self.rng
        r = rng.random()
        if r < 0.35:
            self.kinds.add("params:none")
            return "n"
        if r < 0.65:
            self.kinds.add("params:dict")
            return self.dict_ref(PARAM_DICTS, 0.0)
        n = self.name()
        if r < 0.75:
            items, kind = list(rng.choice(TYPED_DICTS).items()), "d"
            self.kinds.add("params:typed-dict")
        else:
            items, kind = list(rng.choice(PAIR_SEQS)), rng.choice("llt")
            if self.rich and rng.random() < 0.3:
                items = items + [(self.rstr(["k"]).replace(" ", "_") or "k", rng.choice([self.rstr(["v"]), rng.randrange(-9, 99)]))] \
                    + items[:1]
            keys = [k for k, _ in items]
            self.kinds.add("params:pairs" + ("-empty" if not items else "-repeated" if len(set(keys)) < len(keys) else ""))
        self.lines.append("pairs %d %s %s" % (n, kind, enc_typed_pairs(items)))
        return str(n)

    def deferred_bodies(self, ws):
        """the dimension "when does the body of a wrapper run": in a third of the classes (two thirds of those with
        wrappers that call wrappers) some wrappers are generator
        functions (plain / delegating to a helper generator) or coroutine functions, and wrappers that call another
        wrapper either hand its result on or drive it inside their own body"""
        rng = self.rng
        nested = any(isinstance(c, tuple) and c[1] not in (None, "*") for c in ws.values())
        if not ws or rng.random() >= (0.7 if nested else 0.3):
            return ws
        out = {}
        for m, c in ws.items():
            comps, inner = (c[0], c[1]) if isinstance(c, tuple) else (c, None)
            flags = ""
            if rng.random() < 0.55:
                flags = rng.choice("ggaa" + ("yy" if inner is None else ""))
            if inner not in (None, "*") and rng.random() < 0.6:
                flags += "d"
            out[m] = (comps, inner, flags) if flags else c
            for fl in flags:
                self.kinds.add("wrapper:" + {"g": "generator", "y": "generator-via-helper-generator", "a": "coroutine",
                                             "d": "drives-inner-result"}[fl])
        return out

    def new_class(self, bases, pmap, wrappers):
        wrappers = self.deferred_bodies(wrappers)
        n = self.name()
        self.table.add(n, ";".join(str(b) for b in bases) if bases else "-", "~" if pmap is None else enc_pairs(pmap),
                       enc_wrappers(wrappers))
        self.lines.append("class %d %s %s %s %s" % (
            n, ";".join(str(c) for c in self.table.mro(n)), ";".join(str(b) for b in bases) if bases else "-",
            "~" if pmap is None else enc_pairs(pmap), enc_wrappers(wrappers)))
        return n

    def comps_for(self, pmap):
        rng = self.rng
        keys = sorted(pmap)
        r = rng.random()
        if r < 0.2:
            return None
        if r < 0.24:
            return []
        if keys and r < 0.85:
            cs = [rng.choice(keys)] + (["X"] if rng.random() < 0.2 else [])
            rng.shuffle(cs)
            return cs
        return rng.sample(COMPS, rng.choice([1, 1, 2]))

    def new_hierarchy(self):
        """-> names of the classes a caller may be made from"""
        rng = self.rng
        r = rng.random()
        if r < 0.55:
            pm = rng.choice(PMAPS)
            self.kinds.add("class:single")
            ws = {"m%d" % i: self.comps_for(pm) for i in range(rng.choice([2, 3, 4]))}
            if rng.random() < 0.4:
                # the wrappers reach get_conn() through one helper method shared by all of them
                self.kinds.add("class:shared-helper")
                ws = {m: (c, "*") for m, c in ws.items()}
            if rng.random() < 0.35:
                # a wrapper implemented by another wrapper of (usually) another component, defined before / after it
                self.kinds.add("class:nested-call")
                outer = {"d0": (self.comps_for(pm), rng.choice(sorted(ws)))}
                if rng.random() < 0.4:
                    outer["d1"] = (self.comps_for(pm), "d0")
                ws = dict(outer, **ws) if rng.random() < 0.5 else dict(ws, **outer)
            return [self.new_class([], pm, ws)]
        if r < 0.68:
            pm = rng.choice(PMAPS[:2])
            bw = {"m0": self.comps_for(pm), "m1": self.comps_for(pm)}
            sw = {"m0": self.comps_for(pm), "m2": self.comps_for(pm)}
            if rng.random() < 0.5:
                self.kinds.add("class:nested-call")
                if rng.random() < 0.5:
                    bw = dict({"d0": (self.comps_for(pm), "m0")}, **bw)     # the inner wrapper is overridden in the subclass
                else:
                    sw = dict(sw, d1=(self.comps_for(pm), "m1"))             # the inner wrapper lives in the base
            base = self.new_class([], pm, bw)
            sub = self.new_class([base], rng.choice([None, None, {"A": "/sub", "B": "/subB"}]), sw)
            self.kinds.add("class:chain")
            return [base, sub]
        pm = {"front": "/front/api", "back": "/back", "common": "/common/"}
        if r < 0.84:
            m1 = self.new_class([], rng.choice([None, pm]), {"status": ["front"], "only1": ["front"]})
            m2 = self.new_class([], None, {"status": ["back"], "only2": rng.choice([None, ["back"]])})
            order = [m1, m2] if rng.random() < 0.5 else [m2, m1]
            c = self.new_class(order, pm, {"extra": ["common"]} if rng.random() < 0.5 else {})
            self.kinds.add("class:mixin")
            return [c]
        base = self.new_class([], pm, {"ping": ["common"], "plain": None})
        a = self.new_class([base], None, {"ping": ["front"]})
        b = self.new_class([base], None, {} if rng.random() < 0.6 else {"other": ["back"]})
        if rng.random() < 0.25:
            # B only inherits ping, A overrides it, and B stands first: compared with the model only
            self.kinds.add("class:shadowed-override(not judged)")
            return [self.new_class([b, a], None, {})]
        self.kinds.add("class:diamond")
        return [self.new_class([a, b], None, {}), a, b]

    def own(self, auth_ok=True):
        """-> (token, number of authenticating adapters)"""
        rng = self.rng
        r = rng.random()
        if r < 0.2:
            return "n", 0
        if r < 0.55:
            a = self.adapter(auth_ok)
            return "o=" + enc_adapter(a), int(a[0] in "bct")
        if self.lists and rng.random() < 0.4:
            self.kinds.add("own:list-reused")
            l = rng.choice(self.lists)
            return "l=%d" % l, self.lauth.get(l, 0)
        n = self.name()
        k = rng.choice([0, 1, 2, 2, 3])
        ads = [self.adapter(auth_ok and i == 0) for i in range(k)]
        self.lists.append(n)
        self.lauth[n] = len([a for a in ads if a[0] in "bct"])
        self.lines.append("list %d %s" % (n, ";".join(enc_adapter(a) for a in ads) if ads else "-"))
        self.kinds.add("own:list%d" % k)
        return "l=%d" % n, self.lauth[n]

    def auth_ok(self, n):
        """a second authenticating layer is refused by the code: keep those histories rare"""
        return n == 0 or self.rng.random() < 0.12

    def target(self):
        rng = self.rng
        if self.conns and rng.random() < 0.8:
            return "c=%d" % rng.choice(self.conns)
        a = self.rstr(ADDRS)
        if a not in ADDRS:      # a random host name (an address always has scheme://host)
            a = "http://" + a.replace("/", "").replace(":", "").replace("%", "").replace(" ", "").replace("@", "") + "h"
        if rng.random() < 0.7:
            return "s=" + enc_str(a)
        return "%s=%s=%d" % (rng.choice("ad"), enc_str(a), rng.random() < 0.6)

    def request_args(self):
        rng = self.rng
        verb = rng.choice(VERBS + ("raw=n", "raw=" + enc_str(rng.choice(["get", "Options", "pAtCh", "POST"])), "raw=-")) \
            if rng.random() < 0.35 else rng.choice(VERBS)
        body = rng.choice(BODIES)
        if self.rich and rng.random() < 0.2:
            body = self.rstr(["t"]) if rng.random() < 0.5 else {"k": self.rstr(["v"])}
        self.kinds.add("body:" + ("none" if body is None else type(body).__name__ if isinstance(body, (bytes, str)) else "json"))
        self.kinds.add("verb:" + verb.split("=")[0])
        params = self.params_ref()
        headers = self.dict_ref(HEADER_DICTS, 0.3)
        path = self.rstr(PATHS).replace(" ", "_")
        raw = int(rng.random() < 0.08)
        if raw:
            self.kinds.add("raw_response")
        return "%s %s %s %s %s %s %d" % (verb, enc_str(path), params, self.body_ref(body), headers, self.response(), raw)

    def nesting_adapter(self, exclude=None):
        """an adapter that sends its own request through another (sibling / parent) connection; one level only"""
        free = [c for c in self.mk_conns if c not in self.has_nested and c != exclude]
        if not free:
            return None
        t = self.rng.choice(free)
        self.nested_targets.add(t)
        self.nid += 1
        mode, side = self.rng.choice("fa"), self.rng.choice("qqr")
        self.kinds.add("adapter:nested-%s-%s" % ({"f": "first", "a": "always"}[mode], {"q": "request", "r": "response"}[side]))
        return ("N", t, mode, side, self.nid)

    def lastid(self):
        """diagnostic line: request-id facts of the request just made"""
        self.lines.append("lastid")

    def call(self, k, method=None):
        rng = self.rng
        cls = self.kcls[k]
        m = method or rng.choice(self.table.methods(cls))
        comps = self.table.code_comps(cls, m)
        pmap = self.table.pmap(cls)
        if comps is not None:
            match = [c for c in comps if c in pmap]
            if len(match) == 1:
                self.called.setdefault(k, set()).add(pmap[match[0]])
                self.kinds.add("call:comp-unique")
        self.lines.append("call %d %s %s" % (k, enc_str(m), self.request_args()))
        self.lastid()
        self.kinds.add("call:" + ("none" if comps is None else "comp"))
        # when / on whose stack the body that makes the request runs
        chain = self.table.chain(cls, m)
        deferred = [bool(set(fl) & set("gya")) for _, _, fl in chain]
        if any(deferred):
            # the frame that drives the innermost deferred object: a wrapper with `d` further out, else plain code
            last = max(i for i, d in enumerate(deferred) if d)
            drivers = [i for i in range(last) if "d" in chain[i][2]]
            if not drivers:
                self.kinds.add("call:deferred:driven-by-plain-code" + ("" if last == 0 else "-handed-on"))
            else:
                i = max(drivers)
                c_out = self.table.decl[chain[i][1]]["wrappers"][chain[i][0]]
                c_in = self.table.decl[chain[-1][1]]["wrappers"][chain[-1][0]]
                self.kinds.add("call:deferred:driven-inside-wrapper" + ("-of-other-component" if c_out != c_in else ""))
            if deferred[-1]:
                self.kinds.add("call:deferred:request-made-by-deferred-body")

    def step(self):
        rng = self.rng
        ops = ["mk"] * 4 + ["add"] * 3 + ["req"] * 5 + ["caller"] * 2 + ["clone"] * 3 + ["call"] * 4 + \
              ["connof", "cached", "cached", "lappend"]
        op = rng.choice(ops)
        if not self.conns:
            op = "mk"
        if op in ("clone", "call", "connof", "cached") and not self.callers:
            op = "caller"
        if op == "mk":
            t = self.target()
            pa = self.auth.get(int(t[2:]), 0) if t[0] == "c" else 0
            cls = rng.choice("HHHBCT" if self.auth_ok(pa) else "H")
            if cls == "H":
                own, na = self.own(self.auth_ok(pa))
            else:
                a = {"B": ("b", self.rstr(LOGINS), self.rstr(["pw", "p:w", "\u212a\u0301"])),
                     "C": ("c", self.rstr(["id", "i\u0308d", "\u2126"]), self.rstr(["s3", "", "e\u0301\u037e"])),
                     "T": ("t", self.rstr(["tok"]))}[cls]
                own, na = "o=" + enc_adapter(a), 1
            n = self.name()
            self.lines.append("mk %d %s %s %s" % (n, t, own, cls))
            self.conns.append(n)
            self.mk_conns.append(n)
            if t[0] == "c" and (int(t[2:]) in self.has_nested or int(t[2:]) not in self.mk_conns):
                self.has_nested.add(n)
            self.auth[n] = pa + na
            self.plain[str(n)] = cls == "H"
            self.kinds.add("mk:" + cls + ":" + t[0] + ":" + own[0])
        elif op == "add":
            c = rng.choice(self.conns)
            a = self.adapter(self.auth_ok(self.auth.get(c, 0)))
            if rng.random() < 0.3 and c in self.mk_conns and c not in self.nested_targets:
                na = self.nesting_adapter(exclude=c)
                if na is not None:
                    a = na
                    self.has_nested.add(c)
            self.auth[c] = self.auth.get(c, 0) + int(a[0] in "bct")
            self.lines.append("add %d %s" % (c, enc_adapter(a)))
            self.kinds.add("add")
        elif op == "req":
            self.lines.append("req %d %s" % (rng.choice(self.conns), self.request_args()))
            self.lastid()
        elif op == "caller":
            if not self.table.order or rng.random() < 0.5:
                usable = self.new_hierarchy()
            else:
                usable = [c for c in self.table.order if self.table.methods(c)]
            cls = rng.choice(usable)
            t = self.target()
            n = self.name()
            self.lines.append("caller %d %s %d" % (n, t, cls))
            self.callers.append(n)
            self.kcls[n] = cls
            self.kauth[n] = self.auth.get(int(t[2:]), 0) if t[0] == "c" else 0
            self.kinds.add("caller:" + t[0])
        elif op == "clone":
            src = rng.choice(self.callers)
            n = self.name()
            own, na = self.own(self.auth_ok(self.kauth.get(src, 0)))
            self.lines.append("clone %d %d %s" % (n, src, own))
            self.callers.append(n)
            self.kcls[n] = self.kcls[src]
            self.kauth[n] = self.kauth.get(src, 0) + na
            self.kinds.add("clone:" + own[0])
        elif op == "call":
            k = rng.choice(self.callers)
            self.call(k)
        elif op == "connof":
            n = self.name()
            k = rng.choice(self.callers)
            self.lines.append("connof %d %d" % (n, k))
            self.conns.append(n)
            self.auth[n] = self.kauth.get(k, 0)
            self.plain[str(n)] = True
            self.kinds.add("connof")
        elif op == "cached":
            ks = [k for k in self.callers if self.called.get(k)]
            if ks:
                k = rng.choice(ks)
                n = self.name()
                self.lines.append("cached %d %d %s" % (n, k, enc_str(rng.choice(sorted(self.called[k])))))
                self.conns.append(n)
                self.auth[n] = self.kauth.get(k, 0)
                self.plain[str(n)] = True
                self.kinds.add("cached")
        elif op == "lappend" and self.lists:
            l = rng.choice(self.lists)
            a = self.adapter(rng.random() < 0.2)
            self.lauth[l] = self.lauth.get(l, 0) + int(a[0] in "bct")
            self.lines.append("lappend %d %s" % (l, enc_adapter(a)))
            self.kinds.add("lappend")


def gen_one(rng, steps, rich):
    b = Builder(rng, rich)
    if rng.random() < 0.2:
        # the package's logger at DEBUG for the whole history (what is logged must not change what is sent)
        b.lines.append("debuglog")
        b.kinds.add("debuglog")
    for _ in range(steps):
        b.step()
    # every history ends with requests through what it built
    for _ in range(rng.choice([1, 2, 3])):
        if b.callers and rng.random() < 0.4:
            b.call(rng.choice(b.callers))
        else:
            b.lines.append("req %d %s" % (rng.choice(b.conns), b.request_args()))
            b.lastid()
    return {"lines": b.lines, "meta": {"plain": b.plain, "kinds": sorted(b.kinds)}}


def corpus():
    return [with_lastid(c) for c in _corpus()]


def _corpus():
    e = enc_str
    return [
        # clone with a list of adapters (defect fixed by 622d998), with one adapter, with nothing
        {"lines": ["class 9 9 - - %s=n" % e("m"), "caller 1 s=%s 9" % e("http://h"),
                   "list 2 x/%s;p/%s" % (e("1."), e("/z")),
                   "clone 3 1 l=2", "clone 4 1 o=b/%s/%s" % (e("u"), e("p")), "clone 5 1 n",
                   "call 3 %s get %s n n n E 0" % (e("m"), e("/p")),
                   "data 8 %s" % enc_json({"a": 1}), "call 4 %s post %s n j=8 n E 0" % (e("m"), e("/p")),
                   "call 5 %s get %s n n n E 0" % (e("m"), e("p")), "call 1 %s get %s n n n E 0" % (e("m"), e("p"))]},
        # two-level chain, inner prefix outermost, one Authorization header
        {"lines": ["mk 1 s=%s o=p/%s H" % (e("http://h/"), e("/in")), "mk 2 c=1 o=b/%s/%s B" % (e("u:x"), e("p")),
                   "mk 3 c=2 o=p/%s H" % e("/out/"), "dict 4 %s=%s" % (e("authorization"), e("mine")),
                   "req 3 get %s n n n E 0" % e("/p"), "req 3 post %s n s=%s 4 %s 0" % (e("p"), e("body"), enc_json([1])),
                   "add 1 x/%s" % e("9."), "req 3 get %s n n n E 0" % e("/p"), "req 1 get %s n n n E 0" % e("/p")]},
        # response processors with real transformations whose results are empty / falsy: count of [] is 0, the
        # unwrapped value is [], compact leaves [], nullify gives None; outer layers must see those values
        {"lines": ["mk 1 s=%s o=k H" % e("http://h"), "mk 2 c=1 o=x/%s H" % e("1."),
                   "req 1 get %s n n n %s 0" % (e("/p"), enc_json([])), "req 2 get %s n n n %s 0" % (e("/p"), enc_json([])),
                   "list 3 z;f;u/%s" % e("result"), "mk 4 s=%s l=3 H" % e("http://h"),
                   "req 4 get %s n n n %s 0" % (e("/p"), enc_json({"result": [0, "", None]})),
                   "req 4 get %s n n n %s 0" % (e("/p"), enc_json({"result": [0, 2]})),
                   "mk 5 c=4 o=e/r H", "req 5 get %s n n n E 0" % e("/p"), "mk 6 c=4 o=e/q H", "req 6 get %s n n n E 0" % e("/p")]},
        # params as a sequence of pairs with a repeated key, with non-str values, empty; as a dict with non-str values
        {"lines": ["mk 1 s=%s o=p/%s H" % (e("http://h"), e("/api")),
                   "pairs 2 l %s" % enc_typed_pairs([("ids", 1), ("x", "y"), ("ids", 2), ("ids", 3)]),
                   "pairs 3 t %s" % enc_typed_pairs([("k", None), ("k", True)]), "pairs 4 l -",
                   "pairs 5 d %s" % enc_typed_pairs([("param", 25), ("flag", False)]),
                   "req 1 get %s 2 n n E 0" % e("/res"), "req 1 get %s 3 n n E 0" % e("/res"),
                   "req 1 get %s 4 n n E 0" % e("/res"), "req 1 post %s 5 n n E 0" % e("/res"),
                   "req 1 get %s 2 n n E 0" % e("/res")]},
        # a wrapper whose body calls another wrapper of a different component (inner defined after / before it, and
        # overridden in a subclass); the same history with the package's logger at DEBUG and an auth layer
        {"lines": ["debuglog", "class 1 1 - %s=%s;%s=%s %s=%s=%s/%s=%s/%s=%s=%s" % (
                       e("front"), e("/front"), e("back"), e("/back"), e("outer"), e("back"), e("inner"),
                       e("inner"), e("front"), e("late"), e("back"), e("inner")),
                   "class 2 2;1 1 ~ %s=%s" % (e("inner"), e("back")),
                   "mk 3 s=%s o=b/%s/%s B" % (e("http://h"), e("u"), e("p")),
                   "caller 4 c=3 1", "caller 5 c=3 2",
                   "call 4 %s get %s n n n E 0" % (e("outer"), e("/x")), "call 4 %s get %s n n n E 0" % (e("late"), e("/x")),
                   "call 5 %s get %s n n n E 0" % (e("outer"), e("/x")), "call 4 %s get %s n n n E 0" % (e("inner"), e("/x"))]},
        # adapters that rebind req_args.params / .data / .headers (the caller passes None, a dict, a pair list); two
        # wrappers of different components that reach get_conn() through one shared helper, called in both orders
        {"lines": ["list 1 q/%s/%s;w/%s;X/%s" % (e("api_key"), e("K-1"), e("payload"), e("1.")),
                   "mk 2 s=%s l=1 H" % e("http://h"), "mk 3 c=2 o=q/%s/%s H" % (e("tenant"), e("t 1")),
                   "dict 4 %s=%s" % (e("q"), e("a b")), "pairs 5 l %s" % enc_typed_pairs([("ids", 1), ("ids", 2)]),
                   "data 6 %s" % enc_json({"a": 1}),
                   "req 2 get %s n n n E 0" % e("/items"), "req 3 post %s 4 j=6 n E 0" % e("/find"),
                   "req 3 get %s 5 n n E 0" % e("/find"), "req 2 get %s 4 n 4 E 0" % e("/items"),
                   "class 7 7 - %s=%s;%s=%s %s=%s=*/%s=%s=*/%s=n=*" % (
                       e("users"), e("/users-svc"), e("orders"), e("/orders-svc"), e("get_user"), e("users"),
                       e("get_order"), e("orders"), e("whoami")),
                   "caller 8 s=%s 7" % e("http://h"), "caller 9 s=%s 7" % e("http://h"),
                   "call 8 %s get %s n n n E 0" % (e("get_user"), e("/u/3")), "call 8 %s get %s n n n E 0" % (e("get_order"), e("/o/4")),
                   "call 8 %s get %s n n n E 0" % (e("whoami"), e("/me")), "call 9 %s get %s n n n E 0" % (e("whoami"), e("/me")),
                   "call 9 %s get %s n n n E 0" % (e("get_order"), e("/o/4")), "call 9 %s get %s n n n E 0" % (e("get_user"), e("/u/3"))]},
        # generator / coroutine wrappers (the body runs when the result is driven): driven by plain code, driven inside
        # a wrapper of another component, handed on by such a wrapper, through the shared helper / a helper generator,
        # a generator wrapper that drives a generator wrapper overridden in a subclass
        {"lines": ["class 1 1 - %s=%s;%s=%s %s" % (
                       e("users"), e("/users-srv"), e("stats"), e("/stats-srv"), enc_wrappers({
                           "iter_users": (["users"], None, "g"), "report": (["stats"], "iter_users", "d"),
                           "lazy": (["stats"], "iter_users", ""), "co": (["users"], "*", "a"),
                           "pages": (["users"], None, "y"), "totals": (["stats"], None, "y"),
                           "gen_report": (["stats"], "iter_users", "gd"), "aco": (None, "co", "ad")})),
                   "class 2 2;1 1 ~ %s" % enc_wrappers({"iter_users": (["stats"], None, "a")}),
                   "mk 3 s=%s o=t/%s T" % (e("http://srv:8080"), e("t0k3n")), "caller 4 c=3 1", "caller 5 c=3 2"] +
                  ["call %d %s get %s n n n %s 0" % (k, e(m), e("/list"), enc_json([1, 2]))
                   for k in (4, 5) for m in ("report", "iter_users", "lazy", "totals", "pages", "co", "gen_report", "aco", "report")]},
        # mix-ins with a same-named wrapper bound to different components; diamond where one branch overrides
        {"lines": ["class 1 1 - ~ %s=%s" % (e("status"), e("front")), "class 2 2 - ~ %s=%s" % (e("status"), e("back")),
                   "class 3 3;1;2 1;2 %s=%s;%s=%s -" % (e("front"), e("/front/api"), e("back"), e("/back")),
                   "class 4 4;2;1 2;1 %s=%s;%s=%s -" % (e("front"), e("/front/api"), e("back"), e("/back")),
                   "caller 5 s=%s 3" % e("http://h"), "caller 6 s=%s 4" % e("http://h"),
                   "call 5 %s get %s n n n E 0" % (e("status"), e("/s")), "call 6 %s get %s n n n E 0" % (e("status"), e("/s")),
                   "class 7 7 - %s=%s;%s=%s %s=%s" % (e("common"), e("/common"), e("front"), e("/front"), e("ping"), e("common")),
                   "class 8 8;7 7 ~ %s=%s" % (e("ping"), e("front")), "class 10 10;7 7 ~ -", "class 11 11;8;10;7 8;10 ~ -",
                   "caller 12 s=%s 11" % e("http://h"), "clone 13 12 n",
                   "call 12 %s get %s n n n E 0" % (e("ping"), e("/p")), "call 13 %s get %s n n n E 0" % (e("ping"), e("/p"))]},
    ]


def small_scope(rng, sample=None):
    """exhaustive small scope around the modelled constructs: base (three address forms) -> layer 1 -> layer 2
    (connection or clone of a caller), one interfering operation in between, one request through each"""
    e = enc_str
    bases = ["s=" + e("http://h"), "s=" + e("http://h/"), "a=%s=0" % e("http://h/")]
    owns = ["n", "o=p/" + e("/a"), "o=p/" + e("b/"), "o=x/" + e("1."), "o=b/%s/%s" % (e("u"), e("p")), "L", "o=k",
            "o=u/" + e("result"), "o=z"]
    resp = enc_json({"result": [0, ""], "n": 0})
    inter = ["", "add 1 x/" + e("8."), "add 1 p/" + e("/late"), "add 2 x/" + e("9."), "lappend 9 p/" + e("/m"),
             "add 2 t/" + e("tok"), "add 1 f"]
    paths = [e("/p"), e("p"), "-"]
    shapes = ["conn", "clone", "component"]
    for b in bases:
        for o1 in owns:
            for o2 in owns:
                for it in inter:
                    for pth in paths:
                        for shape in shapes:
                            if sample is not None and rng.random() > sample:
                                continue
                            lines = ["list 9 x/%s;p/%s" % (e("L."), e("/l/"))]
                            lines.append("mk 1 %s %s H" % (b, o1.replace("L", "l=9")))
                            if shape == "conn":
                                lines.append("mk 2 c=1 %s H" % o2.replace("L", "l=9"))
                            elif shape == "clone":
                                lines += ["class 7 7 - - %s=n" % e("m"), "caller 5 c=1 7",
                                          "clone 6 5 %s" % o2.replace("L", "l=9"), "connof 2 6"]
                            else:
                                lines += ["class 7 7 - %s=%s %s=%s" % (e("A"), e("/cmp"), e("m"), e("A")), "caller 5 c=1 7",
                                          "call 5 %s get %s n n n E 0" % (e("m"), pth), "cached 2 5 " + e("/cmp")]
                            if it:
                                lines.append(it)
                            lines += ["data 8 %s" % enc_json({"a": [1]}), "req 2 post %s n j=8 n %s 0" % (pth, resp),
                                      "req 1 get %s n n n %s 0" % (pth, enc_json([]))]
                            if shape == "component":
                                lines.append("call 5 %s get %s n n n %s 0" % (e("m"), pth, resp))
                            yield {"lines": lines, "meta": {"kinds": ["small-scope:" + shape]}}


def with_lastid(case):
    """the diagnostic line after every request (the oracle reads the exact url from it)"""
    out = []
    for l in case["lines"]:
        out.append(l)
        if l.startswith(("req ", "call ")):
            out.append("lastid")
    return dict(case, lines=out)


def gen_cases(rng, tier):
    n = 2500 if tier == "quick" else 60000
    for c in small_scope(rng, 0.025 if tier == "quick" else None):
        yield with_lastid(c)
    for i in range(n):
        steps = rng.randrange(3, 11) if i % 10 else rng.randrange(10, 25)
        yield gen_one(rng, steps, rich=(i % 3 == 0))


def search_cases(rng, tier):
    for c in small_scope(rng):
        yield with_lastid(c)
    for i in range(20000):
        yield gen_one(rng, rng.randrange(2, 7), rich=False)


# ------------------------------------------------------------------ shrinking
def _well_formed(lines):
    defined = {"list": set(), "dict": set(), "conn": set(), "caller": set(), "class": set(), "hdict": set(), "data": set()}

    def tgt(tok):
        t = tok.split("=")
        return t[0] != "c" or int(t[1]) in defined["conn"]

    def own(tok):
        t = tok.split("=")
        return t[0] != "l" or int(t[1]) in defined["list"]

    def args(f):
        return (f[2] == "n" or int(f[2]) in defined["dict"]) and (f[4] == "n" or int(f[4]) in defined["hdict"]) \
            and (not f[3].startswith("j=") or int(f[3][2:]) in defined["data"])
    for l in lines:
        f = l.split()
        op = f[0]
        if any(int(m) not in defined["conn"] for m in re.findall(r"N/(\d+)/", l)):
            return False          # a nesting adapter needs its target
        if op == "list":
            defined["list"].add(int(f[1]))
        elif op == "lappend":
            if int(f[1]) not in defined["list"]:
                return False
        elif op == "dict":
            defined["dict"].add(int(f[1]))
            defined["hdict"].add(int(f[1]))
        elif op == "pairs":
            defined["dict"].add(int(f[1]))
        elif op == "data":
            defined["data"].add(int(f[1]))
        elif op == "class":
            if f[3] != "-" and not all(int(b) in defined["class"] for b in f[3].split(";")):
                return False
            defined["class"].add(int(f[1]))
        elif op == "mk":
            if not (tgt(f[2]) and own(f[3])):
                return False
            defined["conn"].add(int(f[1]))
        elif op == "add":
            if int(f[1]) not in defined["conn"]:
                return False
        elif op == "caller":
            if not tgt(f[2]) or int(f[3]) not in defined["class"]:
                return False
            defined["caller"].add(int(f[1]))
        elif op == "clone":
            if int(f[2]) not in defined["caller"] or not own(f[3]):
                return False
            defined["caller"].add(int(f[1]))
        elif op in ("connof", "cached"):
            if int(f[2]) not in defined["caller"]:
                return False
            defined["conn"].add(int(f[1]))
        elif op == "call":
            if int(f[1]) not in defined["caller"] or not args(f[3:]):
                return False
        elif op == "req":
            if int(f[1]) not in defined["conn"] or not args(f[2:]):
                return False
    return True


def shrink(case):
    lines = case["lines"]
    for i in range(len(lines) - 1, -1, -1):
        cand = lines[:i] + lines[i + 1:]
        if cand and _well_formed(cand):
            yield {"lines": cand, "meta": case.get("meta", {})}
    for i, l in enumerate(lines):
        f = l.split()
        if f[0] == "class" and f[5] != "-":
            # an ordinary body instead of a generator / coroutine / driving one
            ws = f[5].split("/")
            for j, w in enumerate(ws):
                g = w.split("=")
                if len(g) == 4:
                    g = g[:3] if g[2] != "." else g[:2]
                    yield {"lines": lines[:i] + [" ".join(f[:5] + ["/".join(ws[:j] + ["=".join(g)] + ws[j + 1:])])] +
                           lines[i + 1:], "meta": case.get("meta", {})}
        if f[0] in ("req", "call"):
            k = 2 if f[0] == "req" else 3
            for j, repl in ((k + 2, "n"), (k + 3, "n"), (k + 4, "n"), (k, "get"), (k + 5, "E"), (k + 6, "0")):
                if f[j] != repl:
                    g = list(f)
                    g[j] = repl
                    yield {"lines": lines[:i] + [" ".join(g)] + lines[i + 1:], "meta": case.get("meta", {})}


# ------------------------------------------------------------------ metadata
def nontrivial(case, replies):
    """at least one request went through a derived connection (a chain of two or more layers)"""
    derived = any(l.startswith(("clone", "call")) or (l.startswith("mk") and " c=" in l) for l in case["lines"])
    return derived and any(r.startswith("ok u=") for r in replies)


def tags(case, replies):
    for k in case.get("meta", {}).get("kinds", []):
        yield k
    yield "steps:%02d" % min(len([l for l in case["lines"] if not l.startswith(("dict", "list", "lastid", "pairs", "class"))]), 30)
    for r in replies:
        if r.startswith("err"):
            yield "reply:" + " ".join(r.split()[:2])
    if case.get("meta", {}).get("corpus"):
        yield "corpus"


def observable(i, line):
    """everything except the request-id facts (presence / value of the id header, the counter's number): those
    belong to C16 and depend on conn_impl sharing and on when the id is taken; they are compared as diagnostics"""
    return not line.startswith("lastid")


RULE = ("operation histories (3-10 steps, every tenth 10-24) over HttpConn / BAuthConn / ClientAuthConn / TokenAuthConn on "
        "str / list / dict addresses, prefix / auth / tracing adapters and response processors with real transformations "
        "(unwrap, len, filter, nullify, raising), adapters that send a nested request through a sibling / parent "
        "connection (first use only / every time, request / response side) and adapters that rebind req_args.params / .data / .headers, given singly or as (re-used, later mutated) lists, add_adapter on any "
        "layer, MCallerHttp subclasses (single, chains that override wrappers / the prefix map, mix-ins and diamonds with "
        "same-named wrappers bound to different components, wrappers whose body calls another wrapper, wrappers that reach get_conn() through a shared helper; in a third of "
        "the classes wrappers written as generator functions (plain / delegating to a shared helper generator) or coroutine "
        "functions, whose body runs when the result is driven - by plain code, inside a wrapper of another component that "
        "drives it, or after such a wrapper handed it on), a fifth of the "
        "histories with the package's logger at DEBUG, clone with nothing / one adapter / a list, component calls "
        "through the prefix cache, params as str dicts / dicts with non-str values / lists and tuples of pairs with repeated "
        "keys, requests with every verb and raw do_request methods, str / bytes / json bodies, caller header and "
        "parameter dicts (re-used between requests), response bodies that make processors return empty / falsy values, "
        "raw_response; plus an exhaustive small scope (15k histories; 2.5% sampled in quick). non-trivial = a request "
        "succeeded in a history that derives at least one connection; distinct by protocol text")
TRUSTED = ["urllib.request.Request (header name capitalisation, full_url), urllib.parse.urlencode, json.loads of the "
           "fake response, base64 (json.dumps of bodies and base64 are modelled and compared byte for byte)",
           "the harness adapters (tracing, response processors) and the caller classes built by harness/c17.py from the "
           "repository's base classes"]
ASSUMPTIONS = ["header names and methods are ASCII (str.upper/lower/capitalize modelled for ASCII only; Unicode case "
               "mapping tables are not modelled)",
               "python asserts are enabled (no -O)",
               "adapters= is None, one adapter or a list (tuples are outside the statement and raise TypeError)",
               "structured bodies and responses are json values without floats",
               "which component a same-named wrapper resolves to when a later base overrides what an earlier base merely "
               "inherits is outside the property (not judged by the oracle, tied to the model only)"]

THEOREMS = [
    "C17.reachable_inv", "C17.view_defined", "C17.request_uses_chain", "C17.derive_chain", "C17.base_chain",
    "C17.add_chain", "C17.chain_once", "C17.prefix_outermost", "C17.prefix_join", "C17.auth_once", "C17.auth_none",
    "C17.auth_accepts", "C17.auth_refused", "C17.auth_decodes", "C17.auth_decodes_b64", "C17.literals", "C17.url",
    "C17.url_one_slash", "C17.params_all_pairs", "C17.method", "C17.body", "C17.dumps_shape", "C17.response_chain",
    "C17.rebinding_adapters", "C17.request_uses_rebound", "C17.request_response", "C17.nested_outer_unaffected",
    "C17.exception_propagates", "C17.frame", "C17.frame_reachable", "C17.chain_stable", "C17.aliasing_facts",
    "C17.caller_unchanged", "C17.clone_list", "C17.get_conn_cached", "C17.get_conn_first", "C17.call_component",
    "C17.frame_meta_innermost", "C17.deferred_body_own_component", "C17.call_component_innermost",
    "C17.nested_call_innermost", "C17.metas_first_base", "C17.caller_pmap",
]

LEVEL_TEXT = ("Kernel-checked for all heaps/histories/arguments on a heap model of conn_http/mcaller_http (explicit "
              "references for adapter lists, every dict object incl. RequestArguments.headers, conn_impl, connections, "
              "callers): reachable heaps keep all adapter lists separate and caller dicts textual (reachable_inv); a derived "
              "connection applies own adapters then the parent's snapshot, each once and in order, inner prefixes outermost "
              "(derive_chain, chain_once, prefix_outermost, chain_stable); the returned value is the fold of the response "
              "processors in reverse order over the decoded response, empty/falsy results passed on (response_chain, "
              "request_response); adapter exceptions reach the caller, a refusal sends nothing and consumes no id "
              "(exception_propagates); exactly one Authorization header with the authenticating layer's value, decoding to "
              "the credentials for any base64 with a decode law and for the encoder the driver runs (auth_*); url / method / "
              "body by type with json.dumps and bool(data) modelled, exactly one '/' between address and path in normal form "
              "(url, url_one_slash, method, body, dumps_shape); frame: no history "
              "without add_adapter on c changes any request through c (frame); adapters and do_request write only to the "
              "fresh header object, no existing dict is ever written, structured data objects are only read, caller lists only by "
              "the caller (caller_unchanged, aliasing_facts); "
              "clone with nothing / one adapter / a list (clone_list); prefix cache (get_conn_*); params read as an association "
              "list, every pair kept in order (params_all_pairs); a wrapper call uses the components of the class's metas "
              "table, which is own-wins-else-first-base (call_component, metas_first_base, caller_pmap); the calling wrapper "
              "is found on an explicit model of Python's frame stack (names, innermost first; ordinary bodies run inside "
              "the logging decorator, generator / coroutine bodies run on the stack of whoever drives them, helper frames "
              "on top): the walk stops at the innermost frame named like a wrapper whatever lies outside it "
              "(frame_meta_innermost), the body of a wrapper that makes its request itself gets its own component on top "
              "of any frames (deferred_body_own_component), and every wrapper call - any mix of ordinary / generator / "
              "coroutine bodies, handing on or driving, helpers - ends in the entry of the wrapper whose body makes the "
              "request and is never left undriven (call_component_innermost, nested_call_innermost). Model = code by "
              "differential runs of operation histories with urllib's opener captured; independent oracle re-states every "
              "clause on the real Requests / returned values and re-issues a probe through every connection after every "
              "operation.")
LEVEL_NOTE = ("The aliasing structure of the model (a new dict object for RequestArguments.headers per request, a new adapter "
              "list per connection, structured data objects only read) is hand-written and tied to the code by the "
              "correspondence; the two facts it rests on (`headers.copy() if headers else {}`, `own_adapters + "
              "parent_conn.adapters`) are re-read from the source by the translator on every run and re-decided "
              "(aliasing_facts) - a weaker link than C16's bytecode reading. Observation, outside the property: _MCALLERS_METAS is merged per direct base (first base first), not along the "
              "MRO; when a later base overrides a wrapper that an earlier base merely inherits, get_conn() uses the "
              "inherited wrapper's component. The model follows the code (metas_first_base); the oracle judges component "
              "selection only where first-base-wins and the MRO agree; the differing shape is compared with the model only "
              "(tag class:shadowed-override(not judged)). Diagnostic only (compared, never part of the verdict): the request-id header and the number taken from the id "
              "counter (C16's property; they depend on conn_impl sharing and on when the id is taken), and the exact number "
              "of '/' at the joints of the url in the tie (the observable line has runs of '/' collapsed); the oracle judges "
              "the url character by character - exactly one '/' between address and path - where address and path are in "
              "normal form, and leaves only the prefix-to-prefix joints and non-normal inputs lenient. Correspondence only (not "
              "theorems): that the Python classes behave as the model on histories not "
              "generated; json.loads of the response enters the model as a parsed value; header-name case functions are "
              "ASCII. Literals (header names, 'Basic ', 'Bearer ', default methods) are regenerated from the source on "
              "every run. HTTPError responses and logging are not modelled (not part of the statement). "
              "Frame stack of wrapper calls: frames are names only (as get_mcaller_meta sees them); the theorems assume that "
              "get_conn and the helper functions are not themselves names of wrappers; plain code is modelled as frames not "
              "named like a wrapper. A generator / coroutine wrapper's result is always driven within the same `call` "
              "operation (by plain code, or inside / after another wrapper): keeping an undriven object across other "
              "operations of the history, generators advanced more than once, and real event loops are not issued.")
TECHNIQUE = ("Lean 4 heap model with separation invariant + frame lemmas + refinement of the header-object loop to a "
             "pure loop; translator for literals; stateful correspondence driver; declarative layering oracle with probe "
             "re-issue")
