"""C08 — colored text behaves exactly like the underlying string (ak/color.py: CHText, CHText.Chunk).

A case is one protocol line holding an operation tree in postfix form (see lean/Drv/C08.lean):

    val <prog>            the object the tree evaluates to (len(), chunks, plain_text(), str() as cells)
    fmt <spec> <prog>     format(x, spec) as screen cells
    fmtv <via> <spec> <prog>  the same through another entry point (VIAS: x.__format__(spec), f-strings with a nested /
                          a literal spec, str.format with a nested / a literal spec, format_map)
    eq <prog> <prog>      a == b, b == a, a != b
    alias <n> <x> <b>     u = x.fixed_len(n); u += b  -> x and u (x must not change)
    make <chunks>         CHText.make([chunks])      resize <n> <chunks>   CHText.resize_chunks_list([chunks], n)
    hist <stmt> ; ...     a history over several objects o0, o1, ...: every object is dumped (and re-rendered)
                          after every statement
    pyslice / pyidx       Python's own s[i:j] / s[i]  (ties the specification functions to CPython)

Trees (python side): ("s", text) ("c", col, text) ("ls"|"tp", [items]) ("mk", [args]) ("add", a, b)
("iadd", a, b) ("join", "l"|"t", sep, [items]) ("idx", a, i) ("sl", a, i, j) ("fl", a, n) ("it", a) = list(a)
("dupiadd", a) = `x = a; x += x`  ("dupiaddl", a) = `x = a; x += [x]`.
"""
import ast
import os
import re
import sys

from harness.core import enc_str, dec_str

PROPERTY = "C08"
READY = True
THEOREMS = [
    "C08.pySlice_spec",
    "C08.pySlice_cases",
    "C08.pyIndex_spec",
    "C08.canon",
    "C08.len",
    "C08.canon_repr",
    "C08.iadd_cells",
    "C08.construct_cells",
    "C08.add_cells",
    "C08.self_iadd",
    "C08.join_cells",
    "C08.slice_cells",
    "C08.index_cells",
    "C08.index_after_append",
    "C08.fixedLen_cells",
    "C08.chunk_ops_cells",
    "C08.format_cells",
    "C08.format_plain",
    "C08.format_width",
    "C08.format_fill",
    "C08.iter_cells",
    "C08.eq_iff",
    "C08.eq_str_iff",
    "C08.eq_chunk_iff",
    "C08.chunk_eq_iff",
    "C08.eval_refines",
    "C08.reachable_canon",
    "C08.eq_parts",
    "C08.eval_observe",
    "C08.str_shows",
    "C08.palette_exists",
    "C08.eq_not_by_rendering",
    "C08.format_str_strip",
    "C08.make_spec",
    "C08.resize_spec",
    "C08.hist_step",
    "C08.hist_run",
    "C08.hist_self_twice",
]

# steps allowed to one `x += x` before it is reported as non-terminating (pre-fix trees loop forever)
ALIAS_BUDGET = 20000

ESC = "\033"

# ------------------------------------------------------------------ translator
def _method(cls, name):
    for n in cls.body:
        if isinstance(n, ast.FunctionDef) and n.name == name:
            return n
    raise ValueError("method %s.%s not found" % (cls.name, name))


def _one(values, what):
    vals = set(values)
    if len(vals) != 1:
        raise ValueError("%s: expected exactly one value, found %r" % (what, sorted(vals)))
    return vals.pop()


def _is_char(x):
    return isinstance(x, ast.Constant) and isinstance(x.value, str) and len(x.value) == 1


def translate(repo):
    """constants of CHText.__format__ / fixed_len: align characters, defaults, type character, pad"""
    tree = ast.parse(open(os.path.join(repo, "ak", "color.py")).read())
    classes = {n.name: n for n in tree.body if isinstance(n, ast.ClassDef)}
    fmt = _method(classes["CHText"], "__format__")
    tuples, default_align, type_chars, default_fill, fill_pos, cmp_align = [], [], [], [], [], []
    for n in ast.walk(fmt):
        if isinstance(n, ast.Tuple) and n.elts and all(_is_char(e) for e in n.elts):
            tuples.append(tuple(e.value for e in n.elts))
        if isinstance(n, ast.Assign) and len(n.targets) == 1 and isinstance(n.targets[0], ast.Name):
            if n.targets[0].id == "align_char" and _is_char(n.value):
                default_align.append(n.value.value)
            if n.targets[0].id == "filler_ch" and isinstance(n.value, ast.IfExp) and _is_char(n.value.orelse):
                default_fill.append(n.value.orelse.value)
                t = n.value.test
                if isinstance(t, ast.Compare) and len(t.ops) == 1 and isinstance(t.ops[0], ast.Eq) and \
                        isinstance(t.comparators[0], ast.Constant):
                    fill_pos.append(t.comparators[0].value)
        if isinstance(n, ast.Compare) and isinstance(n.left, ast.Name) and len(n.ops) == 1 and _is_char(n.comparators[0]):
            if n.left.id == "last_ch" and isinstance(n.ops[0], ast.NotEq):
                type_chars.append(n.comparators[0].value)
            if n.left.id == "align_char" and isinstance(n.ops[0], ast.Eq):
                cmp_align.append(n.comparators[0].value)
    aligns = _one([tuple(sorted(t)) for t in tuples], "align character tuples of __format__")
    if _one(fill_pos, "position of the align character that makes the first character the fill") != 1:
        raise ValueError("fill is no longer taken when the align character is at position 1")
    if len(cmp_align) != 2:
        raise ValueError("expected two comparisons align_char == <char> (left, right), found %r" % (cmp_align,))
    pads = []
    for cls, meth in (("CHText", "fixed_len"), ("_CHTextChunk", "fixed_len"), ("CHText", "resize_chunks_list")):
        found = [n.left.value for n in ast.walk(_method(classes[cls], meth))
                 if isinstance(n, ast.BinOp) and isinstance(n.op, ast.Mult) and _is_char(n.left)]
        if not found:
            raise ValueError("no '<char> * n' padding in %s.%s" % (cls, meth))
        pads += found
    consts = {
        "alignChars": None,
        "defaultAlign": _one(default_align, "default align"),
        "leftAlign": cmp_align[0],
        "rightAlign": cmp_align[1],
        "typeChar": _one(type_chars, "format type character"),
        "defaultFill": _one(default_fill, "default fill"),
        "padChar": _one(pads, "pad character of fixed_len"),
    }
    out = ["-- GENERATED by harness/c08.py:translate from /repo/ak/color.py (CHText.__format__, fixed_len) -- do not edit",
           "namespace Gen.C08",
           "/-- the characters `__format__` takes for an align character (sorted) -/",
           "def alignChars : List Char := [%s]" % ", ".join("Char.ofNat %d" % ord(c) for c in aligns)]
    doc = {"defaultAlign": "align of a spec without align character", "leftAlign": "`align_char == ...`: pad on the right",
           "rightAlign": "`align_char == ...`: pad on the left (any other align character centres)",
           "typeChar": "the only format type accepted", "defaultFill": "fill of a spec without fill character",
           "padChar": "`fixed_len` pads with this character"}
    for k, v in consts.items():
        if v is not None:
            out += ["/-- %s -/" % doc[k], "def %s : Char := Char.ofNat %d" % (k, ord(v))]
    out += ["end Gen.C08", ""]
    return {"AkVerif/Gen/C08.lean": "\n".join(out)}


# ------------------------------------------------------------------ colours
# palette index = colour id of the protocol; 0 is the plain chunk.
PALETTE = [
    (None, {}),
    ("RED", {}),
    ("GREEN", {}),
    ("RED", {"bold": True}),
    (123, {}),
    ("BLUE", {"bg_color": "g5", "underline": True}),
]
_FMTS = None


def _color():
    from ak import color
    return color


def _fmts():
    """[(ColorFmt, prefix, suffix)] of the palette, built from the real code once per process"""
    global _FMTS
    if _FMTS is None:
        col = _color()
        out = []
        for c, kw in PALETTE:
            f = col.ColorFmt(c, **kw)
            ch = f("x")
            out.append((f, ch.c_prefix, ch.c_suffix))
        _FMTS = out
    return _FMTS


def _col_id(prefix, suffix):
    for i, (_, p, s) in enumerate(_fmts()):
        if p == prefix and s == suffix:
            return str(i)
    return "?"


def _make_chunk(colid, text):
    col = _color()
    if colid == 0:
        k = sum(map(ord, text)) % 3      # three public ways to a plain chunk, chosen by the text
        if k == 0:
            return col.ColorFmt.get_plaintext_fmt()(text)
        if k == 1:
            return col.ColorFmt("RED", no_color=True)(text)
        return col.CHText.Chunk.make_plain(text)
    return _fmts()[colid][0](text)


def _cells_of_str(s):
    """screen cells [(char, colour id)] of a string with colour sequences; None if it has a sequence
    that is not one of the palette's"""
    seqs = sorted(((p, str(i)) for i, (_, p, _s) in enumerate(_fmts()) if p), key=lambda x: -len(x[0]))
    resets = set(sfx for (_, _p, sfx) in _fmts() if sfx)
    out, cur, i = [], "0", 0
    while i < len(s):
        if s[i] == ESC:
            for p, cid in seqs:
                if s.startswith(p, i):
                    cur, i = cid, i + len(p)
                    break
            else:
                for r in resets:
                    if s.startswith(r, i):
                        cur, i = "0", i + len(r)
                        break
                else:
                    return None
        else:
            out.append((s[i], cur))
            i += 1
    return out


def _rle(toks):
    """reply tokens, run-length encoded (`tok*count` for runs of 4 or more) exactly as lean/Drv/C08.lean does"""
    out, i, n = [], 0, len(toks)
    while i < n:
        j = i
        while j < n and toks[j] == toks[i]:
            j += 1
        if j - i >= 4:
            out.append("%s*%d" % (toks[i], j - i))
        else:
            out.extend(toks[i:j])
        i = j
    return ",".join(out) if out else "-"


def _enc_r(s):
    return _rle([str(ord(c)) for c in s])


def _enc_cells(cells, plain=None):
    if plain is not None and ESC in plain:
        return "~"          # str() of content that holds ESC itself cannot be read back into cells (both sides print ~)
    if cells is None:
        return "?"
    return _rle(["%d.%s" % (ord(c), k) for c, k in cells])


# sizes around the places where a pre-built buffer, a small-int cache or a 16-bit counter would end
SIZES = [255, 256, 1023, 1024, 1025, 1100, 5000, 70000]


# ------------------------------------------------------------------ trees <-> postfix
def _oi(x):
    return "n" if x is None else str(x)


def postfix(t):
    k = t[0]
    if k == "s":
        return ["s:" + enc_str(t[1])]
    if k == "c":
        return ["c:%d:%s" % (t[1], enc_str(t[2]))]
    if k in ("ls", "tp", "mk"):
        return [x for it in t[1] for x in postfix(it)] + ["%s:%d" % (k, len(t[1]))]
    if k in ("add", "iadd"):
        return postfix(t[1]) + postfix(t[2]) + [k]
    if k == "join":
        return postfix(t[2]) + [x for it in t[3] for x in postfix(it)] + ["join:%s:%d" % (t[1], len(t[3]))]
    if k == "idx":
        return postfix(t[1]) + ["idx:%d" % t[2]]
    if k == "sl":
        return postfix(t[1]) + ["sl:%s:%s" % (_oi(t[2]), _oi(t[3]))]
    if k == "fl":
        return postfix(t[1]) + ["fl:%d" % t[2]]
    if k == "it":
        return postfix(t[1]) + ["iter"]
    if k in ("joinit", "joinfor"):
        return postfix(t[1]) + postfix(t[2]) + ["joinit"]
    if k in ("dupiadd", "dupiaddl"):
        return postfix(t[1]) + [k]
    raise ValueError(k)


def _pi(x):
    return None if x == "n" else int(x)


def parse_postfix(toks):
    st = []
    for tok in toks:
        f = tok.split(":")
        k = f[0]
        if k == "s":
            st.append(("s", dec_str(f[1])))
        elif k == "c":
            st.append(("c", int(f[1]), dec_str(f[2])))
        elif k in ("ls", "tp", "mk"):
            n = int(f[1])
            items = st[len(st) - n:]
            del st[len(st) - n:]
            st.append((k, items))
        elif k in ("add", "iadd"):
            b = st.pop()
            a = st.pop()
            st.append((k, a, b))
        elif k == "join":
            n = int(f[2])
            items = st[len(st) - n:]
            del st[len(st) - n:]
            sep = st.pop()
            st.append(("join", f[1], sep, items))
        elif k == "idx":
            st.append(("idx", st.pop(), int(f[1])))
        elif k == "sl":
            st.append(("sl", st.pop(), _pi(f[1]), _pi(f[2])))
        elif k == "fl":
            st.append(("fl", st.pop(), int(f[1])))
        elif k == "iter":
            st.append(("it", st.pop()))
        elif k == "joinit":
            a = st.pop()
            st.append(("joinit", st.pop(), a))
        elif k in ("dupiadd", "dupiaddl"):
            st.append((k, st.pop()))
        else:
            raise ValueError(tok)
    return st


def line_of(kind, trees, spec=None, via=None):
    toks = [x for t in trees for x in postfix(t)]
    if kind == "fmt":
        if via is not None and via != "fn":
            return "fmtv %s %s %s" % (via, enc_str(spec), " ".join(toks))
        return "fmt %s %s" % (enc_str(spec), " ".join(toks))
    if kind == "alias":
        return "alias %d %s" % (spec, " ".join(toks))
    return kind + " " + " ".join(toks)


def parse_line(line):
    """-> (kind, [trees], spec)"""
    f = line.split()
    if f[0] == "fmt":
        return "fmt", parse_postfix(f[2:]), dec_str(f[1])
    if f[0] == "fmtv":
        return "fmt", parse_postfix(f[3:]), dec_str(f[2])
    if f[0] == "hist":
        return "hist", [], None
    if f[0] == "make":
        return "make", [("c", int(t.split(":")[1]), dec_str(t.split(":")[2])) for t in f[1:]], None
    if f[0] == "resize":
        return "resize", [("c", int(t.split(":")[1]), dec_str(t.split(":")[2])) for t in f[2:]], int(f[1])
    if f[0] == "alias":
        return "alias", parse_postfix(f[2:]), int(f[1])
    if f[0] in ("val", "eq"):
        return f[0], parse_postfix(f[1:]), None
    return f[0], f[1:], None


# ------------------------------------------------------------------ real code
class _Budget(Exception):
    pass


def _with_budget(fn, steps=None):
    """runs fn() under a call/line budget (only around `x += x`: a loop shows up as `_Budget`)"""
    steps = steps or ALIAS_BUDGET
    n = [0]

    def tr(frame, event, arg):
        n[0] += 1
        if n[0] > steps:
            raise _Budget()
        return tr
    old = sys.gettrace()
    sys.settrace(tr)
    try:
        return fn()
    finally:
        sys.settrace(old)


def _self_iadd(x, in_list):
    def go():
        y = x
        if in_list:
            y += [y]
        else:
            y += y
        return y
    return _with_budget(go, ALIAS_BUDGET + 100 * len(getattr(x, "chunks", ())))     # a long text legitimately takes longer


# entry points of formatting: all of them hand the spec to type(x).__format__
VIAS = ["fn", "dm", "fs", "fl", "sf", "sl", "fm"]


def via_of(line):
    """entry point of a fmt / fmtv line"""
    return line.split(None, 2)[1] if line.startswith("fmtv ") else "fn"


def _literal_ok(spec):
    """the spec can be written literally into an f-string / a str.format template (no braces, quotes,
    backslashes, line ends or other unprintable characters)"""
    return all(ch.isprintable() and ch not in '{}"\\' for ch in spec)


def do_format(x, spec, via):
    if via == "fn":
        return format(x, spec)
    if via == "dm":
        return x.__format__(spec)
    if via == "fl" and _literal_ok(spec):
        return eval('f"{x:' + spec + '}"', {"x": x})          # a real f-string with the spec written in it
    if via in ("fs", "fl"):
        return f"{x:{spec}}"
    if via == "sl" and _literal_ok(spec):
        return ("{:" + spec + "}").format(x)
    if via in ("sf", "sl"):
        return "{:{}}".format(x, spec)
    if via == "fm":
        return "{v:{w}}".format_map({"v": x, "w": spec})
    raise ValueError(via)


def ev_real(t):
    """evaluates a tree on the real classes"""
    col = _color()
    k = t[0]
    if k == "s":
        return t[1]
    if k == "c":
        return _make_chunk(t[1], t[2])
    if k == "ls":
        return [ev_real(x) for x in t[1]]
    if k == "tp":
        return tuple(ev_real(x) for x in t[1])
    if k == "mk":
        return col.CHText(*[ev_real(x) for x in t[1]])
    if k == "add":
        a = ev_real(t[1])
        b = ev_real(t[2])
        return a + b
    if k == "iadd":
        x = ev_real(t[1])
        b = ev_real(t[2])
        x += b
        return x
    if k == "join":
        sep = ev_real(t[2])
        items = [ev_real(x) for x in t[3]]
        return sep.join(items if t[1] == "l" else tuple(items))
    if k == "idx":
        return ev_real(t[1])[t[2]]
    if k == "sl":
        return ev_real(t[1])[t[2]:t[3]]
    if k == "fl":
        return ev_real(t[1]).fixed_len(t[2])
    if k == "it":
        return list(ev_real(t[1]))
    if k == "joinit":
        sep = ev_real(t[1])
        return sep.join(ev_real(t[2]))
    if k in ("dupiadd", "dupiaddl"):
        return _self_iadd(ev_real(t[1]), k == "dupiaddl")
    raise ValueError(k)


def show_real(obj):
    col = _color()
    if isinstance(obj, col.CHText):
        chunks = "/".join("%s:%s" % (_col_id(c.c_prefix, c.c_suffix), _enc_r(c.text)) for c in obj.chunks) or "-"
        content = "".join(c.text for c in obj.chunks)
        return "T %d %s P %s X %s" % (len(obj), chunks, _enc_r(obj.plain_text()),
                                      _enc_cells(_cells_of_str(str(obj)), content))
    if isinstance(obj, col.CHText.Chunk):
        return "C %s:%s L %d P %s X %s" % (_col_id(obj.c_prefix, obj.c_suffix), _enc_r(obj.text), len(obj),
                                          _enc_r(obj.plain_text()), _enc_cells(_cells_of_str(str(obj)), obj.text))
    if isinstance(obj, str):
        return "S " + _enc_r(obj)
    if isinstance(obj, (list, tuple)):
        return ("TP(" if isinstance(obj, tuple) else "LS(") + "".join(show_real(x) + ";" for x in obj) + ")"
    return "?? " + type(obj).__name__


def _err(e):
    if isinstance(e, _Budget):
        return "err NonTermination"
    return "err " + type(e).__name__


def impl(case):
    out = []
    for line in case["lines"]:
        try:
            kind, trees, spec = parse_line(line)
            if kind == "val":
                out.append(show_real(ev_real(trees[0])))
            elif kind == "fmt":
                s = do_format(ev_real(trees[0]), spec, via_of(line))
                out.append("F " + _enc_cells(_cells_of_str(s)) if isinstance(s, str) else "?? " + type(s).__name__)
            elif kind == "eq":
                a = ev_real(trees[0])
                b = ev_real(trees[1])
                out.append("B %d %d %d" % (bool(a == b), bool(b == a), bool(a != b)))
            elif kind == "alias":
                x = ev_real(trees[0])
                b = ev_real(trees[1])
                u = x.fixed_len(spec)
                u += b
                out.append(show_real(x) + " | " + show_real(u))
            elif kind == "hist":
                out.append(impl_hist(line))
            elif kind == "make":
                out.append(show_real(_color().CHText.make([_make_chunk(c, t) for _, c, t in trees])))
            elif kind == "resize":
                CH = _color().CHText
                r = CH.resize_chunks_list([_make_chunk(c, t) for _, c, t in trees], spec)
                chunks = "/".join("%s:%s" % (_col_id(c.c_prefix, c.c_suffix), _enc_r(c.text)) for c in r) or "-"
                out.append("ok CS %s L %d" % (chunks, CH.calc_chunks_len(r)))
            elif kind == "pyslice":
                out.append("S " + _enc_r(dec_str(trees[0])[_pi(trees[1]):_pi(trees[2])]))
            elif kind == "pyidx":
                out.append("ok " + enc_str(dec_str(trees[0])[int(trees[1])]))
            else:
                out.append("bad-op")
        except Exception as e:
            out.append(_err(e))
    return out


# ------------------------------------------------------------------ reference: plain str and list operations
class Ref:
    """what the same operations give on a plain `str` (attribute `plain`, computed with str's own
    operators) and, in parallel, on the list of colour ids of the characters (`cols`)"""
    __slots__ = ("kind", "plain", "cols", "col", "items")

    def __init__(self, kind, plain="", cols=(), col=0, items=None):
        self.kind, self.plain, self.cols, self.col, self.items = kind, plain, list(cols), col, items

    def cells(self):
        return list(zip(self.plain, [str(c) for c in self.cols]))


def _flat(r):
    if r.kind in ("ls", "tp"):
        p, c = "", []
        for it in r.items:
            fp, fc = _flat(it)
            p = p + fp
            c = c + fc
        return p, c
    return r.plain, r.cols


class OutOfModel(Exception):
    """operand types the property / the model do not speak about"""


def ref_step(t, kids):
    """reference value of node t from the reference values of its children"""
    k = t[0]
    if k == "s":
        return Ref("s", t[1], [0] * len(t[1]))
    if k == "c":
        return Ref("c", t[2], [t[1]] * len(t[2]), col=t[1])
    if k in ("ls", "tp"):
        return Ref(k, items=kids)
    if k == "mk":
        p, c = _flat(Ref("ls", items=kids))
        return Ref("t", p, c)
    if k in ("add", "iadd"):
        a, b = kids
        ok = a.kind in ("t", "c") or (a.kind == "s" and b.kind in ("t", "c")) or \
            (k == "add" and a.kind in ("ls", "tp") and b.kind in ("t", "c"))
        if not ok:
            raise OutOfModel()
        (ap, ac), (bp, bc) = _flat(a), _flat(b)
        return Ref("t", ap + bp, ac + bc)
    if k == "join":
        sep, items = kids[0], kids[1:]
        if sep.kind not in ("t", "c"):
            raise OutOfModel()
        fl = [_flat(it) for it in items]
        cols = []
        for n, (_, c) in enumerate(fl):
            if n:
                cols = cols + sep.cols
            cols = cols + c
        return Ref("t", sep.plain.join([p for p, _ in fl]), cols)
    if k == "idx":
        a = kids[0]
        if a.kind not in ("t", "c"):
            raise OutOfModel()
        return Ref(a.kind, a.plain[t[2]], [a.cols[t[2]]], col=a.col)
    if k == "sl":
        a = kids[0]
        if a.kind not in ("t", "c"):
            raise OutOfModel()
        return Ref(a.kind, a.plain[t[2]:t[3]], a.cols[t[2]:t[3]], col=a.col)
    if k == "fl":
        a, n = kids[0], t[2]
        if a.kind not in ("t", "c") or n < 0:
            raise OutOfModel()
        return Ref("t", a.plain[:n].ljust(n), a.cols[:n] + [0] * (n - len(a.cols)))
    if k == "it":
        a = kids[0]
        if a.kind not in ("t", "c"):
            raise OutOfModel()
        return Ref("ls", items=[Ref(a.kind, ch, [c], col=a.col) for ch, c in zip(list(a.plain), a.cols)])
    if k == "joinit":
        sep, a = kids
        if sep.kind not in ("t", "c") or a.kind not in ("t", "c"):
            raise OutOfModel()
        cols = []
        for n, c in enumerate(a.cols):
            if n:
                cols = cols + sep.cols
            cols = cols + [c]
        return Ref("t", sep.plain.join(a.plain), cols)          # str.join over a str: one item per character
    if k in ("dupiadd", "dupiaddl"):
        a = kids[0]                       # s = a; s += s   /  the list [s] holds the same characters
        if a.kind not in ("t", "c"):
            raise OutOfModel()
        return Ref("t", a.plain + a.plain, a.cols + a.cols)
    raise ValueError(k)


def kids_of(t):
    k = t[0]
    if k in ("s", "c"):
        return []
    if k in ("ls", "tp", "mk"):
        return list(t[1])
    if k in ("add", "iadd", "joinit"):
        return [t[1], t[2]]
    if k == "join":
        return [t[2]] + list(t[3])
    return [t[1]]


def with_kids(t, kids):
    k = t[0]
    if k in ("s", "c"):
        return t
    if k in ("ls", "tp", "mk"):
        return (k, list(kids))
    if k in ("add", "iadd", "joinit"):
        return (k, kids[0], kids[1])
    if k == "join":
        return ("join", t[1], kids[0], list(kids[1:]))
    return (k, kids[0]) + tuple(t[2:])


def ev_ref(t):
    return ref_step(t, [ev_ref(x) for x in kids_of(t)])


# ------------------------------------------------------------------ histories
# statements: ("new", [parts]) ("iadd", id, part) ("add", id, part) ("radd", id, part) ("join", id, [parts])
#             ("sl", id, i, j) ("idx", id, i) ("fl", id, n);  parts: ("s", text) ("c", col, text) ("o", id)
#             ("ls"|"tp", [parts])
def _part_toks(p):
    k = p[0]
    if k == "s":
        return ["s:" + enc_str(p[1])]
    if k == "c":
        return ["c:%d:%s" % (p[1], enc_str(p[2]))]
    if k == "o":
        return ["o:%d" % p[1]]
    return [x for it in p[1] for x in _part_toks(it)] + ["%s:%d" % (k, len(p[1]))]


def _stmt_toks(st):
    k = st[0]
    if k == "new":
        return ["new"] + [x for p in st[1] for x in _part_toks(p)]
    if k in ("iadd", "add", "radd"):
        return ["%s:%d" % (k, st[1])] + _part_toks(st[2])
    if k == "join":
        return ["join:%d" % st[1]] + [x for p in st[2] for x in _part_toks(p)]
    if k == "sl":
        return ["sl:%d:%s:%s" % (st[1], _oi(st[2]), _oi(st[3]))]
    if k == "idx":
        return ["idx:%d:%d" % (st[1], st[2])]
    if k == "fl":
        return ["fl:%d:%d" % (st[1], st[2])]
    raise ValueError(k)


def hist_line(stmts):
    return "hist " + " ; ".join(" ".join(_stmt_toks(st)) for st in stmts)


def _parse_parts(toks):
    st = []
    for tok in toks:
        f = tok.split(":")
        if f[0] == "s":
            st.append(("s", dec_str(f[1])))
        elif f[0] == "c":
            st.append(("c", int(f[1]), dec_str(f[2])))
        elif f[0] == "o":
            st.append(("o", int(f[1])))
        elif f[0] in ("ls", "tp"):
            n = int(f[1])
            items = st[len(st) - n:]
            del st[len(st) - n:]
            st.append((f[0], items))
        else:
            raise ValueError(tok)
    return st


def parse_hist(line):
    out = []
    for chunk in line[len("hist "):].split(" ; "):
        toks = chunk.split()
        f = toks[0].split(":")
        parts = _parse_parts(toks[1:])
        k = f[0]
        if k == "new":
            out.append(("new", parts))
        elif k in ("iadd", "add", "radd"):
            out.append((k, int(f[1]), parts[0]))
        elif k == "join":
            out.append(("join", int(f[1]), parts))
        elif k == "sl":
            out.append(("sl", int(f[1]), _pi(f[2]), _pi(f[3])))
        elif k == "idx":
            out.append(("idx", int(f[1]), int(f[2])))
        elif k == "fl":
            out.append(("fl", int(f[1]), int(f[2])))
        else:
            raise ValueError(chunk)
    return out


def _real_part(objs, p):
    k = p[0]
    if k == "s":
        return p[1]
    if k == "c":
        return _make_chunk(p[1], p[2])
    if k == "o":
        return objs[p[1]]
    items = [_real_part(objs, x) for x in p[1]]
    return items if k == "ls" else tuple(items)


def _mentions(p, tgt):
    if p[0] == "o":
        return 1 if p[1] == tgt else 0
    if p[0] in ("ls", "tp"):
        return sum(_mentions(x, tgt) for x in p[1])
    return 0


def real_stmt(objs, st):
    """executes one statement on the list of real objects (appends the new object)"""
    col = _color()
    k = st[0]
    if k == "new":
        objs.append(col.CHText(*[_real_part(objs, p) for p in st[1]]))
    elif k == "iadd":
        x, b = objs[st[1]], _real_part(objs, st[2])

        def go():
            y = x
            y += b
            return y
        y = _with_budget(go, ALIAS_BUDGET + 100 * len(x.chunks) * (1 + _mentions(st[2], st[1]))) \
            if _mentions(st[2], st[1]) else go()
        if y is not x:
            raise AssertionError("+= returned another object")
    elif k == "add":
        objs.append(objs[st[1]] + _real_part(objs, st[2]))
    elif k == "radd":
        objs.append(_real_part(objs, st[2]) + objs[st[1]])
    elif k == "join":
        items = [_real_part(objs, p) for p in st[2]]
        objs.append(objs[st[1]].join(items))
    elif k == "sl":
        objs.append(objs[st[1]][st[2]:st[3]])
    elif k == "idx":
        objs.append(objs[st[1]][st[2]])
    elif k == "fl":
        objs.append(objs[st[1]].fixed_len(st[2]))
    else:
        raise ValueError(k)


def impl_hist(line):
    objs, out = [], []
    for st in parse_hist(line):
        try:
            real_stmt(objs, st)
            out.append(" ; ".join(show_real(o) for o in objs) if objs else "-")
        except Exception as e:
            out.append(_err(e))
    return " || ".join(out)


def _ref_flat(refs, p):
    k = p[0]
    if k == "s":
        return p[1], [0] * len(p[1])
    if k == "c":
        return p[2], [p[1]] * len(p[2])
    if k == "o":
        return refs[p[1]].plain, list(refs[p[1]].cols)
    pl, cl = "", []
    for x in p[1]:
        a, b = _ref_flat(refs, x)
        pl, cl = pl + a, cl + b
    return pl, cl


def _self_form_ok(p, tgt):
    """operand of `o_tgt += p` for which value semantics is unambiguous: no mention of the target, or the
    target alone (`t += t`, `t += [t]`, `t += ([t],)`)"""
    if _mentions(p, tgt) == 0:
        return True
    while p[0] in ("ls", "tp") and len(p[1]) == 1:
        p = p[1][0]
    return p == ("o", tgt)


def ref_stmt(refs, st):
    """the same statement on plain str / colour lists; raises IndexError as str does, OutOfModel when the
    statement has no unambiguous str reading"""
    k = st[0]
    if k == "new":
        pl, cl = _ref_flat(refs, ("ls", st[1]))
        refs.append(Ref("t", pl, cl))
    elif k == "iadd":
        if not _self_form_ok(st[2], st[1]):
            raise OutOfModel()
        pl, cl = _ref_flat(refs, st[2])
        r = refs[st[1]]
        refs[st[1]] = Ref("t", r.plain + pl, r.cols + cl)
    elif k == "add":
        pl, cl = _ref_flat(refs, st[2])
        r = refs[st[1]]
        refs.append(Ref("t", r.plain + pl, r.cols + cl))
    elif k == "radd":
        if st[2][0] not in ("s", "ls", "tp"):
            raise OutOfModel()
        pl, cl = _ref_flat(refs, st[2])
        r = refs[st[1]]
        refs.append(Ref("t", pl + r.plain, cl + r.cols))
    elif k == "join":
        sep = refs[st[1]]
        fl = [_ref_flat(refs, p) for p in st[2]]
        cols = []
        for n, (_, c) in enumerate(fl):
            if n:
                cols = cols + sep.cols
            cols = cols + c
        refs.append(Ref("t", sep.plain.join([p for p, _ in fl]), cols))
    elif k == "sl":
        r = refs[st[1]]
        refs.append(Ref("t", r.plain[st[2]:st[3]], r.cols[st[2]:st[3]]))
    elif k == "idx":
        r = refs[st[1]]
        refs.append(Ref("t", r.plain[st[2]], [r.cols[st[2]]]))
    elif k == "fl":
        r, n = refs[st[1]], st[2]
        if n < 0:
            raise OutOfModel()
        refs.append(Ref("t", r.plain[:n].ljust(n), r.cols[:n] + [0] * (n - len(r.cols))))
    else:
        raise ValueError(k)


# ------------------------------------------------------------------ oracle: the property itself
class Violation(Exception):
    pass


def _real_step(t, kids):
    """one operation on the real objects of the children"""
    col = _color()
    k = t[0]
    if k == "s":
        return t[1]
    if k == "c":
        return _make_chunk(t[1], t[2])
    if k == "ls":
        return list(kids)
    if k == "tp":
        return tuple(kids)
    if k == "mk":
        return col.CHText(*kids)
    if k == "add":
        return kids[0] + kids[1]
    if k == "iadd":
        x = kids[0]
        x += kids[1]
        return x
    if k == "join":
        return kids[0].join(list(kids[1:]) if t[1] == "l" else tuple(kids[1:]))
    if k == "idx":
        return kids[0][t[2]]
    if k == "sl":
        return kids[0][t[2]:t[3]]
    if k == "fl":
        return kids[0].fixed_len(t[2])
    if k == "it":
        return list(kids[0])
    if k == "joinit":
        return kids[0].join(kids[1])
    if k in ("dupiadd", "dupiaddl"):
        return _self_iadd(kids[0], k == "dupiaddl")
    raise ValueError(k)


def _canon_text(ref):
    """the same characters in the same colours, assembled chunk by chunk"""
    col = _color()
    parts, i = [], 0
    while i < len(ref.plain):
        j = i
        while j < len(ref.plain) and ref.cols[j] == ref.cols[i]:
            j += 1
        parts.append(_make_chunk(ref.cols[i], ref.plain[i:j]))
        i = j
    return col.CHText(*parts)


def _charwise_text(ref):
    """... and assembled one character at a time with +="""
    col = _color()
    x = col.CHText()
    for ch, c in zip(ref.plain, ref.cols):
        if c == 0 and ord(ch) % 2:
            x += ch
        else:
            x += _make_chunk(c, ch)
    return x


def _r(x):
    """repr for messages: long values are cut, their length is kept"""
    t = repr(x)
    return t if len(t) <= 90 else "%s... (%d items)" % (t[:80], len(x))


def _check_value(obj, ref, where, eq=True):
    """the observable claims of the statement for one resulting object"""
    col = _color()
    if ref.kind == "ls" and where.startswith("it "):
        # list(x) / for ch in x: one item per visible character, each showing that character in its colour
        items = list(obj)
        if len(items) != len(ref.items):
            raise Violation("iter: %s yields %d items, the str has %d characters" % (where, len(items), len(ref.items)))
        for n, (o, r) in enumerate(zip(items, ref.items)):
            # the statement does not fix the type of an item (one-character text or chunk): only what it shows
            kind = "t" if isinstance(o, col.CHText) else "c"
            _check_value(o, Ref(kind, r.plain, r.cols, col=r.col), "item %d of %s" % (n, where))
        n = 0
        for ch in obj:                      # the for statement itself
            n += 1
        if n != len(ref.items):
            raise Violation("iter: for over %s runs %d times, the str has %d characters" % (where, n, len(ref.items)))
        return
    if ref.kind in ("ls", "tp", "s"):
        return
    want = ref.cells()
    if isinstance(obj, col.CHText):
        # the statement does not fix text-or-chunk for a result: only what it shows is judged
        got = [(ch, _col_id(c.c_prefix, c.c_suffix)) for c in obj.chunks for ch in c.text]
    elif isinstance(obj, col.CHText.Chunk):
        got = [(ch, _col_id(obj.c_prefix, obj.c_suffix)) for ch in obj.text]
    else:
        raise Violation("type: %s gives %s" % (where, type(obj).__name__))
    if obj.plain_text() != ref.plain:
        raise Violation("text: %s shows %s, the same operations on str give %s" % (where, _r(obj.plain_text()), _r(ref.plain)))
    if bool(obj) != bool(ref.plain):
        raise Violation("bool: %s is %s, the str is %s" % (where, bool(obj), bool(ref.plain)))
    if len(obj) != len(ref.plain):
        raise Violation("len: %s has len %d but shows %d characters" % (where, len(obj), len(ref.plain)))
    if got != want:
        raise Violation("color: %s: chunks carry %s, the characters were created as %s" % (where, _r(got), _r(want)))
    shown = want if ESC in ref.plain else _cells_of_str(str(obj))
    if shown != want:
        raise Violation("str: %s: str() shows %s, expected %s" % (where, _r(shown), _r(want)))
    # position arithmetic is looked at on every intermediate object, before and after every mutation: the last
    # character, the tail, the head and a middle cut (a position table kept by the object must follow every +=)
    n = len(want)
    if n:
        probes = [("[-1]", lambda o: o[-1], [want[-1]]), ("[%d]" % (n - 1), lambda o: o[n - 1], [want[-1]]),
                  ("[-2:]", lambda o: o[-2:], want[-2:]), ("[%d:]" % (n - 1), lambda o: o[n - 1:], want[n - 1:]),
                  ("[%d:%d]" % (n // 2, n), lambda o: o[n // 2:n], want[n // 2:]), ("[:1]", lambda o: o[:1], want[:1])]
        for name, f, exp in probes:
            try:
                r = f(obj)
            except IndexError:
                raise Violation("index: %s%s raises IndexError, the str has %d characters" % (where, name, n))
            if isinstance(r, col.CHText):
                cells = [(ch, _col_id(c.c_prefix, c.c_suffix)) for c in r.chunks for ch in c.text]
            else:
                cells = [(ch, _col_id(r.c_prefix, r.c_suffix)) for ch in r.text]
            if cells != exp:
                raise Violation("index: %s%s shows %s, the same on str gives %s" % (where, name, _r(cells), _r(exp)))
    if isinstance(obj, col.CHText) and eq:
        others = [("chunk by chunk", _canon_text(ref))]
        if len(ref.plain) <= 300:                      # one += per character is quadratic
            others.append(("character by character", _charwise_text(ref)))
        for name, other in others:
            if not (obj == other) or not (other == obj) or (obj != other):
                raise Violation("equal: %s is not equal to the same characters and colors assembled %s" % (where, name))
        if all(c == 0 for c in ref.cols):
            if not (obj == ref.plain) or not (ref.plain == obj):
                raise Violation("equal-str: %s shows default-colored %r but is not equal to that str" % (where, ref.plain))
        for other in (ref.plain + "x", ref.plain[:-1] if ref.plain else "y"):
            if obj == other or other == obj or obj == col.CHText(other):
                raise Violation("unequal: %s shows %r but is equal to %r" % (where, ref.plain, other))


def ev_both(t, path="x"):
    """lock-step evaluation of the real classes and of the reference; every intermediate object is
    checked. Returns (object, ref); raises Violation, OutOfModel, or IndexError when both sides do."""
    kids = [ev_both(x, "%s.%d" % (path, n)) for n, x in enumerate(kids_of(t))]
    where = "%s at %s" % (t[0], path)
    rerr = ref = None
    try:
        ref = ref_step(t, [r for _, r in kids])
    except IndexError as e:
        rerr = e
    try:
        obj = _real_step(t, [o for o, _ in kids])
    except IndexError:
        if rerr is None:
            raise Violation("index: %s raises IndexError, the same operation on str does not" % where)
        raise
    except _Budget:
        raise Violation("hang: %s does not terminate" % where)
    except Exception as e:
        raise Violation("raises: %s raises %s" % (where, type(e).__name__))
    if rerr is not None:
        raise Violation("index: %s gives a result, the same operation on str raises IndexError" % where)
    _check_value(obj, ref, where)
    return obj, ref


def _in_format_domain(spec):
    """[[fill]align][width][s], width without a leading zero (no zero flag, no precision)"""
    rest = spec
    if len(rest) >= 2 and rest[1] in "<>^":
        rest = rest[2:]
    elif len(rest) >= 1 and rest[0] in "<>^":
        rest = rest[1:]
    if rest.endswith("s"):
        rest = rest[:-1]
    return rest == "" or (rest.isascii() and rest.isdigit() and rest[0] != "0")


def _check_format(obj, ref, spec, where):
    if ESC in ref.plain:
        return
    want = format(ref.plain, spec)
    cells = _cells_of_str(format(obj, spec))
    if cells is None or "".join(c for c, _ in cells) != want:
        raise Violation("format: %s: format(text, %r) shows %r, format(%r, %r) is %r" % (
            where, spec, None if cells is None else "".join(c for c, _ in cells), ref.plain, spec, want))
    if sorted(k for _, k in cells if k != "0") != sorted(str(c) for c in ref.cols if c != 0) and \
            not any(ch == "*" for ch in ref.plain):
        raise Violation("format-color: %s: format(text, %r) shows other colors than the text" % (where, spec))


def oracle_hist(line, rep):
    """every object, after every statement, shows what the same statements give on plain str; rendering
    (str, format, plain_text, len) is repeated after every statement"""
    objs, refs = [], []
    for n, st in enumerate(parse_hist(line)):
        where0 = "statement %d (%s)" % (n, " ".join(_stmt_toks(st)))
        rerr = None
        before = list(refs)
        try:
            ref_stmt(refs, st)
        except OutOfModel:
            return None                     # no unambiguous str reading from here on
        except IndexError as e:
            rerr = e
        try:
            real_stmt(objs, st)
        except IndexError:
            if rerr is None:
                return "index: %s raises IndexError, the same operation on str does not" % where0
            refs[:] = before
            continue
        except _Budget:
            return "hang: %s does not terminate" % where0
        except Exception as e:
            return "raises: %s raises %s" % (where0, type(e).__name__)
        if rerr is not None:
            return "index: %s gives a result, the same operation on str raises IndexError" % where0
        if len(objs) != len(refs):
            return "history: %s: %d objects, expected %d" % (where0, len(objs), len(refs))
        try:
            for i, (o, r) in enumerate(zip(objs, refs)):
                w = "o%d after %s" % (i, where0)
                _check_value(o, r, w)
                _check_format(o, r, "*^%d" % (len(r.plain) + 3), w)
        except Violation as v:
            return "hist-" + str(v)
    return None


def oracle(case, replies):
    col = _color()
    for line, rep in zip(case["lines"], replies):
        kind, trees, spec = parse_line(line)
        if kind == "hist":
            msg = oracle_hist(line, rep)
            if msg is not None:
                return msg
            continue
        if kind in ("make", "resize"):
            chunks = [_make_chunk(c, t) for _, c, t in trees]
            plain = "".join(t for _, _, t in trees)
            cols = [c for _, c, t in trees for _ in t]
            try:
                if kind == "make":
                    # internal constructor: text, len and colours are judged; equality only without empty chunks
                    obj = col.CHText.make(chunks)
                    _check_value(obj, Ref("t", plain, cols), "make", eq=all(t for _, _, t in trees))
                elif spec >= 0:
                    r = col.CHText.resize_chunks_list(chunks, spec)
                    got = [(ch, _col_id(c.c_prefix, c.c_suffix)) for c in r for ch in c.text]
                    want = list(zip(plain[:spec].ljust(spec), [str(c) for c in cols[:spec] + [0] * (spec - len(cols))]))
                    if got != want:
                        return "resize: resize_chunks_list(%s, %d) shows %s, expected %s" % (_r(plain), spec, _r(got), _r(want))
                    if col.CHText.calc_chunks_len(r) != spec:
                        return "resize-len: calc_chunks_len of the result is not %d" % spec
            except Violation as v:
                return "make-" + str(v)
            except Exception as e:
                return "raises: %s raises %s" % (kind, type(e).__name__)
            continue
        if kind not in ("val", "fmt", "eq", "alias"):
            continue
        try:
            vals = [ev_both(t, "x%d" % n) for n, t in enumerate(trees)]
        except Violation as v:
            return str(v)
        except OutOfModel:
            continue
        except IndexError:
            if rep != "err IndexError":
                return "reply: %s although evaluation raises IndexError" % rep
            continue
        if kind == "val":
            if rep != show_real(vals[0][0]):
                return "reply: not deterministic: %s / %s" % (rep, show_real(vals[0][0]))
        elif kind == "fmt":
            obj, ref = vals[0]
            if not _in_format_domain(spec) or ref.kind not in ("t", "c"):
                continue
            want = format(ref.plain, spec)               # str's own formatting
            via = via_of(line)
            try:
                got = do_format(obj, spec, via)
            except Exception as e:
                return "format-raises: format(%r-text, %r) [%s] raises %s" % (ref.plain, spec, via, type(e).__name__)
            if not isinstance(got, str):
                return "format-type: format(%r-text, %r) [%s] gives %s" % (ref.plain, spec, via, type(got).__name__)
            cells = _cells_of_str(got)
            if cells is None:
                return "format-seq: format(%r-text, %r) has an unknown colour sequence" % (ref.plain, spec)
            vis = "".join(c for c, _ in cells)
            if vis != want:
                return "format: format(text, %r) shows %r, format(%r, %r) is %r" % (spec, vis, ref.plain, spec, want)
            if ref.plain:
                # where str's formatter puts the text: same spec on a sentinel of the same length
                fillc = set(want) - set(ref.plain)
                sent = next(ch for ch in "\x01\x02\x03\x04" if ch not in fillc and ch not in spec)
                off = format(sent * len(ref.plain), spec).index(sent)
                exp = [(c, "0") for c in want[:off]] + ref.cells() + [(c, "0") for c in want[off + len(ref.plain):]]
                if cells != exp:
                    return "format-color: format(text, %r) shows %r, expected %r" % (spec, cells, exp)
            elif any(k != "0" for _, k in cells):
                return "format-color: padding of an empty text is colored"
        elif kind == "alias":
            (x, rx), (b, rb) = vals
            if rx.kind not in ("t", "c") or spec < 0:
                continue
            before = show_real(x)
            try:
                ru = ref_step(("iadd", None, None), [ref_step(("fl", None, spec), [rx]), rb])
            except OutOfModel:
                continue
            try:
                u = x.fixed_len(spec)
                u += b
            except Exception as e:
                return "raises: fixed_len / += raises %s" % type(e).__name__
            try:
                _check_value(x, rx, "x after `u = x.fixed_len(%d); u += b`" % spec)
                _check_value(u, ru, "u of `u = x.fixed_len(%d); u += b`" % spec)
            except Violation as v:
                return "alias-" + str(v)
            if show_real(x) != before:
                return "alias: x changed by `u = x.fixed_len(%d); u += b`" % spec
        elif kind == "eq":
            (a, ra), (b, rb) = vals
            empty_chunk = any(r.kind == "c" and not r.plain for r in (ra, rb))
            if empty_chunk and not any(r.kind == "t" for r in (ra, rb)):
                continue                      # empty chunk objects compared directly: out of the domain
            if ra.kind == "s" and rb.kind == "s":
                continue
            if ra.kind not in ("s", "c", "t") or rb.kind not in ("s", "c", "t"):
                continue                      # lists are not compared with texts
            res = (a == b, b == a, not (a != b))
            if ra.plain == rb.plain and ra.cols == rb.cols:
                if not all(res):
                    return "equal: same characters and colors (%r) compare unequal" % (ra.cells(),)
            elif ra.plain != rb.plain:
                if any(res):
                    return "unequal: texts showing %r and %r compare equal" % (ra.plain, rb.plain)
    return None


# ------------------------------------------------------------------ generators
ALPHA = "abc xyz s05<é中"
# fill characters by kind (any character may be a fill once an align character follows it). ESC is not a fill here.
FILL_KINDS = [
    ("ascii", ["*", "x", "=", "_", "s", ".", "+", "-", "#", ",", "%", "!", ":", "'", "\\", '"']),
    ("space", [" "]),
    ("digit", ["0", "5", "9"]),                      # '0' with an explicit align is a fill, not the zero flag
    ("align", ["<", ">", "^"]),
    ("brace", ["{", "}"]),
    ("newline", ["\n"]),
    ("linesep", ["\r", "\x0b", "\x0c", "\x1c", "\x1d", "\x1e", "\x85", "\u2028", "\u2029"]),
    ("control", ["\x00", "\t", "\x01", "\x7f", "\x9b"]),
    ("bmp", ["é", "中", "\u0301", "\u0665", "²", "\xa0", "\u200b", "\ufeff", "\uffff"]),
    ("nonbmp", ["\U0001F600", "\U00010000", "\U0001D7D8", "\U000E0001", "\U0010FFFF"]),
]
FILL_KIND = {ch: k for k, chars in FILL_KINDS for ch in chars}
FILLS = [None] + [ch for _, chars in FILL_KINDS for ch in chars]
FILLS_QUICK = [None] + [chars[0] for _, chars in FILL_KINDS] + ["<", "}"]
# widths with a zero digit that is not the leading one (a leading 0 is the zero flag: outside)
ZERO_WIDTHS = [10, 20, 100, 105]


_ESC_MODE = [False]       # set by gen_cases around the ESC-content stream (generation is single threaded)
ESC_TOKENS = ["\033[", "1m", "\033[31m", "\033[0m", "\033[m", "\033", "[", "m", "33", ";", ":", "a", "b ", "\033[38:5:1m",
              "\033[1;4", "m x", "0m"]


def _rtext(rng, lo=0, hi=4):
    if _ESC_MODE[0]:
        return "".join(rng.choice(ESC_TOKENS) for _ in range(rng.randint(lo, min(hi, 3))))
    if hi == 4 and rng.random() < 0.1:
        hi = 9
    return "".join(rng.choice(ALPHA) for _ in range(rng.randint(lo, hi)))


def _rcol(rng, ncol):
    return rng.randrange(ncol)


class _Gen:
    def __init__(self, rng, maxdepth, ncol):
        self.rng, self.maxdepth, self.ncol = rng, maxdepth, ncol

    def leaf(self):
        rng = self.rng
        if rng.random() < 0.35:
            s = _rtext(rng)
            return ("s", s), Ref("s", s, [0] * len(s))
        c, s = _rcol(rng, self.ncol), _rtext(rng)
        return ("c", c, s), Ref("c", s, [c] * len(s), col=c)

    def part(self, depth):
        """anything `+=` accepts: a value, or a (nested) list / tuple of parts"""
        rng = self.rng
        if rng.random() < 0.06 and depth < self.maxdepth:
            a, ra = self.obj(depth + 1)
            return ("it", a), ref_step(("it", a), [ra])
        if rng.random() < 0.15:
            kind = rng.choice(["ls", "tp"])
            its = [self.part(depth + 1) for _ in range(rng.randint(0, 3))]
            t = (kind, [x for x, _ in its])
            return t, Ref(kind, items=[r for _, r in its])
        return self.value(depth)

    def obj(self, depth):
        """a CHText or a chunk"""
        for _ in range(20):
            t, r = self.value(depth)
            if r.kind in ("t", "c"):
                return t, r
        c, s = _rcol(self.rng, self.ncol), _rtext(self.rng)
        return ("c", c, s), Ref("c", s, [c] * len(s), col=c)

    def bound(self, n):
        rng = self.rng
        r = rng.random()
        if r < 0.2:
            return None
        if r < 0.85:
            return rng.randint(-n - 2, n + 2)
        return rng.choice([-n, n, 0, -1, n + 7, -n - 7, -n - 1, n - 1, n + 1])

    def value(self, depth):
        rng = self.rng
        if depth >= self.maxdepth or rng.random() < 0.12:
            return self.leaf()
        op = rng.choice(["mk", "mk", "add", "add", "iadd", "iadd", "join", "idx", "sl", "sl", "sl", "fl"])
        if rng.random() < 0.05:
            op = rng.choice(["dupiadd", "dupiaddl"])
        elif rng.random() < 0.05:
            sep, a = self.obj(depth + 1), self.obj(depth + 1)
            t = ("joinit", sep[0], a[0])
            return t, ev_ref_shallow(t)
        if op == "mk":
            its = [self.part(depth + 1) for _ in range(rng.randint(0, 3))]
            t = ("mk", [x for x, _ in its])
        elif op in ("add", "iadd"):
            r = rng.random()
            if r < 0.7:
                a, b = self.obj(depth + 1), self.part(depth + 1)
            elif r < 0.9 or op == "iadd":
                s = _rtext(rng)
                a, b = (("s", s), None), self.obj(depth + 1)
            else:
                a, b = self.part(depth + 1), self.obj(depth + 1)
            t = (op, a[0], b[0])
        elif op == "join":
            sep = self.obj(depth + 1)
            its = [self.part(depth + 1) for _ in range(rng.randint(0, 3))]
            t = ("join", rng.choice(["l", "t"]), sep[0], [x for x, _ in its])
        else:
            a, ra = self.obj(depth + 1)
            n = len(ra.plain)
            if op in ("dupiadd", "dupiaddl"):
                t = (op, a)
                return t, ev_ref_shallow(t)
            if op == "idx":
                if n == 0:
                    return a, ra
                t = ("idx", a, rng.randint(-n, n - 1))
            elif op == "sl":
                t = ("sl", a, self.bound(n), self.bound(n))
            else:
                t = ("fl", a, rng.choice([0, n, n + 1, max(0, n - 1), rng.randint(0, n + 3)]))
                if rng.random() < 0.01 and n < 50:
                    t = ("fl", a, n + rng.choice(SIZES[:6]))
        return t, ev_ref_shallow(t)


def ev_ref_shallow(t):
    return ev_ref(t)


def _depth(t):
    ks = kids_of(t)
    return 1 + max([_depth(x) for x in ks], default=0)


def _nodes(t):
    yield t
    for x in kids_of(t):
        yield from _nodes(x)


def _pieces_tree(rng, plain, cols):
    """another assembly of the same characters and colors"""
    cuts = sorted(rng.sample(range(len(plain) + 1), min(len(plain) + 1, rng.randint(0, 3))))
    bounds = [0] + cuts + [len(plain)]
    parts = []
    for a, b in zip(bounds, bounds[1:]):
        # split a piece into mono-colored leaves
        i = a
        while i < b:
            j = i
            while j < b and cols[j] == cols[i]:
                j += 1
            if cols[i] == 0 and rng.random() < 0.5:
                parts.append(("s", plain[i:j]))
            else:
                parts.append(("c", cols[i], plain[i:j]))
            i = j
        if rng.random() < 0.3:
            parts.append(rng.choice([("s", ""), ("c", rng.randrange(4), ""), ("mk", []), ("ls", [])]))
    how = rng.randrange(4)
    if how == 0 or not parts or len(parts) > 40:       # a chain of + over many pieces would be a very deep tree
        return ("mk", parts)
    if how == 1:
        t = ("mk", [parts[0]])
        for p in parts[1:]:
            t = (rng.choice(["add", "iadd"]), t, p)
        return t
    if how == 2:
        return ("join", "l", ("mk", []), parts)
    return ("mk", [("ls", parts[: len(parts) // 2]), ("tp", parts[len(parts) // 2:])])


def _specs(rng, n, wide):
    fill = rng.choice([None, None, None] + rng.choice(FILL_KINDS)[1])     # kinds first: every kind is as likely
    align = rng.choice([None, "<", ">", "^"]) if fill is None else rng.choice(["<", ">", "^"])
    width = rng.choice([None, 1, n, n + 1, n + 2, n + 3, max(1, n - 1), rng.randint(1, n + wide), rng.choice(ZERO_WIDTHS)])
    ty = rng.choice(["", "", "s"])
    return (fill or "") + (align or "") + ("" if width is None else str(width)) + ty


BASES = [
    [],
    [("ab", 1)],
    [("abc", 0)],
    [("ab", 1), ("c", 0)],
    [("a", 0), ("bcd", 2)],
    [("ab", 1), ("c", 0), ("de", 2)],
    [("a", 1), ("b", 2), ("c", 1), ("d", 0)],
]


def _base_tree(base):
    return ("mk", [("c", c, s) for s, c in base])


def _case(line, kind):
    return {"lines": [line], "meta": {"kind": kind}}


def gen_cases(rng, tier):
    quick = tier == "quick"
    # 1. exhaustive small scope: every index / slice / fixed_len / width on the base texts
    for base in BASES:
        bt = _base_tree(base)
        n = sum(len(s) for s, _ in base)
        rng2 = range(-n - 2, n + 3)
        for i in [None] + list(rng2):
            for j in [None] + list(rng2):
                yield _case(line_of("val", [("sl", bt, i, j)]), "slice-exhaustive")
        for i in range(-n - 2, n + 2):
            yield _case(line_of("val", [("idx", bt, i)]), "index-exhaustive")
        for m in range(0, n + 4):
            yield _case(line_of("val", [("fl", bt, m)]), "fixedlen-exhaustive")
        for fill in (FILLS_QUICK if quick else FILLS):
            for align in [None, "<", ">", "^"]:
                if fill is not None and align is None:
                    continue
                widths = [None] + list(range(1, n + 5)) + ZERO_WIDTHS[:2]
                if quick and fill not in (None, "*", "<", "0"):
                    widths = [None, max(1, n), n + 1, n + 4, 10]
                for w in widths:
                    for ty in ("", "s"):
                        spec = (fill or "") + (align or "") + ("" if w is None else str(w)) + ty
                        yield _case(line_of("fmt", [bt], spec), "format-exhaustive")
        if len(base) == 1:      # the chunk versions of the same operations
            ct = ("c", base[0][1], base[0][0])
            for i in [None] + list(rng2):
                for j in [None] + list(rng2):
                    yield _case(line_of("val", [("sl", ct, i, j)]), "chunk-slice")
            for i in range(-n - 2, n + 2):
                yield _case(line_of("val", [("idx", ct, i)]), "chunk-index")
            for m in range(0, n + 4):
                yield _case(line_of("val", [("fl", ct, m)]), "chunk-fixedlen")
    # 1a. every fill character of every kind x every align x every entry point of formatting (format(), x.__format__,
    # f-strings with a nested / a literal spec, str.format with a nested / a literal spec, format_map), on texts and chunks
    subjects = [_base_tree(BASES[3]), _base_tree(BASES[5]), ("c", 1, "ab"), ("c", 0, "abc"), _base_tree(BASES[0])]
    for fill in FILLS:
        for align in ([None, "<", ">", "^"] if fill is None else ["<", ">", "^"]):
            vias = list(VIAS)
            rng.shuffle(vias)
            for k, via in enumerate(vias if quick else vias * 4):
                subj = subjects[(k + rng.randrange(len(subjects))) % len(subjects)]
                n = len(ev_ref(subj).plain)
                w = rng.choice([None, n, n + 1, n + 2, n + 3, n + 6] + ZERO_WIDTHS)
                spec = (fill or "") + (align or "") + ("" if w is None else str(w)) + rng.choice(["", "", "s"])
                yield _case(line_of("fmt", [subj], spec, via), "format-fill-via")
    # 1b. sizes: paddings, widths and truncations around 255/256, 1023..1025, 5000, 70000 (numbers travel, not blanks)
    for n in (SIZES if not quick else SIZES[:-1] + [70000]):
        for base in (BASES[0], BASES[3], BASES[5]):
            bt = _base_tree(base)
            m = sum(len(t) for t, _ in base)
            yield _case(line_of("val", [("fl", bt, n)]), "size-fixedlen")
            yield _case(line_of("val", [("fl", ("fl", bt, n + m), n)]), "size-fixedlen")       # pad then truncate
            yield _case(line_of("val", [("sl", ("fl", bt, n + 7), n - 2, None)]), "size-fixedlen")
            yield _case(line_of("alias", [("fl", bt, n), ("s", "q")], n), "size-fixedlen")
            for al in ("", "<", ">", "*^"):
                yield _case(line_of("fmt", [bt], al + str(n + m)), "size-format")
            yield _case(line_of("fmt", [("fl", bt, n)], "_>" + str(n + 1025)), "size-format")
            toks = " ".join("c:%d:%s" % (c, enc_str(t)) for t, c in base)
            yield _case(("resize %d %s" % (n + m, toks)).strip(), "size-resize")
            yield _case(("resize %d %s" % (n, toks)).strip(), "size-resize")
            yield _case(hist_line([("new", [("c", c, t) for t, c in base]), ("fl", 0, n + m), ("iadd", 1, ("o", 0)),
                                   ("fl", 1, n), ("join", 0, [("o", 1), ("o", 2)])]), "size-history")
        ct = ("c", 1, "ab")
        yield _case(line_of("val", [("fl", ct, n)]), "size-fixedlen")
        yield _case(line_of("val", [("fl", ct, n + 2)]), "size-fixedlen")
        yield _case(line_of("fmt", [ct], "^" + str(n + 2)), "size-format")
    # 1c. a text / chunk / slice used as the iterable: sep.join(x), list(x), CHText(*list(x)), x as a `for` source
    for base in BASES:
        bt = _base_tree(base)
        n = sum(len(t) for t, _ in base)
        srcs = [bt, ("sl", bt, 1, None), ("sl", bt, None, -1), ("add", bt, ("s", "xy")), ("fl", bt, n + 2)]
        if len(base) == 1:
            srcs += [("c", base[0][1], base[0][0]), ("sl", ("c", base[0][1], base[0][0]), 1, None)]
        for src in srcs:
            yield _case(line_of("val", [("it", src)]), "iter-list")
            yield _case(line_of("val", [("mk", [("it", src)])]), "iter-list")
            for sep in (("s", "-"), ("c", 1, "-"), ("c", 2, "<>"), ("s", "")):
                sp = sep if sep[0] == "c" and rng.random() < 0.5 else ("mk", [sep])
                yield _case(line_of("val", [("joinit", sp, src)]), "iter-join")
                yield _case(line_of("val", [("join", "l", sp, [("it", src)])]), "iter-join")
    # 1d. content that holds ESC and complete / split colour sequences (captured coloured output)
    _ESC_MODE[0] = True
    try:
        for _ in range(1500 if quick else 30000):
            g = _Gen(rng, rng.choice([1, 2, 3]), rng.choice([1, 2, 3]))
            t, r = g.value(0)
            if rng.random() < 0.7 or r.kind not in ("t", "c", "s"):
                yield _case(line_of("val", [t]), "esc-content")
            else:
                other = _pieces_tree(rng, r.plain, list(r.cols))
                if not (r.kind == "s" and other[0] == "s"):
                    try:
                        ro = ev_ref(other)
                    except IndexError:
                        continue
                    if not any(x.kind == "c" and not x.plain for x in (r, ro)) or any(x.kind == "t" for x in (r, ro)):
                        yield _case(line_of("eq", [t, other]), "esc-content")
        for _ in range(300 if quick else 6000):
            yield _case(hist_line(gen_history(rng, rng.randint(3, 6), rng.choice([1, 2, 3]))), "esc-history")
    finally:
        _ESC_MODE[0] = False
    # 2. random operation trees
    n_trees = 16000 if quick else 400000
    for k in range(n_trees):
        g = _Gen(rng, rng.choice([2, 3, 3, 4, 4]) if quick else rng.choice([2, 3, 4, 4, 5, 6]),
                 rng.choice([2, 3, 4, 4, 4, 6]))
        t, r = g.value(0)
        roll = rng.random()
        if roll < 0.55:
            yield _case(line_of("val", [t]), "tree")
        elif roll < 0.62 and r.kind in ("t", "c") and len(r.plain):
            # an index error somewhere: at the root or below other operations
            n = len(r.plain)
            t2 = ("idx", t, rng.choice([n, n + 1, -n - 1, -n - 2, n + 5]))
            if rng.random() < 0.5:
                t2 = ("add", t2, ("s", "q"))
            yield _case(line_of("val", [t2]), "tree-indexerror")
        elif roll < 0.80 and r.kind in ("t", "c"):
            yield _case(line_of("fmt", [t], _specs(rng, len(r.plain), 6), rng.choice(VIAS)), "format")
        elif r.kind in ("t", "c", "s"):
            # equality: the same cells assembled differently / a near miss / a plain str
            p, c = r.plain, list(r.cols)
            how = rng.random()
            if how < 0.5:
                other = _pieces_tree(rng, p, c)
                kind = "eq-same-cells"
            elif how < 0.65 and p:
                i = rng.randrange(len(p))
                if rng.random() < 0.5:
                    p = p[:i] + ("q" if p[i] != "q" else "r") + p[i + 1:]
                    kind = "eq-other-text"
                else:
                    c[i] = (c[i] + 1) % 4
                    kind = "eq-other-color"
                other = _pieces_tree(rng, p, c)
            elif how < 0.8:
                other = ("s", p)
                kind = "eq-str"
            elif how < 0.9 and p and len(set(c)) == 1:
                other = ("c", c[0], p)
                kind = "eq-chunk"
            else:
                other = _Gen(rng, 2, 3).value(0)[0]
                kind = "eq-random"
            if r.kind == "s" and other[0] == "s":
                continue
            pair = [t, other] if rng.random() < 0.5 else [other, t]
            try:
                rs = [ev_ref(x) for x in pair]
            except IndexError:
                continue
            if any(x.kind == "c" and not x.plain for x in rs) and not any(x.kind == "t" for x in rs):
                continue            # empty chunk objects compared directly: out of the domain
            yield _case(line_of("eq", pair), kind)
    # 3. the specification functions against CPython's own str
    for _ in range(1500 if quick else 30000):
        s = _rtext(rng, 0, 6)
        n = len(s)
        b = _Gen(rng, 0, 1)
        yield _case("pyslice %s %s %s" % (enc_str(s), _oi(b.bound(n)), _oi(b.bound(n))), "py-slice")
        yield _case("pyidx %s %d" % (enc_str(s), rng.randint(-n - 2, n + 2)), "py-index")
    # 4. outside the property's domain: only model = code is compared, the oracle does not judge
    for _ in range(600 if quick else 12000):
        g = _Gen(rng, 2, 3)
        t, r = g.obj(0)
        n = len(r.plain)
        roll = rng.random()
        if roll < 0.4:
            yield _case(line_of("val", [("fl", t, rng.randint(-n - 3, -1))]), "malformed-fixedlen-negative")
        else:
            spec = rng.choice(["d", "x", "5d", "=5", "x=5", "<5x", "5.2", ".2", "a5", "<<<", "^^5", "5<", "5 ", "s5",
                               "ss", "<s5", ">>s", "5>3", "q", "<q", "5,", "5%", "#5", "!5",
                               # zero flag / precision (other fields of the mini-language: outside the property; the code
                               # does not do what str does there - '05' pads with blanks, '.2' raises)
                               "05", "<05", "*<05", "0<05", "005", "0", "00", "010", "05s", ">.3", "5.2s", "\n", "5\n", "{", "}5"])
            yield _case(line_of("fmt", [t], spec, rng.choice(VIAS)), "malformed-format")
    # 5. thorough: every split of a short text into coloured chunks, every assembly, all bounds
    if not quick:
        yield from search_cases(rng, tier)
    # 5b. histories over several objects: every object is observed and re-rendered after every statement
    for _ in range(3000 if quick else 60000):
        stmts = gen_history(rng, rng.randint(3, 7 if quick else 10), rng.choice([2, 3, 4]))
        yield _case(hist_line(stmts), "history")
    # 5b'. long texts: many chunks, positions looked at, a merging +=, positions in the new tail
    for k in CHUNK_COUNTS:
        for _ in range(6 if quick else 60):
            yield _case(hist_line(gen_long_history(rng, k)), "history-many-chunks")
    # 5b''. == between a text and a text that holds the other's colour sequences as characters
    for pair in _render_collisions(rng, 250 if quick else 5000):
        yield _case(line_of("eq", pair), "eq-rendering-collision")
    # ... and `+=` operands that mention the target more than once or after other elements (four copies for
    # `t += [t, t]`): model = code only, the oracle stops judging there
    for base in BASES[1:]:
        new = ("new", [("c", c, t) for t, c in base])
        for p in (("ls", [("o", 0), ("o", 0)]), ("tp", [("s", "q"), ("o", 0)]), ("ls", [("o", 0), ("ls", [("o", 0), ("c", 1, "z")])]),
                  ("ls", [("ls", [("o", 0)]), ("o", 0), ("o", 0)])):
            yield _case(hist_line([new, ("iadd", 0, p), ("add", 0, ("o", 0)), ("iadd", 1, ("o", 0))]), "history-selflist")
    # 5c. the chunk-list helpers of the table printer
    for _ in range(800 if quick else 16000):
        k = rng.randint(0, 4)
        ncol = rng.choice([1, 2, 3])
        chunks = [("c", rng.randrange(ncol), _rtext(rng, 0, 3)) for _ in range(k)]
        toks = " ".join("c:%d:%s" % (c, enc_str(t)) for _, c, t in chunks)
        n = sum(len(t) for _, _, t in chunks)
        yield _case(("make " + toks).strip(), "make")
        yield _case(("resize %d %s" % (rng.choice([n, 0, n + 1, max(0, n - 1), rng.randint(0, n + 3), -1]), toks)).strip(), "resize")
    for base in BASES:
        toks = " ".join("c:%d:%s" % (c, enc_str(t)) for t, c in base)
        for m in range(-1, sum(len(t) for t, _ in base) + 3):
            yield _case(("resize %d %s" % (m, toks)).strip(), "resize")
    # 6. operands that are the same object: `t += t`, `t += [t]`, and `u = x.fixed_len(n); u += b` (x must stay)
    for base in BASES:
        bt = _base_tree(base)
        n = sum(len(s) for s, _ in base)
        yield _case(line_of("val", [("dupiadd", bt)]), "alias-self-iadd")
        yield _case(line_of("val", [("dupiaddl", bt)]), "alias-self-iadd")
        for m in range(0, n + 3):
            for b in (("s", "q"), ("c", 1, "q"), ("c", base[-1][1] if base else 0, "q"), ("mk", [])):
                yield _case(line_of("alias", [bt, b], m), "alias-fixedlen")
        if len(base) == 1:
            ct = ("c", base[0][1], base[0][0])
            yield _case(line_of("val", [("dupiadd", ct)]), "alias-self-iadd")
            yield _case(line_of("val", [("dupiaddl", ct)]), "alias-self-iadd")
            for m in range(0, n + 3):
                yield _case(line_of("alias", [ct, ("s", "q")], m), "alias-fixedlen")
    for _ in range(600 if quick else 12000):
        g = _Gen(rng, 3, 4)
        t, r = g.obj(0)
        b, _rb = g.part(1)
        n = len(r.plain)
        yield _case(line_of("alias", [t, b], rng.choice([n, n, n, n + 1, max(0, n - 1), rng.randint(0, n + 3)])),
                    "alias-fixedlen")


def _hist_part(rng, refs, ncol, depth=0, avoid=None):
    r = rng.random()
    if refs and r < 0.35:
        ids = [i for i in range(len(refs)) if i != avoid]
        if ids:
            return ("o", rng.choice(ids))
    if r < 0.45 and depth < 2:
        return (rng.choice(["ls", "tp"]), [_hist_part(rng, refs, ncol, depth + 1, avoid) for _ in range(rng.randint(0, 3))])
    if rng.random() < 0.35:
        return ("s", _rtext(rng))
    return ("c", rng.randrange(ncol), _rtext(rng))


# numbers of chunks around the places where a helper may switch to another algorithm (bisect tables, blocks, ...)
CHUNK_COUNTS = [15, 16, 17, 23, 24, 25, 31, 32, 33, 63, 64, 65, 100, 128, 129, 257]


def _many_chunks(rng, k, ncol=3):
    """k chunks, neighbours of different colours, 1-2 characters each"""
    parts, c = [], rng.randrange(ncol)
    for _ in range(k):
        c = (c + 1 + rng.randrange(ncol - 1)) % ncol
        parts.append(("c", c, _rtext(rng, 1, 2) or "q"))
    return parts


def gen_long_history(rng, k):
    """a text of k chunks; look at positions (index / slice), append with the colour of the last chunk (merge: the
    number of chunks stays), look at positions inside the new tail; then the same with another colour"""
    stmts, refs = [], []

    def push(st):
        try:
            ref_stmt(refs, st)
        except (IndexError, OutOfModel):
            pass
        stmts.append(st)
    push(("new", _many_chunks(rng, k)))
    for rnd in range(rng.randint(1, 3)):
        n = len(refs[0].plain)
        push(rng.choice([("idx", 0, rng.randint(-n, n - 1)), ("sl", 0, rng.randint(0, n), None), ("sl", 0, -3, None)]))
        c = refs[0].cols[-1]
        same = rng.random() < 0.7
        if not same:
            c = (c + 1) % 3
        tail = _rtext(rng, 1, 3) or "zz"
        p = rng.choice([("s", tail)] if c == 0 else []) if (c == 0 and rng.random() < 0.5) else \
            rng.choice([("c", c, tail), ("ls", [("c", c, tail)]), ("ls", [("c", c, ""), ("c", c, tail)])])
        push(("iadd", 0, p))
        n2 = len(refs[0].plain)
        for st in rng.sample([("idx", 0, -1), ("idx", 0, n2 - 1), ("idx", 0, n), ("sl", 0, -2, None), ("sl", 0, n, None),
                              ("sl", 0, n2 - 1, n2), ("sl", 0, n - 1, n + 1), ("fl", 0, n2 + 1), ("sl", 0, n // 2, None)], 3):
            push(st)
    return stmts


def gen_history(rng, nstmt, ncol):
    """a random history; the reference state is tracked so that `+=` can aim at the merge path (same colour as
    the last character of the target), at re-rendering after a mutation, and at valid bounds"""
    stmts, refs = [], []

    def push(st):
        try:
            ref_stmt(refs, st)
        except IndexError:
            pass
        except OutOfModel:
            return False
        stmts.append(st)
        return True
    if rng.random() < 0.04:
        push(("new", _many_chunks(rng, rng.choice(CHUNK_COUNTS[:12]))))
    else:
        push(("new", [_hist_part(rng, refs, ncol) for _ in range(rng.randint(0, 3))]))
    while len(stmts) < nstmt:
        a = rng.randrange(len(refs))
        n = len(refs[a].plain)
        op = rng.choice(["iadd", "iadd", "iadd", "iadd", "add", "radd", "join", "sl", "idx", "fl", "new"])
        if op == "iadd":
            r = rng.random()
            if r < 0.35 and n:                       # merge into the last chunk of the target
                c = refs[a].cols[-1]
                p = ("s", _rtext(rng, 1, 3)) if c == 0 and rng.random() < 0.5 else ("c", c, _rtext(rng, 1, 3))
            elif r < 0.5:                            # the target itself
                p = rng.choice([("o", a), ("ls", [("o", a)]), ("tp", [("o", a)])])
            else:
                p = _hist_part(rng, refs, ncol, avoid=a)
            push(("iadd", a, p))
        elif op == "add":
            push(("add", a, _hist_part(rng, refs, ncol)))
        elif op == "radd":
            p = rng.choice([("s", _rtext(rng)), ("ls", [_hist_part(rng, refs, ncol, 1)]), ("tp", [])])
            push(("radd", a, p))
        elif op == "join":
            push(("join", a, [_hist_part(rng, refs, ncol, 1) for _ in range(rng.randint(0, 3))]))
        elif op == "sl":
            g = _Gen(rng, 0, 1)
            push(("sl", a, g.bound(n), g.bound(n)))
        elif op == "idx":
            push(("idx", a, rng.randint(-n - 1, n)))
        elif op == "fl":
            push(("fl", a, rng.choice([n, n, n + 1, max(0, n - 1), rng.randint(0, n + 2)])))
        else:
            push(("new", [_hist_part(rng, refs, ncol) for _ in range(rng.randint(0, 3))]))
    return stmts


def _render_collisions(rng, count):
    """pairs (a, b) of texts with str(a) == str(b) where possible but different characters / colours / lengths: b has,
    as visible characters, the prefix / suffix sequences that separate chunks of a (captured coloured output)"""
    fm = _fmts()
    for _ in range(count):
        k = rng.randint(1, 4)
        chunks, c = [], rng.randrange(4)
        for _i in range(k):
            c = (c + 1 + rng.randrange(3)) % 4
            chunks.append((c, "".join(rng.choice("ab xy") for _j in range(rng.randint(0, 2)))))
        a = ("mk", [("c", c, t) for c, t in chunks])
        i = rng.randrange(k)
        j = rng.randrange(i, k)
        how = rng.randrange(4)
        if how == 0:                      # the whole rendering as plain characters
            content = "".join(fm[c][1] + t + fm[c][2] for c, t in chunks)
            b = ("mk", [rng.choice([("s", content), ("c", 0, content)])])
        else:                             # chunks i..j melted into one chunk of the colour of chunk i (or of a neighbour)
            body = "".join(fm[c][1] + t + fm[c][2] for c, t in chunks[i:j + 1])
            ci = chunks[i][0] if how < 3 else rng.randrange(4)
            pre, suf = fm[ci][1], fm[ci][2]
            if body.startswith(pre):
                body = body[len(pre):]
            if suf and body.endswith(suf):
                body = body[:-len(suf)]
            if how == 2 and body:          # near miss: one character of the sequence is wrong / missing
                q = rng.randrange(len(body))
                body = body[:q] + rng.choice(["", "1", "m"]) + body[q + 1:]
            b = ("mk", [("c", c, t) for c, t in chunks[:i]] + [("c", ci, body)] + [("c", c, t) for c, t in chunks[j + 1:]])
        yield [a, b] if rng.random() < 0.5 else [b, a]


def corpus():
    """minimised witnesses of the mutation experiments (each distinguishes a realistic defect)"""
    lines = [
        "val c:1:98 mk:1 sl:-2:n",            # negative start beyond the beginning is clamped to 0
        "val c:1:98 c:0:99 mk:2 idx:-1",      # last character of the last chunk
        "val c:1:98 c:0:99 mk:2 idx:1",       # first character of the second chunk
        "fmt 94,51 c:1:97,98",                # centring: the odd pad goes to the right
        "val mk:0",                           # CHText() == ""
        "val tp:0 mk:1",                      # a tuple is iterated like a list
        "eq c:1:- mk:0",                      # empty text == empty chunk of any colour
        "val c:1:98 mk:1 fl:2",               # fixed_len pads in the default colour
        "val c:1:98 fl:0",                    # Chunk.fixed_len truncates
        "fmt 60,49 mk:0",                     # '<1': default fill is a space
        "fmt 115 mk:0",                       # type character s
        "fmt 51 c:1:98",                      # default align is left
        "val c:1:97 c:1:98 s:99 s:100 mk:4",  # merging of equal neighbours
        "val c:1:120 c:1:- join:t:1",         # join of one element has no separator
        "val c:0:99 fl:2",                    # len() after a merge
        "val c:1:98 c:0:99 mk:2 dupiadd",     # fixed 6257f6b: t += t on two chunks never returned
        "val c:1:98 c:0:99 mk:2 dupiaddl",    # ... nor t += [t]
        "alias 0 mk:0 s:113",                 # fixed ec75272: fixed_len returned the text itself, u += 'q' changed x
        "alias 2 c:1:97,98 mk:1 c:1:113",     # the same with a merge into the last chunk
        # seed C09-m4: a cached str() that is not dropped when += merges into the last chunk
        "hist new c:1:97 ; iadd:0 c:1:98 ; iadd:0 s:99 ; iadd:0 s:100",
        # seed C08-m13: a text used as an iterable yields one item per character, not per chunk
        "val s:45 mk:1 s:97,98,99,100 mk:1 joinit",
        "val c:1:97,98 s:99,100 mk:2 iter",
        # seed C08-m14: content with a colour sequence in it, given or formed by a merge
        "val s:99,32,27,91,51,51,109,49,27,91,109,32,102 mk:1",
        "val s:27,91 mk:1 s:49,109 add",
        # seed C08-m16: a text holding the other's colour sequences as characters is another text
        "eq s:27,91,51,49,109,97,27,91,48,109 mk:1 c:1:97 mk:1",
        "eq c:1:97 c:2:98 mk:2 c:1:97,27,91,48,109,27,91,51,50,109,98 mk:1",
        "hist new c:1:97 s:98 ; add:0 c:2:99 ; iadd:0 s:100 ; iadd:1 c:2:101 ; sl:0:1:n ; iadd:0 o:0",
    ]
    return [{"lines": [l], "meta": {"kind": "corpus"}} for l in lines]


def search_cases(rng, tier):
    """directed search: all slices / indexes / widths over every split of a short text into colored chunks,
    after every way of assembling it"""
    # large sizes first: a changed pad / fill constant or a pre-built buffer shows only beyond its size
    for n in SIZES + [n + d for n in SIZES for d in (-1, 1, 2)]:
        for base in BASES:
            bt = _base_tree(base)
            m = sum(len(t) for t, _ in base)
            yield _case(line_of("val", [("fl", bt, n + m)]), "search-size")
            yield _case(line_of("fmt", [bt], "*^" + str(n + m)), "search-size")
            yield _case(line_of("fmt", [bt], str(n + m)), "search-size")
            toks = " ".join("c:%d:%s" % (c, enc_str(t)) for t, c in base)
            yield _case(("resize %d %s" % (n + m, toks)).strip(), "search-size")
            if len(base) == 1:
                yield _case(line_of("val", [("fl", ("c", base[0][1], base[0][0]), n + m)]), "search-size")
    text = "abcde"
    for n in range(0, 6):
        for mask in range(1 << max(0, n - 1)):
            cols, c = [], 1
            for i in range(n):
                cols.append(c)
                if i < n - 1 and mask >> i & 1:
                    c = (c + 1) % 3
            for _ in range(2):
                bt = _pieces_tree(rng, text[:n], cols)
                for i in [None] + list(range(-n - 2, n + 3)):
                    for j in [None] + list(range(-n - 2, n + 3)):
                        yield _case(line_of("val", [("sl", bt, i, j)]), "search-slice")
                for i in range(-n - 2, n + 2):
                    yield _case(line_of("val", [("idx", bt, i)]), "search-index")
                for m in range(0, n + 3):
                    yield _case(line_of("val", [("fl", bt, m)]), "search-fixedlen")
                    for al in ("", "<", ">", "^", "*<", "*>", "*^"):
                        yield _case(line_of("fmt", [bt], al + (str(m) if m else "")), "search-format")
                yield _case(line_of("eq", [bt, _pieces_tree(rng, text[:n], cols)]), "search-eq")
                yield _case(line_of("eq", [bt, ("s", text[:n])]), "search-eq")


# ------------------------------------------------------------------ shrinking
def _shrink_tree(t):
    """smaller trees: a child instead of the node, children shrunk, shorter texts, bounds nearer 0"""
    k = t[0]
    for x in kids_of(t):
        if x[0] not in ("ls", "tp", "it"):
            yield x
    if k == "s" and t[1]:
        yield ("s", t[1][1:])
        yield ("s", t[1][:-1])
    if k == "c":
        if t[2]:
            yield ("c", t[1], t[2][1:])
            yield ("c", t[1], t[2][:-1])
        if t[1] > 1:
            yield ("c", 1, t[2])
    if k in ("ls", "tp", "mk"):
        for i in range(len(t[1])):
            yield (k, t[1][:i] + t[1][i + 1:])
    if k == "join":
        for i in range(len(t[3])):
            yield ("join", t[1], t[2], t[3][:i] + t[3][i + 1:])
    if k in ("idx", "fl") and t[2] != 0:
        yield (k, t[1], t[2] - 1 if t[2] > 0 else t[2] + 1)
    if k == "sl":
        for a, b in ((None, t[3]), (t[2], None)):
            if (a, b) != (t[2], t[3]):
                yield ("sl", t[1], a, b)
        if t[2]:
            yield ("sl", t[1], t[2] - 1 if t[2] > 0 else t[2] + 1, t[3])
        if t[3]:
            yield ("sl", t[1], t[2], t[3] - 1 if t[3] > 0 else t[3] + 1)
    ks = kids_of(t)
    for i, x in enumerate(ks):
        for y in _shrink_tree(x):
            yield with_kids(t, ks[:i] + [y] + ks[i + 1:])


def _shrink_hist(case):
    meta = case.get("meta", {})
    stmts = parse_hist(case["lines"][0])
    if len(stmts) > 1:
        yield {"lines": [hist_line(stmts[:-1])], "meta": meta}
    for i, st in enumerate(stmts):
        if st[0] == "iadd":                  # does not allocate: object ids stay valid
            yield {"lines": [hist_line(stmts[:i] + stmts[i + 1:])], "meta": meta}

    def smaller(p):
        if p[0] == "s" and p[1]:
            yield ("s", p[1][1:])
        if p[0] == "c" and p[2]:
            yield ("c", p[1], p[2][1:])
        if p[0] in ("ls", "tp"):
            for j in range(len(p[1])):
                yield (p[0], p[1][:j] + p[1][j + 1:])
                for y in smaller(p[1][j]):
                    yield (p[0], p[1][:j] + [y] + p[1][j + 1:])
    for i, st in enumerate(stmts):
        if st[0] in ("new", "join"):
            parts = st[-1]
            for j in range(len(parts)):
                for cand in [parts[:j] + parts[j + 1:]] + [parts[:j] + [y] + parts[j + 1:] for y in smaller(parts[j])]:
                    yield {"lines": [hist_line(stmts[:i] + [st[:-1] + (cand,)] + stmts[i + 1:])], "meta": meta}
        elif st[0] in ("iadd", "add", "radd"):
            for y in smaller(st[2]):
                yield {"lines": [hist_line(stmts[:i] + [(st[0], st[1], y)] + stmts[i + 1:])], "meta": meta}


def shrink(case):
    line = case["lines"][0]
    if line.startswith("hist "):
        yield from _shrink_hist(case)
        return
    try:
        kind, trees, spec = parse_line(line)
    except Exception:
        return
    meta = case.get("meta", {})
    if kind in ("make", "resize"):
        head = line.split()[:1 if kind == "make" else 2]
        toks = line.split()[len(head):]
        for i in range(len(toks)):
            yield {"lines": [" ".join(head + toks[:i] + toks[i + 1:])], "meta": meta}
        return
    if kind not in ("val", "fmt", "eq", "alias"):
        return
    for i, t in enumerate(trees):
        for y in _shrink_tree(t):
            if kind != "val" and y[0] in ("ls", "tp", "it") and not (kind == "alias" and i == 1):
                continue
            try:
                yield {"lines": [line_of(kind, trees[:i] + [y] + trees[i + 1:], spec,
                                         via_of(line) if kind == "fmt" else None)], "meta": meta}
            except Exception:
                continue
    if kind == "alias" and spec > 0:
        yield {"lines": [line_of(kind, trees, spec - 1)], "meta": meta}
    if kind == "fmt":
        via = via_of(line)
        if via != "fn":
            yield {"lines": [line_of(kind, trees, spec)], "meta": meta}            # plain format()
        for i in range(len(spec)):
            yield {"lines": [line_of(kind, trees, spec[:i] + spec[i + 1:], via)], "meta": meta}


# ------------------------------------------------------------------ evidence
RULE = ("one case = one protocol line. Streams: (1) exhaustive slices/indexes/fixed_len/format widths on 7 base texts of 0-4 "
        "chunks and on single chunks; (1b) sizes: fixed_len / format width / resize_chunks_list / a history with paddings and "
        "truncations of 255, 256, 1023, 1024, 1025, 1100, 5000, 70000 characters (1% of the random fixed_len too; numbers travel, "
        "replies are run-length encoded on both sides); "
        "(1a) format specs: every fill character of 10 kinds (ascii punctuation incl. quotes and backslash, space, digits "
        "0/5/9 with an explicit align, the align characters, '{' '}', newline, 9 other line separators, controls incl. NUL, BMP incl. "
        "combining / non-ASCII digits / U+FFFF, non-BMP up to U+10FFFF) x every align x every entry point (format(), x.__format__, "
        "f-string with nested and with literally written spec, str.format with nested and literal spec, format_map) on texts and "
        "chunks, widths incl. 10, 20, 100, 105 (a zero digit that is not the zero flag); the random format cases draw fill kind, "
        "width and entry point the same way (tags fill:*, via:*, width:with-inner-zero, fill:0+explicit-align); "
        "(1c) a text / chunk / slice / sum used as the iterable: sep.join(x), list(x), CHText(list(x)), the for statement, "
        "on all base texts (one item per character is judged); (1d) content holding ESC, complete and split colour sequences "
        "(values, == and histories); "
        "(1e) long texts: histories over a text of 15..257 chunks (around 16, 24, 32, 64, 128, 256) that is indexed / sliced, "
        "extended by a += that merges into its last chunk, and indexed / sliced inside the new tail; == between a text and a "
        "text whose characters are the other's colour sequences (same rendering, other cells and lengths); every checked "
        "object is also probed at [-1], [n-1], [-2:], [n-1:], [n/2:], [:1]; (2) random operation trees of depth <= 4 (thorough 6) over 2-6 colours and texts of 0-4 "
        "(10%: 0-9) characters from 'abc xyz s05<é中' (constructor, +, +=, reflected + with str/list/tuple, join, [i], [i:j], "
        "fixed_len, list(x), x += x, x += [x], nested lists/tuples, empty operands), observed as value / format(spec) / == "
        "against a re-assembly of the same cells, a near miss, a str, a chunk; IndexError trees; (3) `u = x.fixed_len(n); "
        "u += b` observed on x and u; (4) histories of 3-7 (thorough 10) statements over several objects (new, +=, +, "
        "reflected +, join, [i:j], [i], fixed_len with operands that mention any object, also the target; += aimed at the "
        "merge path), every object dumped and re-rendered (len, chunks, plain_text, str, format) after every statement; "
        "(5) CHText.make / resize_chunks_list on random chunk lists incl. empty chunks; (6) Python's own slicing; (7) "
        "out-of-domain stream (negative fixed_len, malformed specs incl. zero flag '05' '<05' '0<05' and precision '.2' '5.2', "
        "`t += [t, t]`-like operands: model = code only, never judged). "
        "non-trivial = at least two operations and two distinct colours in the tree; a history with a += after at least "
        "two earlier statements; make/resize with >= 2 chunks; py-slice of >= 2 characters. Distinct by protocol line; the "
        "`types:` / `spec:` / `hist-op:` tags give the distribution over operand types of every dispatching operation")
TRUSTED = ["CPython str/list slicing, str.join, str.ljust, format(str, spec) (the reference side of the oracle)",
           "harness-side reading of str(text) into (character, colour) cells by the palette's own prefixes (the Lean side of "
           "the same step is C08.str_shows on top of C09's terminal model)",
           "lean/AkVerif/Lemmas/Sgr.lean, SgrText.lean (C09) are imported for str_shows / format_str_strip / palette_exists"]
ASSUMPTIONS = ["colour id = (c_prefix, c_suffix) of a ColorFmt-produced chunk; the suffix is a function of the prefix",
               "a `+=` operand that mentions its target more than once or after other elements (`t += [t, t]` gives four "
               "copies, `t += [x, t]` gives t x t x) has no unambiguous str reading: generated, compared with the model "
               "(C08.hist_self_twice), not judged by the oracle",
               "fills are not ESC; texts may hold ESC and whole colour sequences (streams esc-content / esc-history): there "
               "str()/format() are not read back into cells (the X part of the reply is `~` on both sides), everything else is",
               "outside the property (not generated): `x in text` (falls back to iteration: substrings are never found), "
               "hash() of chunks, slice steps (CHText raises ValueError), CHText.make keeping the caller's list object",
               "format specs with a zero flag / precision / sign / '=' align / grouping are other fields of the mini-language: "
               "outside \"format with fill/align/width\" by the coordinator's ruling; a few are generated in the out-of-domain "
               "stream (model = code only; the code differs from str there: '05' pads with blanks, '.2' raises ValueError)",
               "format(), f-strings, str.format and format_map hand the spec unchanged to type(x).__format__ (CPython): the model "
               "has one __format__ and ignores the entry point, the tie and the oracle exercise each of them; a spec with braces, "
               "quotes, backslashes or unprintable characters cannot be written literally into a template and goes through "
               "the nested form `{x:{spec}}` (tag via:fl(nested) / via:sl(nested))"]


def nontrivial(case, replies):
    line = case["lines"][0]
    kind, trees, _ = parse_line(line)
    if kind == "hist":
        stmts = parse_hist(line)
        return any(st[0] == "iadd" for st in stmts[2:]) and len(stmts) >= 3
    if kind in ("make", "resize"):
        return len(trees) >= 2
    if kind == "pyslice":
        return len(dec_str(trees[0])) >= 2
    if kind == "pyidx":
        return len(dec_str(trees[0])) >= 1
    ops, cols = 0, set()
    for t in trees:
        for x in _nodes(t):
            if x[0] == "s":
                if x[1]:
                    cols.add(0)
            elif x[0] == "c":
                if x[2]:
                    cols.add(x[1])
            else:
                ops += 1
    return ops + (kind != "val") >= 2 and len(cols) >= 2


def tags(case, replies):
    yield case.get("meta", {}).get("kind", "?")
    if " X ~" in replies[0]:
        yield "esc-in-content"
    if "*" in replies[0]:
        m = max(int(x) for x in re.findall(r"\*(\d+)", replies[0]))
        yield "run>=%d" % next(b for b in (70000, 5000, 1025, 1024, 256, 4) if m >= b)
    r = replies[0].split()
    yield "reply:" + (" ".join(r[:2]) if r[0] == "err" else r[0])
    line = case["lines"][0]
    kind, trees, _ = parse_line(line)
    if kind in ("make", "resize"):
        yield "chunks-in:%d" % len(trees)
        if any(not t for _, _, t in trees):
            yield kind + "-with-empty-chunk"
        return
    if kind == "hist":
        stmts = parse_hist(line)
        yield "hist-len:%d" % len(stmts)
        for op in sorted(set(st[0] for st in stmts)):
            yield "hist-op:" + op
        if any(st[0] == "iadd" and _mentions(st[2], st[1]) for st in stmts):
            yield "hist-self-operand"
        if "err" in replies[0]:
            yield "hist-with-error"
        k = max([len(st[1]) for st in stmts if st[0] == "new"] + [0])
        if k >= 15:
            yield "hist-chunks>=%d" % next(b for b in (257, 128, 64, 32, 24, 15) if k >= b)
        return
    if kind in ("val", "fmt", "eq", "alias"):
        # operand types of every dispatching operation, shape of the format spec
        seen = set()
        try:
            for t in trees:
                for x in _nodes(t):
                    if x[0] in ("add", "iadd"):
                        seen.add("%s:%s+%s" % (x[0], ev_ref(x[1]).kind, ev_ref(x[2]).kind))
                    elif x[0] in ("idx", "sl", "fl", "it", "dupiadd", "dupiaddl"):
                        seen.add("%s:%s" % (x[0], ev_ref(x[1]).kind))
                    elif x[0] == "join":
                        seen.add("join:%s" % ev_ref(x[2]).kind)
            if kind == "eq":
                seen.add("eq:%s==%s" % tuple(ev_ref(t).kind for t in trees))
        except (IndexError, OutOfModel):
            pass
        for x in sorted(seen):
            yield "types:" + x
        if kind == "fmt":
            spec = parse_line(line)[2]
            body = spec[:-1] if spec.endswith("s") else spec
            shape = ("fill+" if len(body) >= 2 and body[1] in "<>^" else "") + \
                ("align+" if any(c in "<>^" for c in body[:2]) else "") + \
                ("width" if body[-1:].isdigit() else "") + ("+s" if spec.endswith("s") else "")
            yield "spec:" + (shape.strip("+") or "empty") if _in_format_domain(spec) else "spec:out-of-domain"
            yield "via:" + via_of(line) + ("" if via_of(line) not in ("fl", "sl") or _literal_ok(spec) else "(nested)")
            if _in_format_domain(spec):
                if len(body) >= 2 and body[1] in "<>^":
                    yield "fill:" + FILL_KIND.get(body[0], "other")
                    if body[0] == "0":
                        yield "fill:0+explicit-align"
                    digits = body[2:]
                else:
                    digits = body.lstrip("<>^")
                if "0" in digits[1:]:
                    yield "width:with-inner-zero"
        yield "depth:%d" % max(_depth(t) for t in trees)
        for op in sorted(set(x[0] for t in trees for x in _nodes(t))):
            yield "op:" + op
        if r[0] == "T":
            yield "chunks:%d" % (0 if r[2] == "-" else r[2].count("/") + 1)


LEVEL_TEXT = ("Kernel-checked for all inputs on the Lean model of CHText / CHText.Chunk (chunk = colour id + text, cached scrlen): "
              "(1) the state invariant (no empty chunk, neighbours differ in colour, scrlen = number of visible characters) holds "
              "for CHText() and is preserved by _append_chunk, += with str/chunk/text/nested list/tuple, the constructor, +, "
              "reflected +, join, [i], [i:j], fixed_len (C08.canon); (2) refinement to the list of (character, colour) cells, one "
              "theorem per operation: += / constructor / + / reflected + concatenate cells, join = str.join, [i:j] = Python slicing "
              "for None/negative/out-of-range bounds (pySlice, itself proved against the index-level definition of the language "
              "reference), [i] = str indexing with IndexError in exactly the same cases, list(text) = the one-character texts of the "
              "cells (the iteration loop terminates; sep.join(text) puts the separator between all characters whatever the chunks "
              "are), fixed_len = s[:n].ljust(n), "
              "format(text, [[fill]align][width][s]) = Python's padding of the cells with default-coloured pads, hence its visible "
              "text = format(plain_text, spec), for ANY fill character (C08.format_fill writes the spec string out: newline and other "
              "line separators, '{', '}', digits - also '0' when an align character follows it -, the align characters themselves, "
              "non-BMP characters) and every width written without a leading zero ('10', '105' are inside); the chunk versions "
              "(Chunk.__format__) likewise. EXCLUDED from every format theorem and from the oracle: the other fields of the "
              "mini-language, in particular the ZERO FLAG and PRECISION, where the code does NOT behave like str - "
              "strip_colors(format(CHText(RED('ab'),'c'), '05')) is 'abc  ' while format('abc', '05') is 'abc00' (same for '<05'), and "
              "'.2' / '5.2' raise ValueError where str gives 'ab' / 'ab   ' (FmtSpec.Valid requires a width without leading zero; the "
              "coordinator ruled these specs outside \"format with fill/align/width\"; they are generated and only compared model = code); (3) == on texts satisfying the invariant is equality of "
              "cells (canonical chunk list is unique: C08.canon_repr), text == str iff default-coloured cells of that str, text == "
              "chunk, chunk == chunk/str outside the both-empty exception, with Python's reflected dispatch (C08.eq_parts); "
              "(4) C08.eval_refines: every typed operation tree of any depth over these operations evaluates in the model to a "
              "value whose texts satisfy the invariant and whose cells are exactly what the same operations give on plain "
              "sequences, or both raise IndexError; (5) histories over a store of objects (C08.hist_step, hist_run): every statement "
              "does to what all objects show what it does to a store of plain sequences, keeps every object canonical and writes "
              "exactly one object (+= its target, anything else a new object: no operation returns or changes an operand); "
              "`t += t`, `t += [t]` double the text, `t += [t, t]` gives four copies (hist_self_twice); nothing observed depends on "
              "an earlier state (no cache in the model; the tie re-renders and re-indexes every object after every statement; positions "
              "follow a += that merges into the last chunk: index_after_append); == is chunk-wise and cannot be the comparison of the "
              "renderings (eq_not_by_rendering: same str(), other cells); (6) str() and "
              "format() as strings, composed with C09's terminal and strip model (str_shows, format_str_strip, palette_exists): a "
              "terminal shows exactly the cells with the attributes of each character's formatter and ends in default state, "
              "strip_colors(str(x)) = plain_text, strip_colors(format(x, spec)) = format(plain_text, spec); (7) the internal "
              "helpers CHText.make (= the public constructor when no chunk is empty; keeps empty chunks otherwise) and "
              "resize_chunks_list (first n cells padded, exactly n characters, AssertionError for n < 0) (make_spec, resize_spec). "
              "The characters of __format__/fixed_len/resize (align set, defaults, type char, pad) are regenerated from "
              "ak/color.py on every run. Model = code is established by the differential run (exact chunk lists, len(), "
              "plain_text(), str() read back into cells, format output cells, ==, != in both directions, whole stores after every "
              "statement of a history), not proved.")
LEVEL_NOTE = ("Trusted: Lean kernel (axioms propext, Classical.choice, Quot.sound), translator/adapter/oracle in harness/c08.py, the "
              "sampled correspondence (exhaustive slices/indexes/fixed_len/widths on 7 base texts, 16 k random trees, 3 k histories, "
              "1.6 k make/resize lines quick; 400 k / 60 k / 32 k thorough), CPython's str on the oracle side, C09's lemma files "
              "for the string-level theorems. Rest on the tie only: that the real objects follow the store discipline of the "
              "history model (checked by mutating operands after an operation and re-observing every object) and that the real "
              "class has no cache (checked by re-rendering after every statement; seed C09-m4 is caught by this check). Not "
              "modelled: slice steps (rejected by CHText), format specs outside [[fill]align][width][s] (zero flag, precision, sign: "
              "the model follows the code - int() of everything after the align character - or answers `unmodelled`; no theorem, "
              "not judged; see the '05' example in the level text), the entry point of formatting (f-string / str.format / "
              "format_map: compared, not modelled), negative fixed_len (model follows the code, outside "
              "the property), `in`, hash, the list object CHText.make keeps. `t += [t, t]`-like operands are in the model (code "
              "reading) but have no str reading, so the oracle does not judge them.")
TECHNIQUE = ("Lean 4 refinement proof (chunk list -> list of coloured cells) + canonical-form invariant + store/frame model for "
             "histories + composition with the SGR model of C09 + correspondence check on operation trees and histories")
