"""C09 — emitted escape sequences are well-formed, self-contained and strippable (ak/color.py).

Protocol (one line per request, ASCII):
  fmt   <fg> <bg> <eff> <nc> <text>          str(ColorFmt(fg, bg_color=bg, ..., no_color=nc)(text))
  bytes <fg> <bg> <eff> <nc> <bytes>         ColorBytes(...)(bytes)
  cht   <n> (<fg> <bg> <eff> <nc> <text>)*n  t = CHText(*parts): str(t), t.plain_text(), strip_colors(str(t))
                                             (fg = P: the part is a plain str, not a chunk)
  pfmt  <text>                               str(ColorFmt.get_plaintext_fmt()(text))
  strip <text>                               CHText.strip_colors(text)
  term  <text>                               diagnostic: what a terminal shows (Lean `Sgr.interp` against the
                                             oracle's Python terminal; the real code is not involved)
colour token: N (None) | s:<code points> | i:<int> | t:<int,int,..> ('-' = empty) | o (a float)
eff: five letters N/F/T (None/False/True) for bold, faint, underline, blink, crossed;  nc: 0/1
strings: comma separated code points, '-' = empty.
"""
import ast
import os
import re

from harness.core import enc_str, dec_str

PROPERTY = "C09"
READY = True
THEOREMS = [
    "C09.sgr_std", "C09.strip_final", "C09.strip_class",
    "C09.mkSeq_total", "C09.valid_ok", "C09.invalid_raises", "C09.colour_domain", "C09.color_code",
    "C09.nocolor_no_esc", "C09.plain_no_esc",
    "C09.chunk_shows", "C09.chunk_resets", "C09.text_shows", "C09.text_invalid",
    "C09.strip_plain", "C09.strip_chunk", "C09.strip_render", "C09.strip_text",
    "C09.chunks_show", "C09.bytes_same",
]
RULE = ("fmt: every fg x bg pair of the 8 names, all 256 ints, all 216 cube triples, g0..g30 (each as fg and as bg), "
        "all 3^5 effect settings, malformed values (ints/tuples out of range, wrong lengths, unknown and mangled names, "
        "floats), no_color with valid and invalid values, random ESC-free unicode texts; bytes: the same specs with "
        "random ESC-free payloads; cht: CHText of 0..7 parts (chunks of a small pool of formatters so that neighbours "
        "merge, plain strs, empty texts); strip: random strings over ESC [ ; : m ? digits (ASCII and other Unicode "
        "decimal digits) and letters, emitted sequences cut at random places. non-trivial = fmt/bytes with a colour or "
        "effect or a malformed value, cht with >= 2 parts, strip/term of a string containing ESC; distinct by protocol line")
TRUSTED = ["re (regular expression engine; the pattern is read from the source and modelled as ESC [ class* final)",
           "Unicode decimal digit table of the running Python (\\d), passed to the model as generated ranges",
           "str.encode / bytes concatenation"]
ASSUMPTIONS = ["a terminal implements SGR as Sgr.run does: parameters 0,1,2,4,5,9,22,24,25,29,30-37,39,40-47,49 and the "
               "colon forms 38:5:n / 48:5:n (ITU T.416); bold and faint are independent attributes",
               "colour values are None, str, int, tuples of ints or objects of another hashable type; bool, list, tuples "
               "with non-int members and 'g'+<text int() accepts but that is not ASCII digits> are outside the domain"]

ESC = "\x1b"
EFFECTS = ["bold", "faint", "underline", "blink", "crossed"]
STD_NAMES = ["BLACK", "RED", "GREEN", "YELLOW", "BLUE", "MAGENTA", "CYAN", "WHITE"]   # ECMA-48: 30+k / 40+k


# ------------------------------------------------------------------ translator
class _Refuse(ValueError):
    pass


def _chars(s):
    return "[" + ", ".join("Char.ofNat %d" % ord(c) for c in s) + "]"


def _const_str(node, what):
    if isinstance(node, ast.Constant) and isinstance(node.value, str):
        return node.value
    raise _Refuse("%s is not a string literal" % what)


def _find(body, kind, name):
    for n in body:
        if isinstance(n, kind) and n.name == name:
            return n
    raise _Refuse("%s %s not found" % (kind.__name__, name))


def _ordered(node):
    """nodes in source order (depth first)"""
    yield node
    for ch in ast.iter_child_nodes(node):
        yield from _ordered(ch)


def _digit_ranges():
    """Unicode decimal digits = what `\\d` matches in a str pattern (checked against `re` below)"""
    rs = []
    for c in range(0x110000):
        if chr(c).isdecimal():
            if rs and rs[-1][1] == c - 1:
                rs[-1][1] = c
            else:
                rs.append([c, c])
    probe = re.compile(r"\d")
    for a, b in rs:
        if not (probe.fullmatch(chr(a)) and probe.fullmatch(chr(b))):
            raise _Refuse("\\d does not match str.isdecimal() characters")
    for c in (0x2f, 0x3a, 0xb2, 0x2460, 0x3007, 0x4e00):
        if probe.fullmatch(chr(c)):
            raise _Refuse("\\d matches a non-decimal character")
    return rs


def _strip_pattern(tree):
    import re._parser as sre
    from re._constants import LITERAL, IN, MAX_REPEAT, MAXREPEAT, CATEGORY, CATEGORY_DIGIT, RANGE
    cht = _find(tree.body, ast.ClassDef, "CHText")
    fn = _find(cht.body, ast.FunctionDef, "strip_colors")
    pats = []
    for n in _ordered(fn):
        if (isinstance(n, ast.Call) and isinstance(n.func, ast.Attribute) and n.func.attr == "compile"
                and isinstance(n.func.value, ast.Name) and n.func.value.id == "re"):
            if len(n.args) != 1 or n.keywords:
                raise _Refuse("re.compile with flags")
            pats.append(_const_str(n.args[0], "pattern"))
    if len(pats) != 1:
        raise _Refuse("strip_colors: expected exactly one re.compile(<literal>)")
    subs = [n for n in _ordered(fn) if isinstance(n, ast.Call) and isinstance(n.func, ast.Attribute)
            and n.func.attr == "sub" and isinstance(n.func.value, ast.Name) and n.func.value.id == "re"]
    if len(subs) != 1 or len(subs[0].args) != 3 or subs[0].keywords or _const_str(subs[0].args[1], "replacement") != "":
        raise _Refuse("strip_colors: expected re.sub(<pattern>, \"\", text)")
    p = sre.parse(pats[0])
    if p.state.flags & ~re.UNICODE.value or p.state.groups != 1:
        raise _Refuse("pattern has flags or groups")
    items = list(p)
    if (len(items) != 4 or items[0] != (LITERAL, 27) or items[1] != (LITERAL, 91)
            or items[2][0] is not MAX_REPEAT or items[3][0] is not LITERAL):
        raise _Refuse("pattern is not ESC \\[ <class>* <final>: %r" % pats[0])
    lo, hi, sub = items[2][1]
    if lo != 0 or hi is not MAXREPEAT or len(sub) != 1:
        raise _Refuse("pattern is not ESC \\[ <class>* <final>: %r" % pats[0])
    el = sub[0]
    cls_items = el[1] if el[0] is IN else [el]
    lits, ranges = [], []
    for k, v in cls_items:
        if k is LITERAL:
            lits.append(v)
        elif k is RANGE:
            ranges.append([v[0], v[1]])
        elif k is CATEGORY and v is CATEGORY_DIGIT:
            ranges.extend(_digit_ranges())
        else:
            raise _Refuse("unsupported class item %s %s" % (k, v))
    return lits, ranges, items[3][1]


def translate(repo):
    src = open(os.path.join(repo, "ak", "color.py")).read()
    tree = ast.parse(src)
    cs = _find(tree.body, ast.ClassDef, "_ColorSequences")
    # _COLORS
    colors = None
    for n in cs.body:
        if isinstance(n, ast.Assign) and len(n.targets) == 1 and isinstance(n.targets[0], ast.Name) \
                and n.targets[0].id == "_COLORS":
            colors = ast.literal_eval(n.value)
    if not isinstance(colors, dict) or not all(isinstance(k, str) and isinstance(v, str) for k, v in colors.items()):
        raise _Refuse("_COLORS is not a dict literal of strings")
    make = _find(cs.body, ast.FunctionDef, "make")
    argnames = [a.arg for a in make.args.args]
    if argnames != ["cls", "color", "bg_color"] + EFFECTS + ["no_color", "make_bytes"]:
        raise _Refuse("unexpected signature of make: %s" % argnames)
    effects, intro, final, joiner, reset = [], None, None, None, None
    for n in _ordered(make):
        if (isinstance(n, ast.If) and isinstance(n.test, ast.Name) and n.test.id in EFFECTS and not n.orelse
                and len(n.body) == 1 and isinstance(n.body[0], ast.Expr) and isinstance(n.body[0].value, ast.Call)):
            c = n.body[0].value
            if (isinstance(c.func, ast.Attribute) and c.func.attr == "append" and isinstance(c.func.value, ast.Name)
                    and c.func.value.id == "color_codes" and len(c.args) == 1):
                effects.append((n.test.id, _const_str(c.args[0], "effect code")))
        if isinstance(n, ast.Assign) and len(n.targets) == 1 and isinstance(n.targets[0], ast.Name):
            t, v = n.targets[0].id, n.value
            if t == "color_prefix" and isinstance(v, ast.BinOp):
                if not (isinstance(v.op, ast.Add) and isinstance(v.left, ast.BinOp) and isinstance(v.left.op, ast.Add)
                        and isinstance(v.left.right, ast.Call) and isinstance(v.left.right.func, ast.Attribute)
                        and v.left.right.func.attr == "join" and intro is None):
                    raise _Refuse("color_prefix is not <intro> + <joiner>.join(...) + <final>")
                intro = _const_str(v.left.left, "intro")
                joiner = _const_str(v.left.right.func.value, "joiner")
                final = _const_str(v.right, "final")
            elif t == "color_suffix" and isinstance(v, ast.Constant) and v.value != "":
                if reset is not None:
                    raise _Refuse("two non-empty suffixes")
                reset = _const_str(v, "suffix")
    if sorted(e for e, _ in effects) != sorted(EFFECTS) or None in (intro, final, joiner, reset):
        raise _Refuse("make(): effects %s, intro/final/joiner/reset %r" % (effects, (intro, final, joiner, reset)))
    elem = _find(cs.body, ast.FunctionDef, "_make_seq_element")
    fg_id = bg_id = ext = None
    for n in _ordered(elem):
        if (isinstance(n, ast.Assign) and len(n.targets) == 1 and isinstance(n.targets[0], ast.Name)
                and n.targets[0].id == "fg_bg_id" and isinstance(n.value, ast.IfExp)
                and isinstance(n.value.test, ast.Name) and n.value.test.id == "is_bg"):
            bg_id, fg_id = _const_str(n.value.body, "bg id"), _const_str(n.value.orelse, "fg id")
        if isinstance(n, ast.Return) and isinstance(n.value, ast.JoinedStr):
            v = n.value.values
            if (len(v) == 3 and isinstance(v[0], ast.FormattedValue) and isinstance(v[0].value, ast.Name)
                    and v[0].value.id == "fg_bg_id" and isinstance(v[2], ast.FormattedValue)
                    and isinstance(v[2].value, ast.Name) and v[2].value.id == "color"
                    and v[0].format_spec is None and v[2].format_spec is None
                    and v[0].conversion == -1 and v[2].conversion == -1):
                ext = _const_str(v[1], "256-colour infix")
    if None in (fg_id, bg_id, ext):
        raise _Refuse("_make_seq_element: fg/bg id or the f-string of the 256-colour form not recognised")
    lits, ranges, fin = _strip_pattern(tree)
    out = ["-- GENERATED by harness/c09.py:translate from /repo/ak/color.py -- do not edit",
           "import AkVerif.Model.Sgr", "namespace Gen.C09", "open Sgr", "",
           "def sgr : SgrCfg where",
           # a dict lookup does not depend on the order of the entries: emitted in canonical order
           "  colors := [" + ", ".join("(%s, %s)" % (_chars(k), _chars(v))
                                       for k, v in sorted(colors.items(), key=lambda kv: (kv[1], kv[0]))) + "]",
           "  effects := [" + ", ".join("(.%s, %s)" % (e, _chars(c)) for e, c in effects) + "]",
           "  intro := " + _chars(intro), "  final := " + _chars(final), "  joiner := " + _chars(joiner),
           "  reset := " + _chars(reset), "  fgId := " + _chars(fg_id), "  bgId := " + _chars(bg_id),
           "  ext := " + _chars(ext), "",
           "def stripClass : CharClass where",
           "  lits := " + _chars("".join(chr(c) for c in lits)),
           "  ranges := [" + ", ".join("(%d, %d)" % (a, b) for a, b in ranges) + "]", "",
           "def stripFinal : Char := Char.ofNat %d" % fin, "", "end Gen.C09", ""]
    return {"AkVerif/Gen/C09.lean": "\n".join(out)}


# ------------------------------------------------------------------ protocol <-> python values
def enc_color(v):
    if v is None:
        return "N"
    if isinstance(v, str):
        return "s:" + enc_str(v)
    if isinstance(v, bool):
        raise ValueError("bool colour values are outside the domain")
    if isinstance(v, int):
        return "i:%d" % v
    if isinstance(v, tuple):
        return "t:" + (",".join("%d" % x for x in v) if v else "-")
    return "o"


def dec_color(tok):
    if tok == "N":
        return None
    if tok == "o":
        return 1.5
    k, _, rest = tok.partition(":")
    if k == "s":
        return dec_str(rest)
    if k == "i":
        return int(rest)
    if k == "t":
        return () if rest == "-" else tuple(int(x) for x in rest.split(","))
    raise ValueError("bad colour token " + tok)


def dec_eff(tok):
    return {name: {"N": None, "F": False, "T": True}[ch] for name, ch in zip(EFFECTS, tok)}


def spec_tokens(fg, bg=None, eff="NNNNN", nc=0):
    return "%s %s %s %d" % (enc_color(fg), enc_color(bg), eff, nc)


def _kwargs(toks):
    kw = dec_eff(toks[2])
    kw["bg_color"] = dec_color(toks[1])
    kw["no_color"] = toks[3] == "1"
    return dec_color(toks[0]), kw


def dec_bytes(tok):
    return b"" if tok == "-" else bytes(int(x) for x in tok.split(","))


def enc_bytes(b):
    return ",".join("%d" % x for x in b) if b else "-"


# ------------------------------------------------------------------ real code
def _mod():
    from ak import color
    return color


def _err(e):
    return "err " + type(e).__name__


def _parts(toks):
    m = _mod()
    n = int(toks[0])
    parts = []
    for i in range(n):
        p = toks[1 + 5 * i: 6 + 5 * i]
        if p[0] == "P":
            parts.append(dec_str(p[4]))
        else:
            fg, kw = _kwargs(p)
            parts.append(m.ColorFmt(fg, **kw)(dec_str(p[4])))
    return parts


def impl(case):
    m = _mod()
    out = []
    for line in case["lines"]:
        op, *a = line.split()
        try:
            if op == "fmt":
                fg, kw = _kwargs(a)
                out.append("ok " + enc_str(str(m.ColorFmt(fg, **kw)(dec_str(a[4])))))
            elif op == "bytes":
                fg, kw = _kwargs(a)
                out.append("ok " + enc_bytes(m.ColorBytes(fg, **kw)(dec_bytes(a[4]))))
            elif op == "cht":
                t = m.CHText(*_parts(a))
                s = str(t)
                out.append("ok %s %s %s" % (enc_str(s), enc_str(t.plain_text()), enc_str(m.CHText.strip_colors(s))))
            elif op == "pfmt":
                out.append("ok " + enc_str(str(m.ColorFmt.get_plaintext_fmt()(dec_str(a[0])))))
            elif op == "strip":
                out.append("ok " + enc_str(m.CHText.strip_colors(dec_str(a[0]))))
            elif op == "term":
                out.append(show_term(terminal(dec_str(a[0]))))
            else:
                out.append("bad-op")
        except Exception as e:
            out.append(_err(e))
    return out


def observable(i, line):
    return not line.startswith("term ")


# ------------------------------------------------------------------ oracle: a terminal + the statement
DEFAULT = ("d", "d", (False,) * 5)
_FLAG_ON = {1: 0, 2: 1, 4: 2, 5: 3, 9: 4}
_FLAG_OFF = {22: (0, 1), 24: (2,), 25: (3,), 29: (4,)}


def _num(s):
    if s == "" or not all(c in "0123456789" for c in s):
        return None
    return int(s)


def _sgr(state, params, lenient):
    """ECMA-48 8.3.117 (SGR) with ITU T.416 colon sub-parameters; None = not in the supported subset.
    lenient (used by the oracle, not by the `term` cross-check of the Lean terminal): also the widespread
    legacy form 38;5;n / 48;5;n, so that a code change to that form would not be reported as a violation"""
    fg, bg, fl = state
    plist = params.split(";")
    k = 0
    while k < len(plist):
        p = plist[k]
        k += 1
        sub = p.split(":")
        if lenient and p in ("38", "48") and k + 1 < len(plist) and plist[k] == "5":
            sub = [p, "5", plist[k + 1]]
            k += 2
        if len(sub) == 1:
            n = 0 if p == "" else _num(p)
            if n is None:
                return None
            if n == 0:
                fg, bg, fl = DEFAULT
            elif n in _FLAG_ON:
                fl = fl[:_FLAG_ON[n]] + (True,) + fl[_FLAG_ON[n] + 1:]
            elif n in _FLAG_OFF:
                fl = tuple(False if i in _FLAG_OFF[n] else v for i, v in enumerate(fl))
            elif 30 <= n <= 37:
                fg = "b%d" % (n - 30)
            elif n == 39:
                fg = "d"
            elif 40 <= n <= 47:
                bg = "b%d" % (n - 40)
            elif n == 49:
                bg = "d"
            else:
                return None
        elif len(sub) == 3:
            a, b, c = (_num(x) for x in sub)
            if a not in (38, 48) or b != 5 or c is None or c > 255:
                return None
            if a == 38:
                fg = "x%d" % c
            else:
                bg = "x%d" % c
        else:
            return None
    return fg, bg, fl


def terminal(s, state=DEFAULT, lenient=False):
    """what a terminal shows: ([(char, state)], final state) or None when `s` contains anything but
    printable text and complete SGR sequences of the supported subset"""
    cells, i = [], 0
    while i < len(s):
        if s[i] != ESC:
            cells.append((s[i], state))
            i += 1
            continue
        if s[i + 1:i + 2] != "[":
            return None
        j = i + 2
        while j < len(s) and s[j] in "0123456789;:":
            j += 1
        if j >= len(s) or s[j] != "m":
            return None
        state = _sgr(state, s[i + 2:j], lenient)
        if state is None:
            return None
        i = j + 1
    return cells, state


def _show_state(st):
    return "%s/%s/%s" % (st[0], st[1], "".join("1" if f else "0" for f in st[2]))


def show_term(res):
    if res is None:
        return "bad"
    cells, fin = res
    groups = []
    for ch, st in cells:
        if groups and groups[-1][0] == st:
            groups[-1][1].append(ch)
        else:
            groups.append((st, [ch]))
    return "ok %s %s" % (_show_state(fin), "|".join("%s=%s" % (_show_state(st), enc_str("".join(chs)))
                                                   for st, chs in groups) or "-")


_CANON_GRAY = re.compile(r"g(0|[1-9][0-9]*)\Z")
_DIGIT_GRAY = re.compile(r"g[0-9]+\Z")


def wanted_colour(v):
    """the statement's colour grammar: ('ok', colour) | ('bad',) | ('either', colour) for the
    undocumented-but-harmless zero padded gray names ('g05'): the code may reject them or mean gray 5"""
    if v is None:
        return ("ok", "d")
    if isinstance(v, str):
        if v in STD_NAMES:
            return ("ok", "b%d" % STD_NAMES.index(v))
        if _DIGIT_GRAY.match(v):
            digits = v[1:].lstrip("0") or "0"
            if len(digits) > 2 or int(digits) > 23:
                return ("bad",)
            return ("ok" if _CANON_GRAY.match(v) else "either", "x%d" % (232 + int(digits)))
        return ("bad",)
    if isinstance(v, int) and not isinstance(v, bool):
        return ("ok", "x%d" % v) if 0 <= v <= 255 else ("bad",)
    if isinstance(v, tuple):
        if len(v) == 3 and all(isinstance(c, int) and 0 <= c <= 5 for c in v):
            return ("ok", "x%d" % (16 + 36 * v[0] + 6 * v[1] + v[2]))
        return ("bad",)
    return ("bad",)


def wanted(toks):
    """-> (verdict, state): verdict 'ok' | 'bad' | 'either'"""
    fg, kw = _kwargs(toks)
    a, b = wanted_colour(fg), wanted_colour(kw["bg_color"])
    if a[0] == "bad" or b[0] == "bad":
        return "bad", None
    st = (a[1], b[1], tuple(kw[e] is True for e in EFFECTS))
    return ("either" if "either" in (a[0], b[0]) else "ok"), st


def _check_shown(s, expect, what):
    """expect: list of (text, state)"""
    res = terminal(s, lenient=True)
    if res is None:
        return "malformed: %s: %r is not text + complete SGR sequences" % (what, s)
    cells, fin = res
    exp = [(ch, st) for t, st in expect for ch in t]
    if [c for c, _ in cells] != [c for c, _ in exp]:
        return "shown-text: %s: terminal shows %r" % (what, "".join(c for c, _ in cells))
    for k, ((c, got), (_, want)) in enumerate(zip(cells, exp)):
        if got != want:
            return "attributes: %s: character %d shown with %s, requested %s" % (
                what, k, _show_state(got), _show_state(want))
    if fin != DEFAULT:
        return "bleed: %s: terminal left in state %s" % (what, _show_state(fin))
    return None


def oracle(case, replies):
    m = _mod()
    for line, rep in zip(case["lines"], replies):
        op, *a = line.split()
        if op in ("fmt", "bytes"):
            verdict, st = wanted(a)
            nc = a[3] == "1"
            if nc:
                if verdict == "bad" and rep == "err ValueError":
                    continue            # rejecting an invalid value also under no_color would satisfy the statement
                st = DEFAULT
            elif verdict == "bad":
                if rep != "err ValueError":
                    return "invalid-accepted: %s gives %s" % (line, rep[:60])
                continue
            elif verdict == "either" and rep == "err ValueError":
                continue
            if not rep.startswith("ok "):
                return "valid-rejected: %s gives %s" % (line, rep)
            if op == "fmt":
                text, s = dec_str(a[4]), dec_str(rep[3:])
                if nc and ESC in s:
                    return "nocolor-esc: %s emits an escape character" % line
                msg = _check_shown(s, [(text, st)], line)
                if msg:
                    return msg
                if m.CHText.strip_colors(s) != text:
                    return "strip: strip_colors(%r) = %r" % (s, m.CHText.strip_colors(s))
            else:
                payload, got = dec_bytes(a[4]), dec_bytes(rep[3:])
                fg, kw = _kwargs(a)
                ref = str(m.ColorFmt(fg, **kw)(payload.decode("latin-1")))
                if nc and b"\x1b" in got:
                    return "nocolor-esc: %s emits an escape byte" % line
                if any(ord(c) > 255 for c in ref) or ref.encode("latin-1") != got:
                    return "bytes-differ: %s gives %r, the text formatter %r" % (line, got, ref)
                if "m" + payload.decode("latin-1") + ESC not in "m" + ref + ESC:
                    return "bytes-differ: payload not embedded"
        elif op == "cht":
            n = int(a[0])
            expect, bad, either = [], False, False
            for i in range(n):
                p = a[1 + 5 * i: 6 + 5 * i]
                if p[0] == "P":
                    expect.append((dec_str(p[4]), DEFAULT))
                    continue
                verdict, st = wanted(p)
                if p[3] == "1":
                    st = DEFAULT
                    if verdict == "bad":
                        either = True
                elif verdict == "bad":
                    bad = True
                elif verdict == "either":
                    either = True
                expect.append((dec_str(p[4]), st))
            if bad:
                if rep != "err ValueError":
                    return "invalid-accepted: %s gives %s" % (line, rep[:60])
                continue
            if either and rep == "err ValueError":
                continue
            if not rep.startswith("ok "):
                return "valid-rejected: %s gives %s" % (line, rep)
            s, pl, stripped = (dec_str(x) for x in rep[3:].split())
            text = "".join(t for t, _ in expect)
            msg = _check_shown(s, expect, line)
            if msg:
                return msg
            if pl != text:
                return "plain-text: plain_text() = %r, parts were %r" % (pl, text)
            if stripped != pl:
                return "strip: strip_colors(%r) = %r, plain_text() = %r" % (s, stripped, pl)
        elif op == "pfmt":
            if rep != "ok " + a[0]:
                return "nocolor-esc: the plain-text formatter turns %r into %s" % (dec_str(a[0]), rep)
        elif op == "strip":
            s = dec_str(a[0])
            if not rep.startswith("ok "):
                return "strip-fails: strip_colors(%r) gives %s" % (s, rep)
            if ESC not in s and dec_str(rep[3:]) != s:
                return "strip: text without escape characters changed: %r -> %r" % (s, dec_str(rep[3:]))
    return None


# ------------------------------------------------------------------ generators
_LETTERS = "abcxyzmMGg RED019;:[]?_-+.\t\n\x07\x9b"
_UNI = ["\xe9", "Ж", "中", "\U0001F600", "٣", "३", "５", "\U0001d7d6", "\xb2", "①", "​"]


def rand_text(rng, maxlen=12):
    r = rng.random()
    n = 0 if r < 0.08 else rng.randrange(1, maxlen + 1)
    out = []
    for _ in range(n):
        k = rng.random()
        if k < 0.6:
            out.append(rng.choice(_LETTERS))
        elif k < 0.8:
            out.append(rng.choice(_UNI))
        else:
            c = rng.randrange(0, 0x3000)
            out.append(chr(c) if c != 27 and not 0xD800 <= c <= 0xDFFF else "x")
    return "".join(out)


def rand_valid_color(rng):
    k = rng.randrange(6)
    if k == 0:
        return None
    if k == 1:
        return rng.choice(STD_NAMES)
    if k == 2:
        return rng.randrange(256)
    if k == 3:
        return (rng.randrange(6), rng.randrange(6), rng.randrange(6))
    if k == 4:
        return "g%d" % rng.randrange(24)
    return rng.choice([0, 7, 8, 15, 16, 231, 232, 255, "BLACK", "WHITE", (0, 0, 0), (5, 5, 5), "g0", "g23"])


def _py_int_ok(s):
    try:
        int(s)
        return True
    except ValueError:
        return False


def in_domain_str(s):
    """'g' + <something int() accepts that is not plain ASCII digits> ('g+5', 'g 5', 'g1_0', 'g-0') is excluded"""
    if s.startswith("g") and s not in STD_NAMES:
        rest = s[1:]
        if not (rest.isascii() and rest.isdigit()) and _py_int_ok(rest) and int(rest) >= 0:
            return False
    return True


MALFORMED = [-1, -2, -255, -256, 256, 257, 300, 1000, 2 ** 31, 2 ** 64, -2 ** 64,
             (), (1,), (1, 2), (1, 2, 3, 4), (0, 0, 0, 0, 0, 0), (6, 0, 0), (0, 6, 0), (0, 0, 6), (-1, 0, 0), (0, -1, 0),
             (0, 0, -1), (5, 5, 6), (255, 255, 255), (-5, -5, -5), (1, 2, 10 ** 20),
             "", "g", "G", "G5", "g24", "g25", "g30", "g99", "g100", "g255", "g256", "g-1", "g-5", "g1.5", "g1e1", "gx",
             "g5x", "gg5", "g0x10", "red", "Red", "green", "GREEN ", " RED", "RED\n", "REDD", "RE", "ORANGE", "GRAY",
             "GREY", "gray", "black", "0", "1", "31", "255", "BRIGHT_RED", "-", "DEFAULT", "None", "g" + "9" * 30,
             "g" + "1" * 5000, "г" + "5", 1.5]
PADDED = ["g00", "g05", "g007", "g023", "g0023", "g024", "g0000", "g" + "0" * 40 + "7", "g" + "0" * 40 + "24"]


def rand_malformed(rng):
    k = rng.randrange(5)
    if k == 0:
        return rng.choice(MALFORMED)
    if k == 1:
        return rng.choice([rng.randrange(-300, 0), rng.randrange(256, 600), rng.randrange(256, 10 ** 12)])
    if k == 2:
        n = rng.choice([0, 1, 2, 3, 3, 3, 4, 5])
        t = tuple(rng.randrange(-2, 9) for _ in range(n))
        return t if wanted_colour(t)[0] == "bad" else (7,) + t[1:]
    if k == 3:
        base = rng.choice(STD_NAMES + ["g5", "g23", "g"])
        i = rng.randrange(len(base) + 1)
        s = rng.choice([base[:i] + base[i + 1:], base[:i] + rng.choice("xG5 _g") + base[i:], base.lower(), base + base])
    else:
        s = "".join(rng.choice("gG0123459xR ED-.") for _ in range(rng.randrange(0, 6)))
    if not in_domain_str(s) or wanted_colour(s)[0] != "bad":
        return "bogus"
    return s


def rand_eff(rng):
    r = rng.random()
    if r < 0.4:
        return "NNNNN"
    return "".join(rng.choice("NFT" if r < 0.8 else "NT") for _ in range(5))


def _case(line, kind):
    return {"lines": [line], "meta": {"kind": kind}}


def _emitted(fg, bg=None, eff="NNNNN"):
    """a sequence of the kind the package emits, built from the statement (not by the code)"""
    codes = []
    for v, base in ((fg, 30), (bg, 40)):
        w = wanted_colour(v)[1]
        if w[0] == "b":
            codes.append("%d" % (base + int(w[1:])))
        elif w[0] == "x":
            codes.append("%d:5:%s" % (base + 8, w[1:]))
    codes += [c for c, e in zip("12459", eff) if e == "T"]
    return ESC + "[" + ";".join(codes) + "m" if codes else ""


def rand_fragment_string(rng):
    out = []
    for _ in range(rng.randrange(1, 9)):
        k = rng.random()
        if k < 0.35:
            seq = rng.choice([_emitted(rand_valid_color(rng), rand_valid_color(rng), rand_eff(rng)), ESC + "[0m",
                              ESC + "[m", ESC + "[38;5;123m", ESC + "[1;22m", ESC + "[39;49m"])
            if seq and rng.random() < 0.4:
                i = rng.randrange(len(seq) + 1)
                seq = rng.choice([seq[:i], seq[i:], seq[:i] + rng.choice("x?m;: [\x1b٣") + seq[i:], seq[:i] + seq[i + 1:]])
            out.append(seq)
        elif k < 0.7:
            out.append("".join(rng.choice("\x1b[[;:m019?Mx ٣５") for _ in range(rng.randrange(1, 7))))
        else:
            out.append(rand_text(rng, 5))
    return "".join(out)


def gen_cases(rng, tier):
    thorough = tier != "quick"
    gray = ["g%d" % i for i in range(31)]
    cube = [(r, g, b) for r in range(6) for g in range(6) for b in range(6)]
    t0 = enc_str("ab")
    # --- exhaustive small scopes
    for a in [None] + STD_NAMES:
        for b in [None] + STD_NAMES:
            yield _case("fmt %s %s" % (spec_tokens(a, b), t0), "fmt-names")
    singles = list(range(256)) + cube + gray
    for v in singles:
        yield _case("fmt %s %s" % (spec_tokens(v, None), t0), "fmt-fg")
        yield _case("fmt %s %s" % (spec_tokens(None, v), t0), "fmt-bg")
        other = rand_valid_color(rng)
        yield _case("fmt %s %s" % (spec_tokens(v, other, rand_eff(rng)), enc_str(rand_text(rng))), "fmt-mixed")
        yield _case("fmt %s %s" % (spec_tokens(other, v, rand_eff(rng)), enc_str(rand_text(rng))), "fmt-mixed")
    for n in range(3 ** 5):
        eff = "".join("NFT"[(n // 3 ** i) % 3] for i in range(5))
        yield _case("fmt %s %s" % (spec_tokens(None, None, eff), t0), "fmt-effects")
        yield _case("fmt %s %s" % (spec_tokens(rand_valid_color(rng), rand_valid_color(rng), eff),
                                   enc_str(rand_text(rng))), "fmt-effects")
        yield _case("bytes %s %s" % (spec_tokens(rand_valid_color(rng), rand_valid_color(rng), eff),
                                     enc_bytes(bytes(rng.choice([65, 109, 59, 0, 200, 255, 91]) for _ in range(rng.randrange(4))))),
                    "bytes")
    # --- malformed values
    for v in MALFORMED + PADDED:
        for eff, nc in (("NNNNN", 0), ("TNNNT", 0), ("NNNNN", 1)):
            kind = "fmt-padded-gray" if v in PADDED else "fmt-malformed"
            yield _case("fmt %s %s" % (spec_tokens(v, None, eff, nc), t0), kind)
            yield _case("fmt %s %s" % (spec_tokens(None, v, eff, nc), t0), kind)
            yield _case("fmt %s %s" % (spec_tokens(rand_valid_color(rng), v, eff, nc), t0), kind)
            yield _case("fmt %s %s" % (spec_tokens(v, rand_valid_color(rng), eff, nc), t0), kind)
        yield _case("bytes %s %s" % (spec_tokens(v, None), enc_bytes(b"ab")), "bytes-malformed")
        yield _case("bytes %s %s" % (spec_tokens("RED", v, "TNNNN", rng.randrange(2)), enc_bytes(b"ab")), "bytes-malformed")
    for _ in range(600 if not thorough else 30000):
        v = rand_malformed(rng)
        fg, bg = (v, rand_valid_color(rng)) if rng.random() < 0.5 else (rand_valid_color(rng), v)
        if rng.random() < 0.15:
            fg, bg = rand_malformed(rng), rand_malformed(rng)
        yield _case("fmt %s %s" % (spec_tokens(fg, bg, rand_eff(rng), int(rng.random() < 0.15)), enc_str(rand_text(rng, 4))),
                    "fmt-malformed")
    # --- random valid
    for _ in range(1500 if not thorough else 100000):
        nc = int(rng.random() < 0.1)
        yield _case("fmt %s %s" % (spec_tokens(rand_valid_color(rng), rand_valid_color(rng), rand_eff(rng), nc),
                                   enc_str(rand_text(rng, 30 if thorough else 12))), "fmt-nocolor" if nc else "fmt-random")
    for _ in range(300 if not thorough else 20000):
        nc = int(rng.random() < 0.1)
        payload = bytes(rng.choice([rng.randrange(256), 65, 109, 59, 58, 91]) for _ in range(rng.randrange(0, 10)))
        payload = payload.replace(b"\x1b", b"?")
        yield _case("bytes %s %s" % (spec_tokens(rand_valid_color(rng), rand_valid_color(rng), rand_eff(rng), nc),
                                     enc_bytes(payload)), "bytes")
    if thorough:
        allc = [None] + STD_NAMES + list(range(256)) + cube + ["g%d" % i for i in range(24)]
        for a in allc:
            for b in allc:
                yield _case("fmt %s %s" % (spec_tokens(a, b, rand_eff(rng)), enc_str(rand_text(rng, 3))), "fmt-pairs")
    for _ in range(40 if not thorough else 2000):
        yield _case("pfmt " + enc_str(rand_text(rng)), "pfmt")
    # --- CHText of several parts
    for _ in range(1500 if not thorough else 60000):
        pool = [(rand_valid_color(rng), rand_valid_color(rng), rand_eff(rng)) for _ in range(rng.randrange(1, 4))]
        pool.append((None, None, rng.choice(["NNNNN", "FFNNF"])))
        n = rng.randrange(0, 8)
        toks, bad = [], False
        for _ in range(n):
            r = rng.random()
            text = "" if rng.random() < 0.15 else rand_text(rng, 6)
            if r < 0.2:
                toks.append("P N NNNNN 0 " + enc_str(text))
            elif r < 0.23:
                toks.append("%s %s" % (spec_tokens(rand_malformed(rng), None), enc_str(text)))
                bad = True
            else:
                fg, bg, eff = rng.choice(pool)
                toks.append("%s %s" % (spec_tokens(fg, bg, eff, int(rng.random() < 0.07)), enc_str(text)))
        yield _case("cht %d %s" % (n, " ".join(toks)) if n else "cht 0", "cht-malformed" if bad else "cht-%d" % min(n, 4))
    # --- strip_colors / terminal on arbitrary strings
    for _ in range(2500 if not thorough else 200000):
        s = rand_fragment_string(rng)
        s = "".join(c for c in s if not 0xD800 <= ord(c) <= 0xDFFF)
        yield _case("strip " + enc_str(s), "strip-esc" if ESC in s else "strip-plain")
        if rng.random() < 0.5:
            yield _case("term " + enc_str(s), "term")
    for s in ["", ESC, ESC + "[", ESC + "[m", ESC + "[0m", ESC + "[;m", ESC + "[:m", ESC + "[0", ESC + ESC + "[0m",
              ESC + "[" + ESC + "[0m", ESC + "[0mm", ESC + "[1;2;4;5;9m", ESC + "[38:5:255m", ESC + "[38:5:256m",
              ESC + "[38;5;1m", ESC + "[٣m", ESC + "[3５m", ESC + "[31M", ESC + "[?25m", ESC + "[ 1m",
              ESC + "[31;", ESC + "[31;m" + ESC + "[0m", "m" + ESC + "[31mm" + ESC + "[0mm"]:
        yield _case("strip " + enc_str(s), "strip-fixed")
        yield _case("term " + enc_str(s), "term")


def search_cases(rng, tier):
    """directed search around the modelled constructs: every single colour value in every position with
    texts made of the characters of the sequences themselves, every effect, every boundary value"""
    texts = ["x", "m", "0m", ";1m", ":", "[31m", "38:5:1", ""]
    vals = [None] + STD_NAMES + list(range(256)) + [(r, g, b) for r in range(6) for g in range(6) for b in range(6)] \
        + ["g%d" % i for i in range(31)]
    for v in vals:
        for t in texts[:3]:
            yield _case("fmt %s %s" % (spec_tokens(v, None), enc_str(t)), "search-fg")
            yield _case("fmt %s %s" % (spec_tokens(None, v), enc_str(t)), "search-bg")
        yield _case("cht 3 %s %s P N NNNNN 0 %s %s %s" % (spec_tokens(v, None), enc_str("a"), enc_str("b"),
                                                          spec_tokens("RED", v, "TTTTT"), enc_str("c")), "search-cht")
        yield _case("bytes %s %s" % (spec_tokens(v, v, "TNTNT"), enc_bytes(b"m;")), "search-bytes")
    for n in range(3 ** 5):
        eff = "".join("NFT"[(n // 3 ** i) % 3] for i in range(5))
        for t in texts:
            yield _case("fmt %s %s" % (spec_tokens(None, None, eff), enc_str(t)), "search-eff")
        yield _case("fmt %s %s" % (spec_tokens(5, "CYAN", eff), enc_str("q")), "search-eff")
    for v in MALFORMED + PADDED + list(range(-20, 0)) + list(range(256, 300)):
        for nc in (0, 1):
            yield _case("fmt %s %s" % (spec_tokens(v, None, "NNNNN", nc), enc_str("x")), "search-malformed")
            yield _case("fmt %s %s" % (spec_tokens(None, v, "NNNNN", nc), enc_str("x")), "search-malformed")
    for a in range(-1, 8):
        for b in range(-1, 8):
            for c in range(-1, 8):
                yield _case("fmt %s %s" % (spec_tokens((a, b, c), None), enc_str("x")), "search-cube")


def corpus():
    """witnesses of the defect fixed by 0251bc8 (256-colour sequences were not stripped) and other fixed points"""
    return [_case(l, "corpus") for l in [
        "fmt i:123 N NNNNN 0 120",
        "fmt t:1,2,3 s:103,53 NNNNN 0 120",
        "cht 3 i:123 N NNNNN 0 97 P N NNNNN 0 98 s:82,69,68 s:103,50,51 TTTTT 0 99",
        "cht 2 s:82,69,68 N NNNNN 0 97 s:82,69,68 N NNNNN 0 98",
        "bytes i:123 N TNNNN 0 120",
        "fmt s:98,111,103,117,115 N NNNNN 1 120",
        "strip 97,27,91,51,56,58,53,58,49,50,51,109,98,27,91,48,109",
    ]]


# ------------------------------------------------------------------ shrinking, counting
def _shorter(tok):
    s = dec_str(tok)
    for i in range(len(s)):
        yield enc_str(s[:i] + s[i + 1:])


def shrink(case):
    line = case["lines"][0]
    op, *a = line.split()

    def mk(toks):
        return {"lines": [" ".join([op] + toks)], "meta": case.get("meta", {})}
    if op in ("fmt", "bytes"):
        if a[1] != "N":
            yield mk([a[0], "N"] + a[2:])
        if a[0] != "N":
            yield mk(["N"] + a[1:])
        if a[2] != "NNNNN":
            yield mk(a[:2] + ["NNNNN"] + a[3:])
            for i in range(5):
                if a[2][i] != "N":
                    yield mk(a[:2] + [a[2][:i] + "N" + a[2][i + 1:]] + a[3:])
        if op == "fmt":
            for t in _shorter(a[4]):
                yield mk(a[:4] + [t])
        elif a[4] != "-":
            yield mk(a[:4] + ["-"])
    elif op == "cht":
        n = int(a[0])
        parts = [a[1 + 5 * i: 6 + 5 * i] for i in range(n)]
        for i in range(n):
            rest = parts[:i] + parts[i + 1:]
            yield mk([str(n - 1)] + [t for p in rest for t in p])
        for i in range(n):
            for t in _shorter(parts[i][4]):
                q = parts[:i] + [parts[i][:4] + [t]] + parts[i + 1:]
                yield mk([str(n)] + [x for p in q for x in p])
            if parts[i][0] == "P":
                continue
            cands = []
            if parts[i][1] != "N":
                cands.append([parts[i][0], "N"] + parts[i][2:])
            if parts[i][0] != "N":
                cands.append(["N"] + parts[i][1:])
            if parts[i][2] != "NNNNN":
                cands.append(parts[i][:2] + ["NNNNN"] + parts[i][3:])
                for j in range(5):
                    if parts[i][2][j] != "N":
                        cands.append(parts[i][:2] + [parts[i][2][:j] + "N" + parts[i][2][j + 1:]] + parts[i][3:])
            for cnd in cands:
                q = parts[:i] + [cnd] + parts[i + 1:]
                yield mk([str(n)] + [x for p in q for x in p])
    elif op in ("strip", "term", "pfmt"):
        for t in _shorter(a[0]):
            yield mk([t])


def nontrivial(case, replies):
    op, *a = case["lines"][0].split()
    if op in ("fmt", "bytes"):
        return a[:3] != ["N", "N", "NNNNN"]
    if op == "cht":
        return int(a[0]) >= 2
    if op == "pfmt":
        return a[0] != "-"
    return "27" in a[0].split(",")


def tags(case, replies):
    yield case.get("meta", {}).get("kind", "?")
    r = replies[0].split()
    yield "reply:" + r[0] + (":" + r[1] if r[0] == "err" and len(r) > 1 else "")


LEVEL_TEXT = ("Proved in Lean for all colour values, all effect settings and all escape-free texts, on a model of "
              "_ColorSequences.make / _make_seq_element / CHText construction, str() and strip_colors whose constants "
              "(colour table, effect codes, sequence literals, strip pattern class) are regenerated from ak/color.py on "
              "every run: a terminal (SGR interpreter written from ECMA-48/T.416) starting in default state shows every "
              "character of every chunk with exactly the requested fg/bg/effects and is in default state after every "
              "chunk and at the end, also after CHText's merging of neighbours and for any other arrangement of chunks whose "
              "prefix/suffix pairs come from formatters; strip(render) = plain text (also embedded in other text); no_color "
              "and plain formatters emit nothing; the bytes formatter emits the same ASCII sequences; mkSeq succeeds "
              "exactly on {8 names, 0-255, (r,g,b) in [0,5]^3 -> 16+36r+6g+b, g<digits> <= 23 -> 232+N} and raises "
              "ValueError otherwise. model = code by differential run (exhaustive over names x names, 256 ints, 216 "
              "triples, g0-g30, 3^5 effect settings; random texts, CHText part lists, strings with ESC fragments).")
LEVEL_NOTE = ("Trusted: Lean kernel, translator/adapter/oracle in harness/c09.py, the correspondence (exhaustive over the "
              "finite colour domain, sampled over texts), Python's re and str.encode, and that real terminals implement "
              "SGR as Sgr.run (colon form 38:5:n). Out of domain by decision: bool/list colour values, tuples with "
              "non-int members, 'g+5'-style strings accepted by int().")
TECHNIQUE = ("Lean 4 theorems (terminal state machine, induction over chunks; finite table facts decided by the kernel "
             "and lifted) + translator for tables/literals/regex class + exhaustive correspondence + independent Python "
             "terminal as oracle")
