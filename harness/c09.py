"""C09 — emitted escape sequences are well-formed, self-contained and strippable (ak/color.py).

Protocol (one line per request, ASCII):
  fmt   <fg> <bg> <eff> <nc> <text>          str(ColorFmt(fg, bg_color=bg, ..., no_color=nc)(text))
  bytes <fg> <bg> <eff> <nc> <bytes>         ColorBytes(...)(bytes)
  cht   <n> (<fg> <bg> <eff> <nc> <text>)*n @ <value>
                                             t = CHText(*parts): str(t), t.plain_text(), strip_colors(str(t)) and t's
                                             own chunk list (fg = P: the part is a plain str, not a chunk)
  pfmt  <text>                               str(ColorFmt.get_plaintext_fmt()(text))
  make  <n> (<fg> <bg> <eff> <nc> <text>)*n @ <value>
                                             t = CHText.make([chunks]) (the other constructor; P = make_plain chunk)
  lst   <src> <helper> <sink> <n> (<fg> <bg> <eff> <nc> <text>)*n @ <value>
                                             a chunk LIST through a public list helper, then turned into a str:
                                             src fmts (the formatters' results) | obj (CHText(*parts).chunks);
                                             helper id | rs:<len>,<len>.. (CHText.resize_chunks_list once per length:
                                             pads / truncates / returns the list); sink make (str(CHText.make(res))) |
                                             ctor (str(CHText(*res))) | ctorl (str(CHText(res))) | join (the chunks printed
                                             one after the other)
  route <fg> <bg> <eff> <nc> <route> <text> @ <left> <right>
                                             x = ColorFmt(...)(text) turned into a str: str (str(x)) | pct ('%s' % x) | fstr
                                             (f"{x}") | fmt:<spec> (format(x, spec)) | sfmt:<spec> ("{:spec}".format(x)) |
                                             tfmt:<spec> (format(CHText(x), spec)) | addr:<s> (str(x + s)) | addl:<s> (str(s + x));
                                             data: what the real route wrote left / right of the text (seen on the terminal)
  first <entry> <text>                       the first call on a freshly imported copy of ak/color.py:
                                             chunk-strip CHText.Chunk.strip_colors(text) | obj-strip fmt("q").strip_colors(text)
                                             | cht-strip CHText.strip_colors(text) | plain-fmt get_plaintext_fmt()(text)
  seq   <n> entries                          several calls in ONE process, in order; entry =
                                             F <fg> <bg> <eff> <nc> <text>   f = ColorFmt(...); str(f(text))
                                             B <fg> <bg> <eff> <nc> <bytes>  ColorBytes(...)(bytes)
                                             R <k> <text>                    the ColorFmt object of entry k again
                                             P <text>                        ColorFmt.get_plaintext_fmt()(text)
  hist  <k> (<fg> <bg> <eff> <nc>)*k ops     ONE CHText object x = CHText(), formatters 1..k (0 = plain), ops:
                                             a:<id>:<text> x += fmt_id(text) | p:<text> x += text | self x += x |
                                             selfl x += [x] | cl x = CHText(x) | r  observe str(x), plain_text(),
                                             strip_colors(str(x))
  ops   <k> (<fg> <bg> <eff> <nc>)*k program postfix program over CHText operations (token language of C08:
                                             s: c:<id>: ls: tp: mk: add iadd join: idx: sl: fl: dupiadd dupiaddl);
                                             str / plain_text / strip of the resulting CHText or chunk
  cht / make / lst / hist / ops lines end with `@ <value> ...`: the chunk list(s) `id:text/id:text` (`_` = none, E:<Name> = the
  operations raised) that the REAL object reported when the case was generated. The driver renders that value
  (C09.value_shows is about every value) and the oracle judges str(x) against the object's own chunk list, so a
  change that only breaks what a CHText operation produces (C08) is no C09 alarm. Each such line has a diagnostic
  twin chtm / makem / lstm / histm / opsm (no data) where the model evaluates the operations itself; differences there are logged
  as diagnostics and never reach the verdict.
  strip <text>                               CHText.strip_colors(text)
  term  <text>                               diagnostic: what a terminal shows (Lean `Sgr.interp` against the
                                             oracle's Python terminal; the real code is not involved)
eff / nc letters: N None, F False, T True, 0 1 2 (ints), e "", x "x", l [], L [0], z 0.0, h 1.5 - the code's
              contract is truthiness, the oracle requests an effect iff the value is truthy
colour token: N (None) | s:<code points> | i:<int> | ie:<int> (IntEnum member) | is:<int> (instance of an int subclass) |
              f:<decimal> (a float) | ib:<0|1> (bool) | t:<member,..> ('-' = empty; member with '.' = float, e<n> IntEnum, s<n> int
              subclass, b<0|1> bool, N None, a the str 'a', d the str '1', u the tuple (1,), o an object()) | tn: (namedtuple) |
              ts: (tuple subclass) | l:<member,..> (a list) | lsub: (list subclass) | o (a bytes object) | od {} | od1 {1: 2} |
              os {1, 2, 3} | of frozenset | oo object() | oc 1j
eff: five flag letters for bold, faint, underline, blink, crossed;  nc: one flag letter
strings: comma separated code points, '-' = empty.
"""
import ast
import collections
import enum
import os
import re

from harness.core import enc_str, dec_str

PROPERTY = "C09"
READY = True
THEOREMS = [
    "C09.sgr_std", "C09.strip_final", "C09.strip_class", "C09.mkSeq_total", "C09.valid_ok", "C09.invalid_raises",
    "C09.colour_domain", "C09.color_code", "C09.flags_by_truthiness", "C09.flag_kinds_irrelevant",
    "C09.nocolor_no_esc", "C09.plain_no_esc", "C09.chunk_shows", "C09.chunk_resets", "C09.text_shows",
    "C09.text_invalid", "C09.strip_plain", "C09.strip_chunk", "C09.strip_render", "C09.strip_text", "C09.chunks_show",
    "C09.value_shows", "C09.given_shows", "C09.given_of_value", "C09.palette_invalid", "C09.abstraction_sound",
    "C09.hist_shows", "C09.calls_stateless", "C09.invalid_raises_always", "C09.make_shows", "C09.route_shows",
    "C09.resize_shows", "C09.resize_modes", "C09.bytes_same",
]
RULE = ("fmt: every fg x bg pair of the 8 names, all 256 ints, all 216 cube triples, g0..g30 (each as fg and as bg), "
        "every int 0-255 also as IntEnum member and as instance of an int subclass, every cube triple also as namedtuple / "
        "tuple subclass / tuple of mixed int kinds / list / list subclass (and malformed ones of each kind), "
        "all 3^5 None/False/True effect settings, every kind of flag value (None False True 0 1 2 '' 'x' [] [0] 0.0 1.5) "
        "at each of the five effects and at no_color for the text and the bytes formatter, all 12x12 pairs for two "
        "flags, random mixes of kinds, malformed values (ints/tuples out of range, wrong lengths, unknown and mangled names, "
        "floats, tuples and lists with float / None / str / nested-tuple / object members, bytes, dict, set, frozenset, object(), "
        "complex - each as color and as bg_color, through ColorFmt and ColorBytes), no_color with valid and invalid values, "
        "random ESC-free unicode texts; "
        "bytes: the same specs with random ESC-free payloads; cht: CHText of 0..7 parts (chunks of a small pool of "
        "formatters so that neighbours merge, plain strs, empty texts); cht/hist/ops are judged on the object's OWN chunk "
        "list (rendering, attributes, default state between chunks, strip = plain = chunk texts), the model renders that "
        "list; what the operations produce is compared as a diagnostic only; lst: a chunk list (formatters' results, or the "
        "chunks of CHText(*parts)) through CHText.resize_chunks_list - every new length 0..total+2 after every arrangement of "
        "<= 3 coloured / plain / empty chunks, two calls in a row, random part lists with random lengths - and then to a str "
        "through CHText.make / CHText(*res) / CHText(res) / chunk by chunk: judged on the printed list AND on what was "
        "requested (the parts' cells cut to the new length, or followed by blanks in default state); seq: 2..6 calls in one process - a valid int/tuple "
        "followed/preceded by an equal-but-invalid float value in the same role (every int in thorough), repeated "
        "identical calls, formatter objects used again, the shared plain formatter, invalid calls in between, repeated "
        "texts; hist: one CHText object mutated (+= chunk of the same / another colour, += str, += itself, += [itself], "
        "CHText(x)) and observed after every step - all histories of <= 3 (thorough: 5) mutations over a 6-letter "
        "alphabet plus random ones; ops: random well-typed trees (depth <= 3) of mk/+/+=/join/slice/index/fixed_len/"
        "x+=x over chunks of 1..3 formatters; strip: random strings over ESC [ ; : m ? digits (ASCII and other Unicode "
        "decimal digits) and letters, emitted sequences cut at random places. non-trivial = fmt/bytes with a colour or "
        "effect or a malformed value, cht/seq with >= 2 parts, lst with >= 1 part and a helper call, hist with >= 2 observations, every ops tree, strip/term "
        "of a string containing ESC; distinct by protocol line")
TRUSTED = ["re (regular expression engine; the pattern is read from the source and modelled as ESC [ class* final)",
           "Unicode decimal digit table of the running Python (\\d), passed to the model as generated ranges",
           "str.encode / bytes concatenation"]
ASSUMPTIONS = ["colour ids of the CHText model (C08) stand for formatters with pairwise different non-empty prefixes "
               "(checked by the driver on every request: palOk; proved sufficient: C09.abstraction_sound)",
               "a terminal implements SGR as Sgr.run does: parameters 0,1,2,4,5,9,22,24,25,29,30-37,39,40-47,49 and the "
               "colon forms 38:5:n / 48:5:n (ITU T.416); bold and faint are independent attributes",
               "colour values are None, str, int (also IntEnum members and instances of other int subclasses: the model "
               "takes their int value), finite float, tuples and lists (also namedtuples / tuple and list subclasses; a list is "
               "an (r, g, b) value like a tuple) with members of any type (int kinds, float, None, str, nested tuple, object: "
               "the model keeps int / float / other), or objects of any other type, hashable or not (bytes, dict, set, "
               "frozenset, object(), complex: one constructor `other` in the model); bool is an int kind (True = colour 1, "
               "False = colour 0; fix 6baf49c); every invalid value of whatever type must raise ValueError - any other "
               "exception class is reported (fix a19c1ff); nan/inf and 'g'+<text int() accepts but that is not ASCII "
               "digits> are outside the domain",
               "state between test cases is not reset (one Python process per worker): failures that depend on what "
               "earlier cases did are reported but may not replay alone; seq/hist/ops cases are self-contained"]

ESC = "\x1b"
EFFECTS = ["bold", "faint", "underline", "blink", "crossed"]
STD_NAMES = ["BLACK", "RED", "GREEN", "YELLOW", "BLUE", "MAGENTA", "CYAN", "WHITE"]   # ECMA-48: 30+k / 40+k


# ------------------------------------------------------------------ translator
class _Refuse(ValueError):
    pass


def _chars(s):
    return "[" + ", ".join("Char.ofNat %d" % ord(c) for c in s) + "]"


def _const_str(node, what):
    if isinstance(node, ast.Constant) and isinstance(node.value, str):
        return node.value
    raise _Refuse("%s is not a string literal" % what)


def _find(body, kind, name):
    for n in body:
        if isinstance(n, kind) and n.name == name:
            return n
    raise _Refuse("%s %s not found" % (kind.__name__, name))


def _ordered(node):
    """nodes in source order (depth first)"""
    yield node
    for ch in ast.iter_child_nodes(node):
        yield from _ordered(ch)


def _digit_ranges():
    """Unicode decimal digits = what `\\d` matches in a str pattern (checked against `re` below)"""
    rs = []
    for c in range(0x110000):
        if chr(c).isdecimal():
            if rs and rs[-1][1] == c - 1:
                rs[-1][1] = c
            else:
                rs.append([c, c])
    probe = re.compile(r"\d")
    for a, b in rs:
        if not (probe.fullmatch(chr(a)) and probe.fullmatch(chr(b))):
            raise _Refuse("\\d does not match str.isdecimal() characters")
    for c in (0x2f, 0x3a, 0xb2, 0x2460, 0x3007, 0x4e00):
        if probe.fullmatch(chr(c)):
            raise _Refuse("\\d matches a non-decimal character")
    return rs


def _strip_pattern(tree):
    import re._parser as sre
    from re._constants import LITERAL, IN, MAX_REPEAT, MAXREPEAT, CATEGORY, CATEGORY_DIGIT, RANGE
    cht = _find(tree.body, ast.ClassDef, "CHText")
    fn = _find(cht.body, ast.FunctionDef, "strip_colors")
    pats = []
    for n in _ordered(fn):
        if (isinstance(n, ast.Call) and isinstance(n.func, ast.Attribute) and n.func.attr == "compile"
                and isinstance(n.func.value, ast.Name) and n.func.value.id == "re"):
            if len(n.args) != 1 or n.keywords:
                raise _Refuse("re.compile with flags")
            pats.append(_const_str(n.args[0], "pattern"))
    if len(pats) != 1:
        raise _Refuse("strip_colors: expected exactly one re.compile(<literal>)")
    subs = [n for n in _ordered(fn) if isinstance(n, ast.Call) and isinstance(n.func, ast.Attribute)
            and n.func.attr == "sub" and isinstance(n.func.value, ast.Name) and n.func.value.id == "re"]
    if len(subs) != 1 or len(subs[0].args) != 3 or subs[0].keywords or _const_str(subs[0].args[1], "replacement") != "":
        raise _Refuse("strip_colors: expected re.sub(<pattern>, \"\", text)")
    p = sre.parse(pats[0])
    if p.state.flags & ~re.UNICODE.value or p.state.groups != 1:
        raise _Refuse("pattern has flags or groups")
    items = list(p)
    if (len(items) != 4 or items[0] != (LITERAL, 27) or items[1] != (LITERAL, 91)
            or items[2][0] is not MAX_REPEAT or items[3][0] is not LITERAL):
        raise _Refuse("pattern is not ESC \\[ <class>* <final>: %r" % pats[0])
    lo, hi, sub = items[2][1]
    if lo != 0 or hi is not MAXREPEAT or len(sub) != 1:
        raise _Refuse("pattern is not ESC \\[ <class>* <final>: %r" % pats[0])
    el = sub[0]
    cls_items = el[1] if el[0] is IN else [el]
    lits, ranges = [], []
    for k, v in cls_items:
        if k is LITERAL:
            lits.append(v)
        elif k is RANGE:
            ranges.append([v[0], v[1]])
        elif k is CATEGORY and v is CATEGORY_DIGIT:
            ranges.extend(_digit_ranges())
        else:
            raise _Refuse("unsupported class item %s %s" % (k, v))
    return lits, ranges, items[3][1]


def _is_color_number(node):
    """`color` or `int(color)`: the decimal digits of the colour id (the model: natDigits of the int value)"""
    if isinstance(node, ast.Name):
        return node.id == "color"
    return (isinstance(node, ast.Call) and isinstance(node.func, ast.Name) and node.func.id == "int"
            and len(node.args) == 1 and not node.keywords and isinstance(node.args[0], ast.Name)
            and node.args[0].id == "color")


def translate(repo):
    src = open(os.path.join(repo, "ak", "color.py")).read()
    tree = ast.parse(src)
    cs = _find(tree.body, ast.ClassDef, "_ColorSequences")
    # _COLORS
    colors = None
    for n in cs.body:
        if isinstance(n, ast.Assign) and len(n.targets) == 1 and isinstance(n.targets[0], ast.Name) \
                and n.targets[0].id == "_COLORS":
            colors = ast.literal_eval(n.value)
    if not isinstance(colors, dict) or not all(isinstance(k, str) and isinstance(v, str) for k, v in colors.items()):
        raise _Refuse("_COLORS is not a dict literal of strings")
    make = _find(cs.body, ast.FunctionDef, "make")
    argnames = [a.arg for a in make.args.args]
    if argnames != ["cls", "color", "bg_color"] + EFFECTS + ["no_color", "make_bytes"]:
        raise _Refuse("unexpected signature of make: %s" % argnames)
    effects, intro, final, joiner, reset = [], None, None, None, None
    for n in _ordered(make):
        if (isinstance(n, ast.If) and isinstance(n.test, ast.Name) and n.test.id in EFFECTS and not n.orelse
                and len(n.body) == 1 and isinstance(n.body[0], ast.Expr) and isinstance(n.body[0].value, ast.Call)):
            c = n.body[0].value
            if (isinstance(c.func, ast.Attribute) and c.func.attr == "append" and isinstance(c.func.value, ast.Name)
                    and c.func.value.id == "color_codes" and len(c.args) == 1):
                effects.append((n.test.id, _const_str(c.args[0], "effect code")))
        if isinstance(n, ast.Assign) and len(n.targets) == 1 and isinstance(n.targets[0], ast.Name):
            t, v = n.targets[0].id, n.value
            if t == "color_prefix" and isinstance(v, ast.BinOp):
                if not (isinstance(v.op, ast.Add) and isinstance(v.left, ast.BinOp) and isinstance(v.left.op, ast.Add)
                        and isinstance(v.left.right, ast.Call) and isinstance(v.left.right.func, ast.Attribute)
                        and v.left.right.func.attr == "join" and intro is None):
                    raise _Refuse("color_prefix is not <intro> + <joiner>.join(...) + <final>")
                intro = _const_str(v.left.left, "intro")
                joiner = _const_str(v.left.right.func.value, "joiner")
                final = _const_str(v.right, "final")
            elif t == "color_suffix" and isinstance(v, ast.Constant) and v.value != "":
                if reset is not None:
                    raise _Refuse("two non-empty suffixes")
                reset = _const_str(v, "suffix")
    if sorted(e for e, _ in effects) != sorted(EFFECTS) or None in (intro, final, joiner, reset):
        raise _Refuse("make(): effects %s, intro/final/joiner/reset %r" % (effects, (intro, final, joiner, reset)))
    elem = _find(cs.body, ast.FunctionDef, "_make_seq_element")
    fg_id = bg_id = ext = None
    for n in _ordered(elem):
        if (isinstance(n, ast.Assign) and len(n.targets) == 1 and isinstance(n.targets[0], ast.Name)
                and n.targets[0].id == "fg_bg_id" and isinstance(n.value, ast.IfExp)
                and isinstance(n.value.test, ast.Name) and n.value.test.id == "is_bg"):
            bg_id, fg_id = _const_str(n.value.body, "bg id"), _const_str(n.value.orelse, "fg id")
        if isinstance(n, ast.Return) and isinstance(n.value, ast.JoinedStr):
            v = n.value.values
            if (len(v) == 3 and isinstance(v[0], ast.FormattedValue) and isinstance(v[0].value, ast.Name)
                    and v[0].value.id == "fg_bg_id" and isinstance(v[2], ast.FormattedValue)
                    and _is_color_number(v[2].value)
                    and v[0].format_spec is None and v[2].format_spec is None
                    and v[0].conversion == -1 and v[2].conversion == -1):
                ext = _const_str(v[1], "256-colour infix")
    if None in (fg_id, bg_id, ext):
        raise _Refuse("_make_seq_element: fg/bg id or the f-string of the 256-colour form not recognised")
    lits, ranges, fin = _strip_pattern(tree)
    out = ["-- GENERATED by harness/c09.py:translate from /repo/ak/color.py -- do not edit",
           "import AkVerif.Model.Sgr", "namespace Gen.C09", "open Sgr", "",
           "def sgr : SgrCfg where",
           # a dict lookup does not depend on the order of the entries: emitted in canonical order
           "  colors := [" + ", ".join("(%s, %s)" % (_chars(k), _chars(v))
                                       for k, v in sorted(colors.items(), key=lambda kv: (kv[1], kv[0]))) + "]",
           "  effects := [" + ", ".join("(.%s, %s)" % (e, _chars(c)) for e, c in effects) + "]",
           "  intro := " + _chars(intro), "  final := " + _chars(final), "  joiner := " + _chars(joiner),
           "  reset := " + _chars(reset), "  fgId := " + _chars(fg_id), "  bgId := " + _chars(bg_id),
           "  ext := " + _chars(ext), "",
           "def stripClass : CharClass where",
           "  lits := " + _chars("".join(chr(c) for c in lits)),
           "  ranges := [" + ", ".join("(%d, %d)" % (a, b) for a, b in ranges) + "]", "",
           "def stripFinal : Char := Char.ofNat %d" % fin, "", "end Gen.C09", ""]
    files = {"AkVerif/Gen/C09.lean": "\n".join(out)}
    # Model/SgrText.lean composes with the CHText model of C08, which imports its own generated constants
    # (its constants do not occur in any C09 theorem). A source the C08 translator does not understand is C08's
    # finding, not C09's: the last generated file stays in place then.
    try:
        from harness import c08
        files.update(c08.translate(repo))
    except Exception:
        if not os.path.exists(os.path.join(os.path.dirname(os.path.dirname(os.path.abspath(__file__))),
                                           "lean", "AkVerif", "Gen", "C08.lean")):
            raise
    return files


# ------------------------------------------------------------------ protocol <-> python values
# kinds of ints and tuples: the code's contract is isinstance(), so subclasses (other than bool) are in the domain
class IntSub(int):
    """an int subclass (like a `class Code(int)` of an application)"""


class TupleSub(tuple):
    """a tuple subclass"""


class ListSub(list):
    """a list subclass"""


class _Obj:
    """an object of a type of its own (repr without an address)"""
    def __repr__(self):
        return "<obj>"


# objects of other types (hashable or not): token -> a fresh value
OTHER_VALUES = {"o": lambda: b"RED", "od": dict, "od1": lambda: {1: 2}, "os": lambda: {1, 2, 3},
                "of": lambda: frozenset((1, 2, 3)), "oo": _Obj, "oc": lambda: 1j}
# members of a tuple / list that are not numbers
OTHER_MEMBERS = {"N": lambda: None, "a": lambda: "a", "d": lambda: "1", "u": lambda: (1,), "o": _Obj}


RGB = collections.namedtuple("RGB", "r g b")
_ENUMS = {}


def int_enum(n):
    """an enum.IntEnum member with the value n"""
    if n not in _ENUMS:
        _ENUMS[n] = enum.IntEnum("Colour%s" % str(n).replace("-", "m"), {"V": n}).V
    return _ENUMS[n]


def _enc_comp(x):
    if x is None:
        return "N"
    if isinstance(x, str):
        return {"a": "a", "1": "d"}[x]
    if isinstance(x, tuple):
        return "u"
    if isinstance(x, _Obj):
        return "o"
    if isinstance(x, float):
        return _enc_float(x)
    if isinstance(x, bool):
        return "b%d" % x
    return ("e%d" if isinstance(x, enum.IntEnum) else "s%d" if isinstance(x, IntSub) else "%d") % int(x)


def enc_color(v):
    if v is None:
        return "N"
    if isinstance(v, str):
        return "s:" + enc_str(v)
    if isinstance(v, bool):
        return "ib:%d" % v              # bool is an int subclass: True is colour 1, False colour 0
    if isinstance(v, int):
        return ("ie:%d" if isinstance(v, enum.IntEnum) else "is:%d" if isinstance(v, IntSub) else "i:%d") % int(v)
    if isinstance(v, float):
        return "f:" + _enc_float(v)
    if isinstance(v, (tuple, list)):
        kind = ("tn:" if isinstance(v, RGB) else "ts:" if isinstance(v, TupleSub) else "t:" if isinstance(v, tuple)
                else "lsub:" if isinstance(v, ListSub) else "l:")
        return kind + (",".join(_enc_comp(x) for x in v) if v else "-")
    for tok, mk in OTHER_VALUES.items():
        if type(v) is type(mk()) and (tok not in ("od", "od1") or bool(v) == (tok == "od1")):
            return tok
    raise ValueError("colour value %r is outside the protocol" % (v,))


_FLOAT_RE = re.compile(r"-?[0-9]+\.[0-9]+\Z")


def _enc_float(v):
    r = repr(v)
    if not _FLOAT_RE.match(r):
        raise ValueError("float %r is outside the protocol (finite, plain decimal notation only)" % v)
    return r


def _dec_num(x):
    if x in OTHER_MEMBERS:
        return OTHER_MEMBERS[x]()
    if x[0] == "b":
        return bool(int(x[1:]))
    if x[0] == "e":
        return int_enum(int(x[1:]))
    if x[0] == "s":
        return IntSub(int(x[1:]))
    return float(x) if "." in x else int(x)


def dec_color(tok):
    if tok == "N":
        return None
    if tok in OTHER_VALUES:
        return OTHER_VALUES[tok]()
    k, _, rest = tok.partition(":")
    if k == "s":
        return dec_str(rest)
    if k == "i":
        return int(rest)
    if k == "ib":
        return bool(int(rest))
    if k == "ie":
        return int_enum(int(rest))
    if k == "is":
        return IntSub(int(rest))
    if k == "f":
        return float(rest)
    if k in ("t", "tn", "ts", "l", "lsub"):
        comps = () if rest == "-" else tuple(_dec_num(x) for x in rest.split(","))
        if k in ("l", "lsub"):
            return list(comps) if k == "l" else ListSub(comps)
        return comps if k == "t" else TupleSub(comps) if k == "ts" else RGB(*comps)
    raise ValueError("bad colour token " + tok)


# kinds of values for the five effect flags and for no_color (the code's contract is truthiness)
FLAG_KINDS = "NFT012exlLzh"


def flag_value(ch):
    """a fresh Python value for a flag letter"""
    return {"N": None, "F": False, "T": True, "0": 0, "1": 1, "2": 2, "e": "", "x": "x",
            "l": [], "L": [0], "z": 0.0, "h": 1.5}[ch]


def flag_on(ch):
    """the statement: a flag is requested iff its value is true in Python's sense (independent table)"""
    return ch in "T12xLh"


def dec_eff(tok):
    return {name: flag_value(ch) for name, ch in zip(EFFECTS, tok)}


def spec_tokens(fg, bg=None, eff="NNNNN", nc="F"):
    """nc: a flag letter; the ints 0 / 1 are shorthand for False / True"""
    if nc in (0, 1):
        nc = "FT"[nc]
    return "%s %s %s %s" % (enc_color(fg), enc_color(bg), eff, nc)


def _kwargs(toks):
    kw = dec_eff(toks[2])
    kw["bg_color"] = dec_color(toks[1])
    kw["no_color"] = flag_value(toks[3])
    return dec_color(toks[0]), kw


def dec_bytes(tok):
    return b"" if tok == "-" else bytes(int(x) for x in tok.split(","))


def enc_bytes(b):
    return ",".join("%d" % x for x in b) if b else "-"


# ------------------------------------------------------------------ real code
def _mod():
    from ak import color
    return color


def _err(e):
    return "err " + type(e).__name__


def _pair(f):
    """the prefix/suffix pair a formatter puts around a text"""
    c = f("")
    return (c.c_prefix, c.c_suffix)


def _parts(toks):
    """-> (parts for CHText(*parts), prefix/suffix pairs of colour ids 0 (plain), 1..n (the parts' formatters))"""
    m = _mod()
    n = int(toks[0])
    parts, pairs = [], [("", "")]
    for i in range(n):
        p = toks[1 + 5 * i: 6 + 5 * i]
        if p[0] == "P":
            parts.append(dec_str(p[4]))
            pairs.append(("", ""))
        else:
            fg, kw = _kwargs(p)
            f = m.ColorFmt(fg, **kw)
            parts.append(f(dec_str(p[4])))
            pairs.append(_pair(f))
    return parts, pairs


def split_data(toks):
    """tokens of a cht/hist/ops line -> (the request, the data after '@' or None)"""
    if "@" in toks:
        i = toks.index("@")
        return toks[:i], toks[i + 1:]
    return toks, None


_ADDR = re.compile(r"0x[0-9a-fA-F]{6,16}")


def _canon(text):
    """object addresses (they get into a text through str(object)) are never compared"""
    return _ADDR.sub("0xADDR", text)


def _own_chunks(x, pairs):
    """the object's own state: its chunk list as (colour id, text) pairs; `u=<prefix>=<suffix>` instead of an id
    = a chunk whose prefix/suffix pair none of the line's formatters produced"""
    m = _mod()
    chunks = x.chunks if isinstance(x, m.CHText) else x if isinstance(x, list) else [x]
    out = []
    for c in chunks:
        pr = (c.c_prefix, c.c_suffix)
        cid = str(pairs.index(pr)) if pr in pairs else "u=%s=%s" % (enc_str(pr[0]), enc_str(pr[1]))
        out.append("%s:%s" % (cid, enc_str(_canon(c.text))))
    return "/".join(out) or "_"


def _formatters(toks):
    """(list of ColorFmt for ids 1..k, remaining tokens)"""
    m = _mod()
    k = int(toks[0])
    fmts = []
    for i in range(k):
        fg, kw = _kwargs(toks[1 + 4 * i: 5 + 4 * i])
        fmts.append(m.ColorFmt(fg, **kw))
    return fmts, toks[1 + 4 * k:]


def _chunk_of(fmts, cid, text):
    m = _mod()
    return (m.ColorFmt.get_plaintext_fmt() if cid == 0 else fmts[cid - 1])(text)


def _look(x, pairs=None):
    """one observation: str(x), x.plain_text(), strip_colors(str(x)) and (observable lines) the object's own
    chunk list; the model-evaluated diagnostic lines (pairs=None) have no chunk list"""
    m = _mod()
    if isinstance(x, list):              # a chunk list printed chunk by chunk
        s, pl = "".join(str(c) for c in x), "".join(c.plain_text() for c in x)
    else:
        s, pl = str(x), x.plain_text()
    base = "%s %s %s" % (enc_str(_canon(s)), enc_str(_canon(pl)), enc_str(_canon(m.CHText.strip_colors(s))))
    if pairs is None:
        return base
    return base + " " + _own_chunks(x, pairs)


def _run_seq(toks):
    m = _mod()
    n, toks = int(toks[0]), toks[1:]
    objs, res, i = [], [], 0
    # a formatter object is kept alive only when a later R entry uses it again; the others are dropped at once
    # (as in ordinary use), so that later objects may get the same address
    used, j = set(), 0
    for _ in range(n):
        if toks[j] == "R":
            used.add(int(toks[j + 1]))
        j += _ENTRY_WIDTH[toks[j]]
    for _ in range(n):
        kind = toks[i]
        if kind in ("F", "B"):
            sp, payload = toks[i + 1:i + 5], toks[i + 5]
            i += 6
            try:
                fg, kw = _kwargs(sp)
                if kind == "F":
                    f = m.ColorFmt(fg, **kw)
                    res.append("s:" + enc_str(str(f(dec_str(payload)))))
                    objs.append(f if len(objs) in used else None)
                    del f
                else:
                    res.append("b:" + enc_bytes(m.ColorBytes(fg, **kw)(dec_bytes(payload))))
                    objs.append(None)
            except Exception as e:
                res.append("e:" + type(e).__name__)
                objs.append(None)
        elif kind == "P":
            res.append("s:" + enc_str(str(m.ColorFmt.get_plaintext_fmt()(dec_str(toks[i + 1])))))
            objs.append(None)
            i += 2
        else:
            k, text = int(toks[i + 1]), dec_str(toks[i + 2])
            i += 3
            f = objs[k] if k < len(objs) else None
            res.append("none" if f is None else "s:" + enc_str(str(f(text))))
            objs.append(None)
    return "ok " + "|".join(res)


def _run_hist(toks, own=True):
    m = _mod()
    fmts, ops = _formatters(toks)
    pairs = [("", "")] + [_pair(f) for f in fmts] if own else None
    x = m.CHText()
    looks = []
    for tok in ops:
        f = tok.split(":")
        if f[0] == "a":
            x += _chunk_of(fmts, int(f[1]), dec_str(f[2]))
        elif f[0] == "p":
            x += dec_str(f[1])
        elif f[0] == "self":
            x += x
        elif f[0] == "selfl":
            x += [x]
        elif f[0] == "cl":
            x = m.CHText(x)
        elif f[0] == "r":
            looks.append(_look(x, pairs))
        else:
            raise RuntimeError("bad hist op " + tok)
    return looks


def _opt_int(t):
    return None if t == "n" else int(t)


def _run_ops(toks, own=True):
    m = _mod()
    fmts, prog = _formatters(toks)
    pairs = [("", "")] + [_pair(f) for f in fmts] if own else None
    st = []
    for tok in prog:
        f = tok.split(":")
        k = f[0]
        if k == "s":
            st.append(dec_str(f[1]))
        elif k == "c":
            st.append(_chunk_of(fmts, int(f[1]), dec_str(f[2])))
        elif k in ("ls", "tp", "mk"):
            n = int(f[1])
            items = st[len(st) - n:]
            del st[len(st) - n:]
            st.append(list(items) if k == "ls" else tuple(items) if k == "tp" else m.CHText(*items))
        elif k == "add":
            b = st.pop()
            a = st.pop()
            st.append(a + b)
        elif k == "iadd":
            b = st.pop()
            x = st.pop()
            x += b
            st.append(x)
        elif k == "dupiadd":
            x = st.pop()
            x += x
            st.append(x)
        elif k == "dupiaddl":
            x = st.pop()
            x += [x]
            st.append(x)
        elif k == "join":
            n = int(f[2])
            items = st[len(st) - n:]
            del st[len(st) - n:]
            sep = st.pop()
            st.append(sep.join(items if f[1] == "l" else tuple(items)))
        elif k == "idx":
            st.append(st.pop()[int(f[1])])
        elif k == "sl":
            st.append(st.pop()[_opt_int(f[1]):_opt_int(f[2])])
        elif k == "fl":
            st.append(st.pop().fixed_len(int(f[1])))
        else:
            raise RuntimeError("bad program token " + tok)
    if len(st) != 1:
        raise RuntimeError("program leaves %d values" % len(st))
    x = st[0]
    if isinstance(x, (m.CHText, m.CHText.Chunk)):
        return [_look(x, pairs)]
    raise RuntimeError("program leaves a %s" % type(x).__name__)


LST_SOURCES = ["fmts", "obj"]
LST_SINKS = ["make", "ctor", "ctorl", "join"]


def helper_lens(tok):
    """helper token -> the lengths CHText.resize_chunks_list is called with, in order"""
    return [] if tok == "id" else [int(x) for x in tok[3:].split(",")]


def _run_lst(toks):
    """chunks -> public list helper -> str; -> (the object / chunk list that is printed, prefix/suffix pairs)"""
    m = _mod()
    src, helper, sink = toks[:3]
    parts, pairs = _parts(toks[3:])
    chunks = [p if isinstance(p, m.CHText.Chunk) else m.CHText.Chunk.make_plain(p) for p in parts]
    if src == "obj":
        chunks = list(m.CHText(*chunks).chunks)
    elif src != "fmts":
        raise RuntimeError("bad source " + src)
    for n in helper_lens(helper):
        chunks = m.CHText.resize_chunks_list(chunks, n)
    if sink == "make":
        return m.CHText.make(chunks), pairs
    if sink == "ctor":
        return m.CHText(*chunks), pairs
    if sink == "ctorl":
        return m.CHText(chunks), pairs
    if sink == "join":
        return list(chunks), pairs
    raise RuntimeError("bad sink " + sink)


class StepBudget(Exception):
    """the real operations did not finish within the step budget (a hang is a finding of C08, not of C09)"""


def _with_budget(fn, steps=300000):
    import sys
    left = [steps]

    def tr(frame, event, arg):
        left[0] -= 1
        if left[0] < 0:
            raise StepBudget()
        return tr
    old = sys.gettrace()
    sys.settrace(tr)
    try:
        return fn()
    finally:
        sys.settrace(old)


def observe(op, toks):
    return _with_budget(lambda: _observe(op, toks), 300000 + 3000 * len(toks))


def _observe(op, toks):
    """runs the request of a cht/hist/ops line (or of its model-evaluated diagnostic twin) on the real code;
    -> the observations (raises what the real code raises)"""
    m = _mod()
    own = not op.endswith("m")
    if op in ("cht", "chtm"):
        parts, pairs = _parts(toks)
        return [_look(m.CHText(*parts), pairs if own else None)]
    if op == "make":                     # the other constructor: CHText.make([chunk, ...])
        parts, pairs = _parts(toks)
        chunks = [p if isinstance(p, m.CHText.Chunk) else m.CHText.Chunk.make_plain(p) for p in parts]
        return [_look(m.CHText.make(chunks), pairs)]
    if op == "lst":
        x, pairs = _run_lst(toks)
        return [_look(x, pairs)]
    if op in ("hist", "histm"):
        return _run_hist(toks, own)
    return _run_ops(toks, own)


def attach(line):
    """cht/hist/ops request -> the protocol line: the request, '@', and as DATA the chunk list the real object
    reports at every observation (E:<Name> when the real operations raise). The driver renders that value;
    it does not evaluate the operations (what they should produce is C08's property)."""
    op, *a = line.split()
    head = split_data(a)[0]
    try:
        looks = observe(op, head)
        data = [l.split()[3] for l in looks]
    except Exception as e:
        data = ["E:" + type(e).__name__]
    return " ".join([op] + head + ["@"] + data)


def twin(line):
    """the diagnostic twin of an observable line: the model evaluates the operations itself (as C08 does)"""
    op, *a = line.split()
    return " ".join([op + "m"] + split_data(a)[0])


def _run_route(a):
    """x = ColorFmt(...)(text) -> str by the route a[4]"""
    m = _mod()
    fg, kw = _kwargs(a)
    x = m.ColorFmt(fg, **kw)(dec_str(a[5]))
    rt, _, arg = a[4].partition(":")
    arg = dec_str(arg) if arg else ""
    if rt == "str":
        return str(x)
    if rt == "pct":
        return "%s" % x
    if rt == "fstr":
        return f"{x}"
    if rt == "fmt":
        return format(x, arg)
    if rt == "sfmt":
        return ("{:" + arg + "}").format(x)
    if rt == "tfmt":
        return format(m.CHText(x), arg)
    if rt == "addr":
        return str(x + arg)
    if rt == "addl":
        return str(arg + x)
    raise RuntimeError("bad route " + a[4])


def _window(cells, text, st):
    """where the text stands among the shown cells: the offset whose cells carry the requested attributes while
    all the others are default, else the first occurrence, else None"""
    vis = "".join(c for c, _ in cells)
    n = len(text)
    cands = [k for k in range(len(vis) - n + 1) if vis[k:k + n] == text]
    for k in cands:
        if all(s2 == st for _, s2 in cells[k:k + n]) and all(s2 == DEFAULT for _, s2 in cells[:k] + cells[k + n:]):
            return k
    return cands[0] if cands else None


def attach_route(line):
    """route request -> protocol line with, as data, what the real route wrote left and right of the text"""
    op, *a = line.split()
    a = split_data(a)[0]
    try:
        res = _with_budget(lambda: _run_route(a))
        shown = terminal(res, lenient=True)
        text = dec_str(a[5])
        verdict, st = wanted(a[:4])
        k = _window(shown[0], text, DEFAULT if flag_on(a[3]) or st is None else st) if shown else None
        if k is None:
            data = ["-", "-"]
        else:
            vis = "".join(c for c, _ in shown[0])
            data = [enc_str(vis[:k]), enc_str(vis[k + len(text):])]
    except Exception as e:
        data = ["E:" + type(e).__name__, "-"]
    return " ".join([op] + a + ["@"] + data)


_FRESH = [0]


def _fresh_color():
    """a freshly imported copy of ak/color.py: nothing has been called on it yet (class-level lazily initialised
    state such as CHText._SEQ_RE or ColorFmt._NO_COLOR is in its import-time state)"""
    import importlib.util
    import sys
    from harness import core
    _FRESH[0] += 1
    name = "_c09_fresh_color_%d_%d" % (os.getpid(), _FRESH[0])
    spec = importlib.util.spec_from_file_location(name, os.path.join(core.REPO, "ak", "color.py"))
    mod = importlib.util.module_from_spec(spec)
    sys.modules[name] = mod
    try:
        spec.loader.exec_module(mod)
    finally:
        sys.modules.pop(name, None)
    return mod


FIRST_ENTRIES = ["chunk-strip", "obj-strip", "cht-strip", "plain-fmt"]


def _first_use(entry, text, mod=None):
    """one public entry point called as the very first thing on the module"""
    m = mod or _fresh_color()
    if entry == "chunk-strip":
        return m.CHText.Chunk.strip_colors(text)
    if entry == "obj-strip":
        return m.ColorFmt("RED")("q").strip_colors(text)
    if entry == "cht-strip":
        return m.CHText.strip_colors(text)
    if entry == "plain-fmt":
        return str(m.ColorFmt.get_plaintext_fmt()(text))
    raise RuntimeError("bad first-use entry " + entry)


def impl(case):
    m = _mod()
    out = []
    for line in case["lines"]:
        op, *a = line.split()
        try:
            if op == "fmt":
                fg, kw = _kwargs(a)
                out.append("ok " + enc_str(str(m.ColorFmt(fg, **kw)(dec_str(a[4])))))
            elif op == "bytes":
                fg, kw = _kwargs(a)
                out.append("ok " + enc_bytes(m.ColorBytes(fg, **kw)(dec_bytes(a[4]))))
            elif op == "first":
                out.append("ok " + enc_str(_first_use(a[0], dec_str(a[1]))))
            elif op == "route":
                out.append("ok " + enc_str(_with_budget(lambda: _run_route(split_data(a)[0]))))
            elif op == "makem":
                parts, _ = _parts(a)
                out.append("ok " + enc_str(str(m.CHText.make(
                    [p if isinstance(p, m.CHText.Chunk) else m.CHText.Chunk.make_plain(p) for p in parts]))))
            elif op == "lstm":
                out.append("ok " + _with_budget(lambda: _look(_run_lst(a)[0])).split()[0])
            elif op in ("cht", "make", "lst", "hist", "ops", "chtm", "histm", "opsm"):
                out.append("ok " + "|".join(observe(op, split_data(a)[0])))
            elif op == "pfmt":
                out.append("ok " + enc_str(str(m.ColorFmt.get_plaintext_fmt()(dec_str(a[0])))))
            elif op == "seq":
                out.append(_run_seq(a))
            elif op == "strip":
                out.append("ok " + enc_str(m.CHText.strip_colors(dec_str(a[0]))))
            elif op == "term":
                out.append(show_term(terminal(dec_str(a[0]))))
            else:
                out.append("bad-op")
        except Exception as e:
            out.append(_err(e))
    return out


def observable(i, line):
    """diagnostics only: the terminal cross-check and the lines where the model evaluates CHText operations"""
    return not line.startswith(("term ", "chtm ", "histm ", "opsm ", "makem ", "lstm "))


# ------------------------------------------------------------------ oracle: a terminal + the statement
DEFAULT = ("d", "d", (False,) * 5)
_FLAG_ON = {1: 0, 2: 1, 4: 2, 5: 3, 9: 4}
_FLAG_OFF = {22: (0, 1), 24: (2,), 25: (3,), 29: (4,)}


def _num(s):
    if s == "" or not all(c in "0123456789" for c in s):
        return None
    return int(s)


def _sgr(state, params, lenient):
    """ECMA-48 8.3.117 (SGR) with ITU T.416 colon sub-parameters; None = not in the supported subset.
    lenient (used by the oracle, not by the `term` cross-check of the Lean terminal): also the widespread
    legacy form 38;5;n / 48;5;n, so that a code change to that form would not be reported as a violation"""
    fg, bg, fl = state
    plist = params.split(";")
    k = 0
    while k < len(plist):
        p = plist[k]
        k += 1
        sub = p.split(":")
        if lenient and p in ("38", "48") and k + 1 < len(plist) and plist[k] == "5":
            sub = [p, "5", plist[k + 1]]
            k += 2
        if len(sub) == 1:
            n = 0 if p == "" else _num(p)
            if n is None:
                return None
            if n == 0:
                fg, bg, fl = DEFAULT
            elif n in _FLAG_ON:
                fl = fl[:_FLAG_ON[n]] + (True,) + fl[_FLAG_ON[n] + 1:]
            elif n in _FLAG_OFF:
                fl = tuple(False if i in _FLAG_OFF[n] else v for i, v in enumerate(fl))
            elif 30 <= n <= 37:
                fg = "b%d" % (n - 30)
            elif n == 39:
                fg = "d"
            elif 40 <= n <= 47:
                bg = "b%d" % (n - 40)
            elif n == 49:
                bg = "d"
            else:
                return None
        elif len(sub) == 3:
            a, b, c = (_num(x) for x in sub)
            if a not in (38, 48) or b != 5 or c is None or c > 255:
                return None
            if a == 38:
                fg = "x%d" % c
            else:
                bg = "x%d" % c
        else:
            return None
    return fg, bg, fl


def terminal(s, state=DEFAULT, lenient=False, resets=None):
    """what a terminal shows: ([(char, state)], final state) or None when `s` contains anything but
    printable text and complete SGR sequences of the supported subset.
    resets (a list, filled per shown character): was the terminal in default state at some moment since the
    previous character was shown (or since the start)"""
    cells, i = [], 0
    was_default = state == DEFAULT
    while i < len(s):
        if s[i] != ESC:
            cells.append((s[i], state))
            if resets is not None:
                resets.append(was_default)
            was_default = state == DEFAULT
            i += 1
            continue
        if s[i + 1:i + 2] != "[":
            return None
        j = i + 2
        while j < len(s) and s[j] in "0123456789;:":
            j += 1
        if j >= len(s) or s[j] != "m":
            return None
        state = _sgr(state, s[i + 2:j], lenient)
        if state is None:
            return None
        was_default = was_default or state == DEFAULT
        i = j + 1
    return cells, state


def _show_state(st):
    return "%s/%s/%s" % (st[0], st[1], "".join("1" if f else "0" for f in st[2]))


def show_term(res):
    if res is None:
        return "bad"
    cells, fin = res
    groups = []
    for ch, st in cells:
        if groups and groups[-1][0] == st:
            groups[-1][1].append(ch)
        else:
            groups.append((st, [ch]))
    return "ok %s %s" % (_show_state(fin), "|".join("%s=%s" % (_show_state(st), enc_str("".join(chs)))
                                                   for st, chs in groups) or "-")


_CANON_GRAY = re.compile(r"g(0|[1-9][0-9]*)\Z")
_DIGIT_GRAY = re.compile(r"g[0-9]+\Z")


def wanted_colour(v):
    """the statement's colour grammar: ('ok', colour) | ('bad',) | ('either', colour) for the
    undocumented-but-harmless zero padded gray names ('g05'): the code may reject them or mean gray 5"""
    if v is None:
        return ("ok", "d")
    if isinstance(v, str):
        if v in STD_NAMES:
            return ("ok", "b%d" % STD_NAMES.index(v))
        if _DIGIT_GRAY.match(v):
            digits = v[1:].lstrip("0") or "0"
            if len(digits) > 2 or int(digits) > 23:
                return ("bad",)
            return ("ok" if _CANON_GRAY.match(v) else "either", "x%d" % (232 + int(digits)))
        return ("bad",)
    if isinstance(v, int):             # bool included: an int kind (True = colour 1) since fix 6baf49c
        return ("ok", "x%d" % int(v)) if 0 <= v <= 255 else ("bad",)
    if isinstance(v, (tuple, list)):    # an (r, g, b) value may be a tuple or a list
        if len(v) == 3 and all(isinstance(c, int) and 0 <= c <= 5 for c in v):
            return ("ok", "x%d" % (16 + 36 * v[0] + 6 * v[1] + v[2]))
        return ("bad",)
    return ("bad",)                     # a value of any other type


def wanted(toks):
    """-> (verdict, state): verdict 'ok' | 'bad' | 'either'"""
    fg, kw = _kwargs(toks)
    a, b = wanted_colour(fg), wanted_colour(kw["bg_color"])
    if a[0] == "bad" or b[0] == "bad":
        return "bad", None
    st = (a[1], b[1], tuple(flag_on(ch) for ch in toks[2]))
    return ("either" if "either" in (a[0], b[0]) else "ok"), st


def _check_shown(s, expect, what):
    """expect: list of (text, state)"""
    res = terminal(s, lenient=True)
    if res is None:
        return "malformed: %s: %r is not text + complete SGR sequences" % (what, s)
    cells, fin = res
    exp = [(ch, st) for t, st in expect for ch in t]
    if [c for c, _ in cells] != [c for c, _ in exp]:
        return "shown-text: %s: terminal shows %r" % (what, "".join(c for c, _ in cells))
    for k, ((c, got), (_, want)) in enumerate(zip(cells, exp)):
        if want is not None and got != want:
            return "attributes: %s: character %d shown with %s, requested %s" % (
                what, k, _show_state(got), _show_state(want))
    if fin != DEFAULT:
        return "bleed: %s: terminal left in state %s" % (what, _show_state(fin))
    return None


def _judge_call(op, a, rep, line):
    """one `fmt` / `bytes` call judged by the statement alone (whatever was called before it)"""
    m = _mod()
    verdict, st = wanted(a)
    nc = flag_on(a[3])
    if nc:
        if verdict == "bad" and rep == "err ValueError":
            return None             # rejecting an invalid value also under no_color would satisfy the statement
        st = DEFAULT
    elif verdict == "bad":
        if rep != "err ValueError":
            # any other exception class (TypeError for an unhashable value ...) is a violation as well
            return "%s: %s gives %s" % ("invalid-wrong-exception" if rep.startswith("err ") else "invalid-accepted", line, rep[:60])
        return None
    elif verdict == "either" and rep == "err ValueError":
        return None
    if not rep.startswith("ok "):
        return "valid-rejected: %s gives %s" % (line, rep)
    if op == "fmt":
        text, s = dec_str(a[4]), dec_str(rep[3:])
        if nc and ESC in s:
            return "nocolor-esc: %s emits an escape character" % line
        msg = _check_shown(s, [(text, st)], line)
        if msg:
            return msg
        if m.CHText.strip_colors(s) != text:
            return "strip: strip_colors(%r) = %r" % (s, m.CHText.strip_colors(s))
    else:
        payload, got = dec_bytes(a[4]), dec_bytes(rep[3:])
        if nc and b"\x1b" in got:
            return "nocolor-esc: %s emits an escape byte" % line
        text = payload.decode("latin-1")
        shown = got.decode("latin-1")
        msg = _check_shown(shown, [(text, st)], line)        # the bytes are the same sequences: same screen
        if msg:
            return "bytes-" + msg
        fg, kw = _kwargs(a)
        try:
            ref = str(m.ColorFmt(fg, **kw)(text))
        except ValueError:
            ref = None               # judged above: only possible for a zero padded gray or under no_color
        if ref is not None and (any(ord(c) > 255 for c in ref) or ref.encode("latin-1") != got):
            return "bytes-differ: %s gives %r, the text formatter %r" % (line, got, ref)
    return None


def _palette_states(toks):
    """formatter tokens `<k> (<fg> <bg> <eff> <nc>)*k rest` -> (verdict, [state of id 0..k], rest)"""
    k = int(toks[0])
    states, verdicts = [DEFAULT], []
    for i in range(k):
        sp = toks[1 + 4 * i: 5 + 4 * i]
        verdict, st = wanted(sp)
        if flag_on(sp[3]):
            verdict, st = ("either" if verdict == "bad" else verdict), DEFAULT
        verdicts.append(verdict)
        states.append(st)
    v = "bad" if "bad" in verdicts else "either" if "either" in verdicts else "ok"
    return v, states, toks[1 + 4 * k:]


def _judge_own(look, states, what):
    """one observation `str plain strip chunks` judged against the object's OWN chunk list (what the operations
    should have produced is not C09's question): the terminal shows exactly the chunks' characters, each with the
    attributes requested from the chunk's formatter, it is in default state between two chunks and at the end, and
    strip_colors(str(x)) == plain_text() == the chunk texts"""
    s, pl, stripped, own = look.split()
    s, pl, stripped = dec_str(s), dec_str(pl), dec_str(stripped)
    # a chunk no formatter of this line produced (u=...): no attributes are requested for its characters, but the
    # string as a whole must still be well formed, self contained (default state between chunks and at the end)
    # and strippable
    chunks = [] if own == "_" else [(None if c.startswith("u=") else int(c.split(":")[0]), dec_str(c.split(":")[1]))
                                    for c in own.split("/")]
    msg = _check_shown(s, [(text, None if cid is None else states[cid]) for cid, text in chunks], what)
    if msg:
        return msg
    resets = []
    terminal(s, lenient=True, resets=resets)
    pos = 0
    for n, (cid, text) in enumerate(chunks):
        if n and text and not resets[pos]:
            return "bleed: %s: the terminal is not in default state between chunk %d and chunk %d" % (what, n - 1, n)
        pos += len(text)
    text = "".join(t for _, t in chunks)
    if pl != text:
        return "plain-text: %s: plain_text() = %r, the chunks hold %r" % (what, pl, text)
    if stripped != pl:
        return "strip: %s: strip_colors(%r) = %r, plain_text() = %r" % (what, s, stripped, pl)
    return None


_ENTRY_WIDTH = {"F": 6, "B": 6, "R": 3, "P": 2}


def oracle(case, replies):
    m = _mod()
    for line, rep in zip(case["lines"], replies):
        op, *a = line.split()
        if op in ("fmt", "bytes"):
            msg = _judge_call(op, a, rep, line)
            if msg:
                return msg
        elif op == "seq":
            if not rep.startswith("ok "):
                return "seq-fails: %s gives %s" % (line[:80], rep)
            n, toks, res = int(a[0]), a[1:], rep[3:].split("|")
            entries, i = [], 0
            for _ in range(n):
                w = _ENTRY_WIDTH[toks[i]]
                entries.append(toks[i:i + w])
                i += w
            seen, valid_before = {}, []           # a list: colour values may be unhashable
            for j, (e, r) in enumerate(zip(entries, res)):
                key = " ".join(e)
                if key in seen and seen[key] != r:
                    return "history-dependent: the same call %s answers %s and later %s" % (key, seen[key], r)
                seen[key] = r
                if e[0] in ("F", "B"):
                    one = {"s": "ok ", "b": "ok ", "e": "err "}[r[0]] + r[2:]
                    msg = _judge_call("fmt" if e[0] == "F" else "bytes", e[1:], one,
                                      "call %d of %s" % (j, " ".join(e)))
                    if msg:
                        # the same value (by ==) was accepted earlier in this process: validation has a memory
                        fg, kw = _kwargs(e[1:5])
                        if msg.startswith("invalid-") and ((fg, "fg") in valid_before or (kw["bg_color"], "bg") in valid_before):
                            return "history-dependent: " + msg
                        return "in-sequence " + msg      # own kind: this replay is self-contained
                    fg, kw = _kwargs(e[1:5])
                    if r[0] != "e":
                        valid_before.append((fg, "fg"))
                        valid_before.append((kw["bg_color"], "bg"))
                elif e[0] == "P":
                    if r != "s:" + e[1]:
                        return "nocolor-esc: call %d: the plain-text formatter turns %r into %s" % (j, dec_str(e[1]), r)
                else:
                    k = int(e[1])
                    made = k < j and entries[k][0] == "F" and res[k][0] == "s"
                    if not made:
                        if r != "none":
                            return "seq-object: %s answers %s but call %d made no formatter" % (" ".join(e), r, k)
                        continue
                    if r[0] != "s":
                        return "history-dependent: formatter of call %d used again gives %s" % (k, r)
                    msg = _judge_call("fmt", entries[k][1:5] + [e[2]], "ok " + r[2:], "call %d: object of call %d again" % (j, k))
                    if msg:
                        return "in-sequence " + msg
        elif op == "first":
            text = dec_str(a[1])
            if not rep.startswith("ok "):
                return "first-use: %s as the first call in a fresh process gives %s" % (a[0], rep)
            got = dec_str(rep[3:])
            warm = _first_use(a[0], text, m)         # the same call on the module that has been used for a while
            if got != warm:
                return "first-use: %s answers %r as the first call, %r later" % (a[0], got, warm)
            if ESC not in text and got != text:
                return "strip: text without escape characters changed: %r -> %r" % (text, got)
        elif op == "route":
            head = split_data(a)[0]
            verdict, st = wanted(head[:4])
            if flag_on(head[3]):
                verdict, st = ("either" if verdict == "bad" else verdict), DEFAULT
            if verdict == "bad":
                if rep != "err ValueError":
                    return "%s: %s gives %s" % ("invalid-wrong-exception" if rep.startswith("err ") else "invalid-accepted",
                                                line[:80], rep[:60])
                continue
            if verdict == "either" and rep == "err ValueError":
                continue
            if rep == "err ValueError" and head[4].split(":")[0] in ("str", "pct", "fstr", "addr", "addl"):
                return "valid-rejected: %s gives %s" % (line[:120], rep)
            if not rep.startswith("ok "):
                continue             # a format spec the code rejects etc.: not this property's question
            res, text = dec_str(rep[3:]), dec_str(head[5])
            shown = terminal(res, lenient=True)
            if shown is None:
                return "route malformed: %s: %r is not text + complete SGR sequences" % (line[:120], res)
            cells, fin = shown
            if fin != DEFAULT:
                return "route bleed: %s: terminal left in state %s" % (line[:120], _show_state(fin))
            k = _window(cells, text, st)
            if k is not None:
                for j, (ch, got) in enumerate(cells):
                    want = st if k <= j < k + len(text) else DEFAULT
                    if got != want:
                        return "route %s: %s: character %d (%r) of %r shown with %s, requested %s" % (
                            "attributes" if want != DEFAULT else "bleed", line[:120], j, ch,
                            "".join(c for c, _ in cells), _show_state(got), _show_state(want))
            vis = "".join(c for c, _ in cells)
            if m.CHText.strip_colors(res) != vis:
                return "route strip: %s: strip_colors(%r) = %r" % (line[:120], res, m.CHText.strip_colors(res))
        elif op in ("cht", "make", "lst", "hist", "ops"):
            head = split_data(a)[0]
            lst_head = head
            if op == "lst":
                head = head[3:]              # <n> parts, as in a cht / make line
            if op in ("cht", "make", "lst"):
                n = int(head[0])
                states, verdicts = [DEFAULT], []
                for i in range(n):
                    p = head[1 + 5 * i: 6 + 5 * i]
                    if p[0] == "P":
                        states.append(DEFAULT)
                        continue
                    v, st = wanted(p)
                    if flag_on(p[3]):
                        v, st = ("either" if v == "bad" else v), DEFAULT
                    verdicts.append(v)
                    states.append(st)
                verdict = "bad" if "bad" in verdicts else "either" if "either" in verdicts else "ok"
            else:
                verdict, states, _ = _palette_states(head)
            if verdict == "bad":
                if rep != "err ValueError":
                    return "%s: %s gives %s" % ("invalid-wrong-exception" if rep.startswith("err ") else "invalid-accepted",
                                                line[:80], rep[:60])
                continue
            if verdict == "either" and rep == "err ValueError":
                continue
            if rep == "err ValueError":
                return "valid-rejected: %s gives %s" % (line[:120], rep)
            if not rep.startswith("ok "):
                continue             # another exception of a CHText operation: not this property's question
            looks = rep[3:].split("|") if rep[3:] else []
            for j, look in enumerate(looks):
                msg = _judge_own(look, states, "observation %d of %s" % (j, line[:200]))
                if msg:
                    return {"cht": "", "make": "make ", "lst": "list-helper ", "hist": "history ", "ops": "operations "}[op] + msg
            if op in ("cht", "make") and looks:
                # a text built directly from what formatters returned: the attributes requested for a character are
                # those of the formatter its part came from. (Only the colours are judged here: when the shown
                # characters are not the parts' characters in order, that is C08's finding.)
                n = int(head[0])
                expect = [(dec_str(head[5 + 5 * i]), states[i + 1]) for i in range(n)]
                shown = terminal(dec_str(looks[0].split()[0]), lenient=True)
                if shown and "".join(c for c, _ in shown[0]) == "".join(t for t, _ in expect):
                    msg = _check_shown(dec_str(looks[0].split()[0]), expect, line[:200])
                    if msg:
                        return ("make " if op == "make" else "") + "constructor-" + msg
            if op == "lst" and looks:
                # what was requested: the parts' characters with their formatters' attributes, cut to each new length
                # or followed by blanks nobody asked a colour for (default state). Only the colours are judged: when
                # the shown characters are not these, that is C08's finding.
                n = int(head[0])
                cells = [(ch, states[i + 1]) for i in range(n) for ch in dec_str(head[5 + 5 * i])]
                for ln in helper_lens(lst_head[1]):
                    cells = cells[:ln] + [(" ", DEFAULT)] * (ln - len(cells))
                got = dec_str(looks[0].split()[0])
                shown = terminal(got, lenient=True)
                if shown and "".join(c for c, _ in shown[0]) == "".join(c for c, _ in cells):
                    msg = _check_shown(got, cells, line[:200])
                    if msg:
                        return "list-helper " + msg
        elif op == "pfmt":
            if rep != "ok " + a[0]:
                return "nocolor-esc: the plain-text formatter turns %r into %s" % (dec_str(a[0]), rep)
        elif op == "strip":
            s = dec_str(a[0])
            if not rep.startswith("ok "):
                return "strip-fails: strip_colors(%r) gives %s" % (s, rep)
            if ESC not in s and dec_str(rep[3:]) != s:
                return "strip: text without escape characters changed: %r -> %r" % (s, dec_str(rep[3:]))
    return None


# ------------------------------------------------------------------ generators
_LETTERS = "abcxyzmMGg RED019;:[]?_-+.\t\n\x07\x9b"
_UNI = ["\xe9", "Ж", "中", "\U0001F600", "٣", "३", "５", "\U0001d7d6", "\xb2", "①", "​"]


def rand_text(rng, maxlen=12):
    r = rng.random()
    n = 0 if r < 0.08 else rng.randrange(1, maxlen + 1)
    out = []
    for _ in range(n):
        k = rng.random()
        if k < 0.6:
            out.append(rng.choice(_LETTERS))
        elif k < 0.8:
            out.append(rng.choice(_UNI))
        else:
            c = rng.randrange(0, 0x3000)
            out.append(chr(c) if c != 27 and not 0xD800 <= c <= 0xDFFF else "x")
    return "".join(out)


def rand_valid_color(rng):
    v = _rand_valid_plain(rng)
    if rng.random() < 0.12 and not isinstance(v, (str, type(None))):
        if isinstance(v, int):
            return bool(v) if v in (0, 1) and rng.random() < 0.5 else rng.choice([int_enum, IntSub])(v)
        return rng.choice([RGB(*v), TupleSub(v), list(v), list(v), ListSub(v),
                           tuple(bool(x) if x in (0, 1) and rng.random() < 0.3 else rng.choice([int, int_enum, IntSub])(x) for x in v)])
    return v


def _rand_valid_plain(rng):
    k = rng.randrange(6)
    if k == 0:
        return None
    if k == 1:
        return rng.choice(STD_NAMES)
    if k == 2:
        return rng.randrange(256)
    if k == 3:
        return (rng.randrange(6), rng.randrange(6), rng.randrange(6))
    if k == 4:
        return "g%d" % rng.randrange(24)
    return rng.choice([0, 7, 8, 15, 16, 231, 232, 255, "BLACK", "WHITE", (0, 0, 0), (5, 5, 5), "g0", "g23"])


def _py_int_ok(s):
    try:
        int(s)
        return True
    except ValueError:
        return False


def in_domain_str(s):
    """'g' + <something int() accepts that is not plain ASCII digits> ('g+5', 'g 5', 'g1_0', 'g-0') is excluded"""
    if s.startswith("g") and s not in STD_NAMES:
        rest = s[1:]
        if not (rest.isascii() and rest.isdigit()) and _py_int_ok(rest) and int(rest) >= 0:
            return False
    return True


MALFORMED = [-1, -2, -255, -256, 256, 257, 300, 1000, 2 ** 31, 2 ** 64, -2 ** 64,
             (), (1,), (1, 2), (1, 2, 3, 4), (0, 0, 0, 0, 0, 0), (6, 0, 0), (0, 6, 0), (0, 0, 6), (-1, 0, 0), (0, -1, 0),
             (0, 0, -1), (5, 5, 6), (255, 255, 255), (-5, -5, -5), (1, 2, 10 ** 20),
             "", "g", "G", "G5", "g24", "g25", "g30", "g99", "g100", "g255", "g256", "g-1", "g-5", "g1.5", "g1e1", "gx",
             "g5x", "gg5", "g0x10", "red", "Red", "green", "GREEN ", " RED", "RED\n", "REDD", "RE", "ORANGE", "GRAY",
             "GREY", "gray", "black", "0", "1", "31", "255", "BRIGHT_RED", "-", "DEFAULT", "None", "g" + "9" * 30,
             "g" + "1" * 5000, "г" + "5", 1.5, -1.0, 256.0, 0.5, 254.5, (1.5, 2, 3), (1, 2, 5.5), (6.0, 0, 0), (-1.0, 0, 0),
             (0.5, 0.5, 0.5), b"RED",
             # lists are (r, g, b) values like tuples; members of other types; objects of other types (hashable or not)
             [], [1], [1, 2], [1, 2, 3, 4], [6, 0, 0], [0, -1, 0], [0, 0, 6], [1.0, 2, 3], [1, 2, 5.5], [255, 255, 255],
             ("a", 1, 2), (1, "a", 2), (1, 2, "a"), ("1", 2, 3), ["a", 1, 2], [1, 2, "1"], (None, 1, 2), (1, None, 2),
             [1, 2, None], [None, None, None], ((1,), 2, 3), [1, (1,), 3], (_Obj(), 1, 2), [1, 2, _Obj()], ("a",), ["a", "a"],
             (None,), ("a", "a", "a", "a"), (True, 7, 0), [False, 0, -1], ListSub([1, 2]), ListSub([0, 0, 9]),
             {}, {1: 2}, {1, 2, 3}, frozenset((1, 2, 3)), _Obj(), 1j]
PADDED = ["g00", "g05", "g007", "g023", "g0023", "g024", "g0000", "g" + "0" * 40 + "7", "g" + "0" * 40 + "24"]


def rand_malformed(rng):
    k = rng.randrange(5)
    if k == 0:
        return rng.choice(MALFORMED)
    if k == 1:
        return rng.choice([rng.randrange(-300, 0), rng.randrange(256, 600), rng.randrange(256, 10 ** 12)])
    if k == 2:
        n = rng.choice([0, 1, 2, 3, 3, 3, 4, 5])
        t = [rng.randrange(-2, 9) for _ in range(n)]
        if t and rng.random() < 0.3:        # a member that is not an int: float, None, str, nested tuple, object
            t[rng.randrange(n)] = rng.choice([1.0, 2.5, None, "a", "1", (1,), _Obj()])
        if wanted_colour(t)[0] != "bad":
            t[0] = 7
        return rng.choice([tuple, tuple, list, list, TupleSub, ListSub])(t)
    if k == 3:
        base = rng.choice(STD_NAMES + ["g5", "g23", "g"])
        i = rng.randrange(len(base) + 1)
        s = rng.choice([base[:i] + base[i + 1:], base[:i] + rng.choice("xG5 _g") + base[i:], base.lower(), base + base])
    else:
        s = "".join(rng.choice("gG0123459xR ED-.") for _ in range(rng.randrange(0, 6)))
    if not in_domain_str(s) or wanted_colour(s)[0] != "bad":
        return "bogus"
    return s


def rand_eff(rng):
    r = rng.random()
    if r < 0.35:
        return "NNNNN"
    if r < 0.8:
        return "".join(rng.choice("NFT" if r < 0.65 else "NT") for _ in range(5))
    return "".join(rng.choice(FLAG_KINDS) for _ in range(5))         # other kinds of values: 0 1 2 "" "x" [] [0] 0.0 1.5


def rand_nc(rng, p_on=0.1):
    """a no_color value: mostly real bools / None, sometimes another kind"""
    on = rng.random() < p_on
    if rng.random() < 0.6:
        return "T" if on else rng.choice("FFN")
    return rng.choice("T12xLh" if on else "NF0elz")


def _case(line, kind):
    if line.split(" ", 1)[0] in ("cht", "hist", "ops"):
        # the observable line carries the real object's own chunk list(s) as data; its twin, where the model
        # evaluates the operations itself, is compared as a diagnostic only
        return {"lines": [attach(line), twin(line)], "meta": {"kind": kind}}
    if line.startswith(("make ", "lst ")):
        return {"lines": [attach(line), twin(line)], "meta": {"kind": kind}}
    if line.startswith("route "):
        return {"lines": [attach_route(line)], "meta": {"kind": kind}}
    return {"lines": [line], "meta": {"kind": kind}}


def _emitted(fg, bg=None, eff="NNNNN"):
    """a sequence of the kind the package emits, built from the statement (not by the code)"""
    codes = []
    for v, base in ((fg, 30), (bg, 40)):
        w = wanted_colour(v)[1]
        if w[0] == "b":
            codes.append("%d" % (base + int(w[1:])))
        elif w[0] == "x":
            codes.append("%d:5:%s" % (base + 8, w[1:]))
    codes += [c for c, e in zip("12459", eff) if flag_on(e)]
    return ESC + "[" + ";".join(codes) + "m" if codes else ""


def rand_fragment_string(rng):
    out = []
    for _ in range(rng.randrange(1, 9)):
        k = rng.random()
        if k < 0.35:
            seq = rng.choice([_emitted(rand_valid_color(rng), rand_valid_color(rng), rand_eff(rng)), ESC + "[0m",
                              ESC + "[m", ESC + "[38;5;123m", ESC + "[1;22m", ESC + "[39;49m"])
            if seq and rng.random() < 0.4:
                i = rng.randrange(len(seq) + 1)
                seq = rng.choice([seq[:i], seq[i:], seq[:i] + rng.choice("x?m;: [\x1b٣") + seq[i:], seq[:i] + seq[i + 1:]])
            out.append(seq)
        elif k < 0.7:
            out.append("".join(rng.choice("\x1b[[;:m019?Mx ٣５") for _ in range(rng.randrange(1, 7))))
        else:
            out.append(rand_text(rng, 5))
    return "".join(out)


# ---- several calls in one process / histories of one object / operation trees
EQ_FLOATS = [0.0, 1.0, 7.0, 15.0, 16.0, 100.0, 200.0, 231.0, 232.0, 255.0]


def equal_but_invalid(rng, v):
    """a value that compares (and hashes) equal to the valid int / tuple `v` but is not a valid colour"""
    if isinstance(v, int):
        return float(v)
    t = list(v)
    for i in rng.sample(range(3), rng.randrange(1, 4)):
        t[i] = float(t[i])
    return tuple(t)


def rand_numeric_valid(rng):
    return rng.choice([rng.randrange(256), int(rng.choice(EQ_FLOATS)),
                       (rng.randrange(6), rng.randrange(6), rng.randrange(6))])


def _seq_text(rng):
    """texts repeat inside a sequence: the same text through different formatters / the same formatter twice"""
    return rng.choice(["x", "x", "ab", "", "m"]) if rng.random() < 0.6 else rand_text(rng, 3)


def _entry(rng, kind, fg, bg, eff="NNNNN", nc=0):
    payload = enc_str(_seq_text(rng)) if kind == "F" else enc_bytes(bytes(rng.choice([65, 109, 59, 200]) for _ in range(rng.randrange(3))))
    return "%s %s %s" % (kind, spec_tokens(fg, bg, eff, nc), payload)


def gen_seq(rng):
    """-> (line, kind)"""
    r = rng.random()
    ents = []
    if r < 0.45:
        # a valid value, then an equal but invalid one in the same role (and the other order around it)
        v = rand_numeric_valid(rng)
        fv = equal_but_invalid(rng, v)
        role = rng.choice(["fg", "bg"])
        other = rng.choice([None, None, "RED", 5])
        k1, k2 = rng.choice(["F", "F", "B"]), rng.choice(["F", "F", "B"])

        def mk(kind, val):
            return _entry(rng, kind, val, other) if role == "fg" else _entry(rng, kind, other, val)
        order = rng.choice(["vi", "ivi", "viv", "vii"])
        ents = [mk(k1 if c == "v" else k2, v if c == "v" else fv) for c in order]
        kind = "seq-equal-" + order
    else:
        n = rng.randrange(2, 7)
        pool = [(rand_valid_color(rng), rand_valid_color(rng), rand_eff(rng)) for _ in range(2)]
        for i in range(n):
            q = rng.random()
            if q < 0.2 and ents:
                ents.append("R %d %s" % (rng.randrange(0, i + 1 if rng.random() < 0.1 else i), enc_str(_seq_text(rng))))
            elif q < 0.3 and ents:
                ents.append(rng.choice(ents))                      # the very same call again
            elif q < 0.36:
                ents.append("P " + enc_str(_seq_text(rng)))
            elif q < 0.45:
                bad = rand_malformed(rng)
                ents.append(_entry(rng, rng.choice("FB"), *rng.choice([(bad, None), (None, bad)])))
            elif q < 0.6:
                v = rand_numeric_valid(rng)
                val = rng.choice([v, equal_but_invalid(rng, v)])
                ents.append(_entry(rng, rng.choice("FFB"), *rng.choice([(val, None), (None, val)])))
            else:
                fg, bg, eff = rng.choice(pool)
                ents.append(_entry(rng, rng.choice("FFFB"), fg, bg, eff, rand_nc(rng, 0.05)))
        kind = "seq-random"
    return "seq %d %s" % (len(ents), " ".join(ents)), kind


def rand_palette(rng, kmax=3):
    """formatter tokens for colour ids 1..k with pairwise different, non-empty prefixes (the model identifies
    a chunk's type with its colour id, the code with its prefix)"""
    specs, seen = [], {""}
    for _ in range(rng.randrange(1, kmax + 1)):
        for _try in range(20):
            fg, bg, eff = rand_valid_color(rng), rand_valid_color(rng), rand_eff(rng)
            pre = _emitted(fg, bg, eff)
            if pre not in seen:
                seen.add(pre)
                specs.append(spec_tokens(fg, bg, eff))
                break
    return specs


def gen_hist(rng):
    specs = rand_palette(rng)
    k = len(specs)
    ops, last, selfs = [], rng.randrange(k + 1), 0
    for _ in range(rng.randrange(2, 11)):
        q = rng.random()
        if q < 0.4:
            cid = last if rng.random() < 0.5 else rng.randrange(k + 1)
            last = cid
            ops.append("a:%d:%s" % (cid, enc_str("" if rng.random() < 0.1 else rand_text(rng, 3))))
        elif q < 0.5:
            ops.append("p:" + enc_str(rand_text(rng, 3)))
            last = 0
        elif q < 0.58 and selfs < 3:
            ops.append(rng.choice(["self", "self", "selfl"]))
            selfs += 1
        elif q < 0.62:
            ops.append("cl")
        else:
            ops.append("r")
    ops.append("r")
    return "hist %d %s %s" % (k, " ".join(specs), " ".join(ops)) if k else None


def _gen_tree(rng, k, depth, want):
    """postfix tokens of a random well-typed tree; want: 'T' CHText, 'C' chunk, 'P' any operand"""
    def chunk():
        base = ["c:%d:%s" % (rng.randrange(k + 1), enc_str("" if rng.random() < 0.08 else rand_text(rng, 4)))]
        if depth > 0 and rng.random() < 0.25:
            base += [rng.choice(["sl:%s:%s" % (rng.choice(["n", "0", "1", "-1", "2", "-2"]), rng.choice(["n", "0", "1", "-1", "3", "9"])),
                                 "idx:%d" % rng.randrange(-3, 3)])]
        return base
    if want == "C":
        return chunk()
    if want == "P":
        q = rng.random()
        if q < 0.3:
            return ["s:" + enc_str(rand_text(rng, 3))]
        if q < 0.6:
            return chunk()
        if q < 0.72 and depth > 0:
            n = rng.randrange(0, 3)
            return [t for _ in range(n) for t in _gen_tree(rng, k, depth - 1, "P")] + ["%s:%d" % (rng.choice(["ls", "tp"]), n)]
        return _gen_tree(rng, k, depth - 1, "T") if depth > 0 else chunk()
    # want == "T"
    if depth <= 0:
        n = rng.randrange(0, 4)
        return [t for _ in range(n) for t in _gen_tree(rng, k, 0, "P")] + ["mk:%d" % n]
    q = rng.random()
    obj = lambda: _gen_tree(rng, k, depth - 1, rng.choice("TTC"))
    if q < 0.2:
        n = rng.randrange(0, 4)
        return [t for _ in range(n) for t in _gen_tree(rng, k, depth - 1, "P")] + ["mk:%d" % n]
    if q < 0.35:
        return obj() + _gen_tree(rng, k, depth - 1, "P") + ["add"]
    if q < 0.42:
        return rng.choice([["s:" + enc_str(rand_text(rng, 2))], ["c:0:" + enc_str("q"), "ls:1"]]) + obj() + ["add"]
    if q < 0.57:
        return obj() + _gen_tree(rng, k, depth - 1, "P") + ["iadd"]
    if q < 0.65:
        return obj() + [rng.choice(["dupiadd", "dupiadd", "dupiaddl"])]
    if q < 0.75:
        n = rng.randrange(0, 4)
        return obj() + [t for _ in range(n) for t in _gen_tree(rng, k, depth - 1, "P")] + ["join:%s:%d" % (rng.choice("lt"), n)]
    if q < 0.87:
        return _gen_tree(rng, k, depth - 1, "T") + ["sl:%s:%s" % (rng.choice(["n", "0", "1", "2", "-1", "-3", "5"]),
                                                                  rng.choice(["n", "0", "1", "3", "-1", "-2", "8", "40"]))]
    if q < 0.93:
        return _gen_tree(rng, k, depth - 1, "T") + ["idx:%d" % rng.randrange(-4, 5)]
    return obj() + ["fl:%d" % rng.choice([0, 1, 2, 3, 5, 8, 12, -1, -2])]


def gen_ops(rng):
    specs = rand_palette(rng)
    k = len(specs)
    if not k:
        return None
    prog = _gen_tree(rng, k, rng.randrange(1, 4), rng.choice("TTTC"))
    return "ops %d %s %s" % (k, " ".join(specs), " ".join(prog))


def rand_helper(rng, total):
    """-> (helper token, mode) for a chunk list holding `total` characters"""
    def one(t):
        q = rng.random()
        if q < 0.45:
            return t + rng.choice([1, 1, 2, 4, 9])
        if q < 0.55:
            return t
        if q < 0.62:
            return 0
        return rng.randrange(0, t) if t else 1

    def mode(n, t):
        return "pad" if n > t else "equal" if n == t else "trunc"
    r = rng.random()
    if r < 0.06:
        return "id", "id"
    n1 = one(total)
    if r < 0.8:
        return "rs:%d" % n1, mode(n1, total)
    n2 = one(n1)
    return "rs:%d,%d" % (n1, n2), "multi-%s-%s" % (mode(n1, total), mode(n2, n1))


def small_histories(maxlen):
    """every history of at most `maxlen` mutations over a small alphabet, observed after every mutation
    and at the start (rendering in between is the point)"""
    import itertools
    pal = "%s %s" % (spec_tokens("RED", None, "TNNNN"), spec_tokens(123, "g5"))
    alphabet = ["a:1:" + enc_str("x"), "a:2:" + enc_str("yz"), "a:0:" + enc_str("w"), "p:" + enc_str("v"), "self", "cl"]
    for n in range(1, maxlen + 1):
        for combo in itertools.product(alphabet, repeat=n):
            yield "hist 2 %s r %s" % (pal, " ".join(t + " r" for t in combo))


def gen_cases(rng, tier):
    thorough = tier != "quick"
    gray = ["g%d" % i for i in range(31)]
    cube = [(r, g, b) for r in range(6) for g in range(6) for b in range(6)]
    t0 = enc_str("ab")
    # --- exhaustive small scopes
    for a in [None] + STD_NAMES:
        for b in [None] + STD_NAMES:
            yield _case("fmt %s %s" % (spec_tokens(a, b), t0), "fmt-names")
    singles = list(range(256)) + cube + gray
    for v in singles:
        yield _case("fmt %s %s" % (spec_tokens(v, None), t0), "fmt-fg")
        yield _case("fmt %s %s" % (spec_tokens(None, v), t0), "fmt-bg")
        other = rand_valid_color(rng)
        yield _case("fmt %s %s" % (spec_tokens(v, other, rand_eff(rng)), enc_str(rand_text(rng))), "fmt-mixed")
        yield _case("fmt %s %s" % (spec_tokens(other, v, rand_eff(rng)), enc_str(rand_text(rng))), "fmt-mixed")
    # --- kinds of ints and tuples (the code's contract is isinstance): IntEnum members, int / tuple subclasses,
    #     namedtuples are colour values like plain ints / tuples
    for v in range(256):
        for mk in (int_enum, IntSub):
            yield _case("fmt %s %s" % (spec_tokens(mk(v), None), t0), "value-kinds")
            if v % 8 == 0 or thorough:
                yield _case("fmt %s %s" % (spec_tokens(rand_valid_color(rng), mk(v), rand_eff(rng)), t0), "value-kinds")
                yield _case("bytes %s %s" % (spec_tokens(mk(v), None), enc_bytes(b"ab")), "value-kinds")
    for c in cube:
        k = rng.randrange(3)
        mixed = tuple((int_enum, IntSub, int)[(k + i) % 3](x) for i, x in enumerate(c))
        for val in (RGB(*c), TupleSub(c), mixed):
            yield _case("fmt %s %s" % (spec_tokens(val, None), t0), "value-kinds")
        yield _case("fmt %s %s" % (spec_tokens(None, rng.choice([RGB(*c), TupleSub(c), RGB(*mixed)])), t0), "value-kinds")
        # a list is an (r, g, b) value like a tuple
        yield _case("fmt %s %s" % (spec_tokens(list(c), None), t0), "value-kinds-list")
        yield _case("fmt %s %s" % (spec_tokens(rand_valid_color(rng), rng.choice([list(c), ListSub(c), list(mixed)]), rand_eff(rng)), t0),
                    "value-kinds-list")
        if thorough or sum(c) % 4 == 0:
            yield _case("bytes %s %s" % (spec_tokens(list(c), list(reversed(c))), enc_bytes(b"ab")), "value-kinds-list")
    for b in (True, False):
        for eff in ("NNNNN", "TNNNT"):
            yield _case("fmt %s %s" % (spec_tokens(b, None, eff), t0), "value-kinds")
            yield _case("fmt %s %s" % (spec_tokens("RED", b, eff), t0), "value-kinds")
            yield _case("bytes %s %s" % (spec_tokens(b, not b, eff), enc_bytes(b"ab")), "value-kinds")
        yield _case("fmt %s %s" % (spec_tokens((b, 0, 5), (1, not b, b)), t0), "value-kinds")
        yield _case("cht 2 %s %s %s %s" % (spec_tokens(b), enc_str("a"), spec_tokens(1 if b else 0), enc_str("b")), "value-kinds")
        yield _case("seq 3 F %s - F %s - F %s -" % (spec_tokens(b), spec_tokens(int(b)), spec_tokens(b)), "value-kinds")
    for bad in [int_enum(-1), int_enum(256), IntSub(-1), IntSub(256), IntSub(10 ** 20), RGB(6, 0, 0), RGB(0, -1, 0),
                RGB(1.0, 2, 3), TupleSub(()), TupleSub((1, 2)), TupleSub((1, 2, 3, 4)), TupleSub((0, 0, 6)),
                (int_enum(6), 0, 0), (0, IntSub(-1), 0), TupleSub((1, 2.5, 3)),
                # values of every other type and sequences with members of every other type: ValueError, never TypeError
                [1, 2], [0, 0, 6], [1, 2.0, 3], ["a", 1, 2], ("a", 1, 2), (1, None, 2), [None, 1, 2], ("1", 2, 3), ((1,), 2, 3),
                [1, 2, _Obj()], ListSub([1, 2, 3, 4]), RGB("a", 1, 2), TupleSub((None, 0, 0)), {}, {1: 2}, {1, 2, 3},
                frozenset((1, 2, 3)), _Obj(), 1j, b"RED"]:
        for nc in "FT":
            yield _case("fmt %s %s" % (spec_tokens(bad, None, "NNNNN", nc), t0), "value-kinds-malformed")
            yield _case("fmt %s %s" % (spec_tokens("RED", bad, "TNNNN", nc), t0), "value-kinds-malformed")
        yield _case("bytes %s %s" % (spec_tokens(bad, None), enc_bytes(b"ab")), "value-kinds-malformed")
    for n in range(3 ** 5):
        eff = "".join("NFT"[(n // 3 ** i) % 3] for i in range(5))
        yield _case("fmt %s %s" % (spec_tokens(None, None, eff), t0), "fmt-effects")
        yield _case("fmt %s %s" % (spec_tokens(rand_valid_color(rng), rand_valid_color(rng), eff),
                                   enc_str(rand_text(rng))), "fmt-effects")
        yield _case("bytes %s %s" % (spec_tokens(rand_valid_color(rng), rand_valid_color(rng), eff),
                                     enc_bytes(bytes(rng.choice([65, 109, 59, 0, 200, 255, 91]) for _ in range(rng.randrange(4))))),
                    "bytes")
    # --- every kind of value for every flag (five effects and no_color), text and bytes formatter
    for pos in range(6):
        for kind in FLAG_KINDS:
            eff = "".join(kind if i == pos else "N" for i in range(5))
            nc = kind if pos == 5 else "F"
            for fg, bg in ((None, None), ("RED", None), (123, "g5")):
                yield _case("fmt %s %s" % (spec_tokens(fg, bg, eff, nc), t0), "flag-kinds")
                yield _case("bytes %s %s" % (spec_tokens(fg, bg, eff, nc), enc_bytes(b"ab")), "flag-kinds")
            if pos == 5:
                yield _case("fmt %s %s" % (spec_tokens("bogus", 256, "TTTTT", nc), t0), "flag-kinds")
                yield _case("bytes %s %s" % (spec_tokens("bogus", 256, "TTTTT", nc), enc_bytes(b"ab")), "flag-kinds")
    for k1 in FLAG_KINDS:
        for k2 in FLAG_KINDS:
            yield _case("fmt %s %s" % (spec_tokens("BLUE", None, k1 + "N" + k2 + "NN", "F"), t0), "flag-kinds")
            yield _case("fmt %s %s" % (spec_tokens("BLUE", None, "NNN" + k1 + "T", k2), t0), "flag-kinds")
            yield _case("seq 2 F %s - B %s -" % (spec_tokens(5, None, "N" + k1 + "NN" + k2, k2),
                                                 spec_tokens(5, None, "N" + k1 + "NN" + k2, k2)), "flag-kinds")
    # --- malformed values
    for v in MALFORMED + PADDED:
        for eff, nc in (("NNNNN", 0), ("TNNNT", 0), ("NNNNN", 1)):
            kind = "fmt-padded-gray" if v in PADDED else "fmt-malformed"
            yield _case("fmt %s %s" % (spec_tokens(v, None, eff, nc), t0), kind)
            yield _case("fmt %s %s" % (spec_tokens(None, v, eff, nc), t0), kind)
            yield _case("fmt %s %s" % (spec_tokens(rand_valid_color(rng), v, eff, nc), t0), kind)
            yield _case("fmt %s %s" % (spec_tokens(v, rand_valid_color(rng), eff, nc), t0), kind)
        yield _case("bytes %s %s" % (spec_tokens(v, None), enc_bytes(b"ab")), "bytes-malformed")
        yield _case("bytes %s %s" % (spec_tokens("RED", v, "TNNNN", rng.randrange(2)), enc_bytes(b"ab")), "bytes-malformed")
    for _ in range(600 if not thorough else 30000):
        v = rand_malformed(rng)
        fg, bg = (v, rand_valid_color(rng)) if rng.random() < 0.5 else (rand_valid_color(rng), v)
        if rng.random() < 0.15:
            fg, bg = rand_malformed(rng), rand_malformed(rng)
        yield _case("fmt %s %s" % (spec_tokens(fg, bg, rand_eff(rng), rand_nc(rng, 0.15)), enc_str(rand_text(rng, 4))),
                    "fmt-malformed")
    # --- random valid
    for _ in range(1500 if not thorough else 100000):
        nc = rand_nc(rng, 0.1)
        yield _case("fmt %s %s" % (spec_tokens(rand_valid_color(rng), rand_valid_color(rng), rand_eff(rng), nc),
                                   enc_str(rand_text(rng, 30 if thorough else 12))), "fmt-nocolor" if flag_on(nc) else "fmt-random")
    for _ in range(300 if not thorough else 20000):
        nc = rand_nc(rng, 0.1)
        payload = bytes(rng.choice([rng.randrange(256), 65, 109, 59, 58, 91]) for _ in range(rng.randrange(0, 10)))
        payload = payload.replace(b"\x1b", b"?")
        yield _case("bytes %s %s" % (spec_tokens(rand_valid_color(rng), rand_valid_color(rng), rand_eff(rng), nc),
                                     enc_bytes(payload)), "bytes")
    if thorough:
        allc = [None] + STD_NAMES + list(range(256)) + cube + ["g%d" % i for i in range(24)]
        for a in allc:
            for b in allc:
                yield _case("fmt %s %s" % (spec_tokens(a, b, rand_eff(rng)), enc_str(rand_text(rng, 3))), "fmt-pairs")
    for _ in range(40 if not thorough else 2000):
        yield _case("pfmt " + enc_str(rand_text(rng)), "pfmt")
    # --- CHText of several parts
    for _ in range(1500 if not thorough else 60000):
        pool = [(rand_valid_color(rng), rand_valid_color(rng), rand_eff(rng)) for _ in range(rng.randrange(1, 4))]
        pool.append((None, None, rng.choice(["NNNNN", "FFNNF"])))
        n = rng.randrange(0, 8)
        toks, bad = [], False
        for _ in range(n):
            r = rng.random()
            text = "" if rng.random() < 0.15 else rand_text(rng, 6)
            if r < 0.2:
                toks.append("P N NNNNN 0 " + enc_str(text))
            elif r < 0.23:
                toks.append("%s %s" % (spec_tokens(rand_malformed(rng), None), enc_str(text)))
                bad = True
            else:
                fg, bg, eff = rng.choice(pool)
                toks.append("%s %s" % (spec_tokens(fg, bg, eff, rand_nc(rng, 0.07)), enc_str(text)))
        yield _case("cht %d %s" % (n, " ".join(toks)) if n else "cht 0", "cht-malformed" if bad else "cht-%d" % min(n, 4))
        if rng.random() < 0.5:
            # the other constructor, CHText.make([chunks]): merges neighbours of the same type, keeps empty chunks
            yield _case("make %d %s" % (n, " ".join(toks)) if n else "make 0", "make-malformed" if bad else "make-%d" % min(n, 4))
        if rng.random() < 0.5:
            # the chunk list through the public list helper (pad / truncate / unchanged), then one of the ways to a str
            total = sum(len(dec_str(t.split()[4])) for t in toks)
            helper, mode = rand_helper(rng, total)
            yield _case("lst %s %s %s %d %s" % (rng.choice(LST_SOURCES), helper, rng.choice(LST_SINKS), n, " ".join(toks)),
                        "lst-malformed" if bad else "lst-" + mode)
    # --- CHText.make with empty chunks at every position among same-type and different-type neighbours
    import itertools
    letters = [("A", ""), ("A", "a"), ("B", ""), ("B", "bc"), ("P", ""), ("P", "p")]
    sp = {"A": spec_tokens("RED"), "B": spec_tokens("GREEN", "BLUE", "TNNNN")}
    for n in range(1, 5 if not thorough else 6):
        for combo in itertools.product(letters, repeat=n):
            parts = " ".join(("P N NNNNN F %s" % enc_str(t)) if f == "P" else "%s %s" % (sp[f], enc_str(t)) for f, t in combo)
            yield _case("make %d %s" % (n, parts), "make-small")
            if n <= 3:
                yield _case("cht %d %s" % (n, parts), "cht-small")
            # the list helper at every new length 0 .. total + 2 (all truncation points, unchanged, padding) after every
            # arrangement of coloured / plain / empty chunks; all sources x sinks (quick, 3 chunks: one drawn pair)
            if n <= (3 if not thorough else 4):
                total = sum(len(t) for _, t in combo)
                full = n <= 2 or (thorough and n <= 3)
                for ln in range(total + 3):
                    ways = [(a, b) for a in LST_SOURCES for b in LST_SINKS] if full else [(rng.choice(LST_SOURCES), rng.choice(LST_SINKS))]
                    for src, sink in ways:
                        yield _case("lst %s rs:%d %s %d %s" % (src, ln, sink, n, parts), "lst-small")
                if n <= 2:
                    for l1 in range(total + 3):
                        for l2 in range(l1 + 3):
                            yield _case("lst %s rs:%d,%d %s %d %s" % (rng.choice(LST_SOURCES), l1, l2, rng.choice(LST_SINKS), n, parts),
                                        "lst-small-twice")
    # --- every route from what a formatter returned to a str
    fills = ["", " ", "*", "m", "0", "[", ";", "_"]
    for _ in range(900 if not thorough else 40000):
        fg, bg, eff = rand_valid_color(rng), rand_valid_color(rng), rand_eff(rng)
        if rng.random() < 0.08:
            fg = rand_malformed(rng)
        text = rng.choice(["text", "x", "", "ab", "m", "7"]) if rng.random() < 0.6 else rand_text(rng, 5).replace("{", "(").replace("}", ")")
        q = rng.random()
        if q < 0.55:
            fill = rng.choice(fills)
            align = rng.choice(["", "<", ">", "^"]) if not fill else rng.choice("<>^")
            width = rng.choice(["", "0", "1", "3", "6", "10", "12", "25"])
            route = "%s:%s" % (rng.choice(["fmt", "fmt", "sfmt", "tfmt"]), enc_str(fill + align + width + rng.choice(["", "", "s"])))
        elif q < 0.7:
            route = rng.choice(["str", "pct", "fstr"])
        else:
            route = "%s:%s" % (rng.choice(["addr", "addl"]), enc_str(rng.choice(["", " ", "   ", "pad", "[m", "0;1m"])))
        yield _case("route %s %s %s" % (spec_tokens(fg, bg, eff, rand_nc(rng, 0.05)), route, enc_str(text)), "route-" + route.split(":")[0])
    for spec in ["10", "<10", ">10", "^10", "*^9", "_>7s", "3", "0", "s", "", "m<8", "1"]:
        for text in ["text", ""]:
            for fgbg in (("GREEN", "BLUE"), (None, None), (123, None)):
                for rt in ("fmt", "sfmt", "tfmt"):
                    yield _case("route %s %s:%s %s" % (spec_tokens(fgbg[0], fgbg[1], "NNTNT"), rt, enc_str(spec), enc_str(text)), "route-" + rt)
    # --- first use: a public entry point called before anything else in a fresh copy of the module
    for entry in FIRST_ENTRIES:
        for text in ["", "plain [m text", _emitted("RED") + "x" + ESC + "[0m", _emitted(123, "g5", "TNNNT") + "ab" + ESC + "[0m tail",
                     ESC + "[m", ESC + "[38;5;1mq"] + [rand_fragment_string(rng) for _ in range(6 if not thorough else 200)]:
            text = "".join(c for c in text if not 0xD800 <= ord(c) <= 0xDFFF)
            if entry == "plain-fmt":
                text = text.replace(ESC, "?")
            yield _case("first %s %s" % (entry, enc_str(text)), "first-use")
    # --- sizes: long reports (many coloured chunks in one string, many sequences through strip_colors)
    pool = [spec_tokens("RED"), spec_tokens(None, 123, "TNNNN"), spec_tokens((1, 2, 3), "g5"), spec_tokens("BLUE", None, "NNNNT")]
    for n in (1, 2, 127, 128, 129, 130, 200, 257, 1000) + ((2000, 3000) if thorough else ()):
        parts = " ".join("%s %s" % (pool[i % len(pool)], enc_str("c%d" % i if i % 7 else "[m;1")) for i in range(n))
        yield _case("cht %d %s" % (n, parts), "size-cht")
        if n <= 257:
            yield _case("make %d %s" % (n, " ".join("%s %s" % (pool[(i // 3) % len(pool)], enc_str("k%d" % i)) for i in range(n))),
                        "size-make")
            for ln in (0, n, 2 * n, 3 * n, 3 * n + 50):
                yield _case("lst %s rs:%d %s %d %s" % (rng.choice(LST_SOURCES), ln, rng.choice(LST_SINKS), n,
                                                      " ".join("%s %s" % (pool[(i // 2) % len(pool)], enc_str("k%02d" % (i % 100))) for i in range(n))),
                            "size-lst")
        two = [pool[0], pool[3]]
        yield _case("hist 2 %s %s %s r %s r" % (two[0], two[1],
                                               " ".join("a:%d:%s" % (1 + i % 2, enc_str("r%d " % i)) for i in range(n)),
                                               "a:0:" + enc_str("end")), "size-hist")
        seqs = [_emitted("RED"), ESC + "[0m", _emitted(200, (5, 5, 5), "TTTTT"), ESC + "[0m"]
        yield _case("strip " + enc_str("".join(seqs[i % 4] + ("t%d" % i if i % 2 == 0 else "") for i in range(2 * n))), "size-strip")
        yield _case("strip " + enc_str((ESC + "[0m") * (2 * n) + "tail"), "size-strip")
    # --- several calls in one process (validation must not remember earlier calls)
    for v in (list(range(0, 256, 5)) if not thorough else list(range(256))):
        fv = float(v)
        yield _case("seq 2 F %s - F %s -" % (spec_tokens(v), spec_tokens(fv)), "seq-equal-vi")
        yield _case("seq 3 B %s - B %s - F %s -" % (spec_tokens(None, fv), spec_tokens(None, v), spec_tokens(None, fv)),
                    "seq-equal-ivi")
    for _ in range(800 if not thorough else 40000):
        line, kind = gen_seq(rng)
        yield _case(line, kind)
    # --- histories of one CHText object: mutate, observe, mutate, observe
    for line in small_histories(3 if not thorough else 5):
        yield _case(line, "hist-small")
    for _ in range(1200 if not thorough else 60000):
        line = gen_hist(rng)
        if line:
            yield _case(line, "hist-random")
    # --- CHText values built by trees of operations
    for _ in range(1500 if not thorough else 80000):
        line = gen_ops(rng)
        if line:
            yield _case(line, "ops")
    # --- strip_colors / terminal on arbitrary strings
    for _ in range(2500 if not thorough else 200000):
        s = rand_fragment_string(rng)
        s = "".join(c for c in s if not 0xD800 <= ord(c) <= 0xDFFF)
        yield _case("strip " + enc_str(s), "strip-esc" if ESC in s else "strip-plain")
        if rng.random() < 0.5:
            yield _case("term " + enc_str(s), "term")
    for s in ["", ESC, ESC + "[", ESC + "[m", ESC + "[0m", ESC + "[;m", ESC + "[:m", ESC + "[0", ESC + ESC + "[0m",
              ESC + "[" + ESC + "[0m", ESC + "[0mm", ESC + "[1;2;4;5;9m", ESC + "[38:5:255m", ESC + "[38:5:256m",
              ESC + "[38;5;1m", ESC + "[٣m", ESC + "[3５m", ESC + "[31M", ESC + "[?25m", ESC + "[ 1m",
              ESC + "[31;", ESC + "[31;m" + ESC + "[0m", "m" + ESC + "[31mm" + ESC + "[0mm"]:
        yield _case("strip " + enc_str(s), "strip-fixed")
        yield _case("term " + enc_str(s), "term")


def search_cases(rng, tier):
    """directed search around the modelled constructs: every single colour value in every position with
    texts made of the characters of the sequences themselves, every effect, every boundary value"""
    # a changed strip_colors call / pattern shape: long strings first (limits such as a count argument)
    for n in (129, 257, 300, 1000, 3000):
        yield _case("strip " + enc_str("".join(_emitted(i % 256) + "x" + ESC + "[0m" for i in range(n))), "search-size")
        yield _case("cht %d %s" % (n, " ".join("%s %s" % (spec_tokens(i % 256 if i % 2 else "RED", None, "NTNNN" if i % 2 else "NNNNN"),
                                                          enc_str("w%d" % i)) for i in range(n))), "search-size")
    texts = ["x", "m", "0m", ";1m", ":", "[31m", "38:5:1", ""]
    vals = [None] + STD_NAMES + list(range(256)) + [(r, g, b) for r in range(6) for g in range(6) for b in range(6)] \
        + ["g%d" % i for i in range(31)]
    for v in vals:
        for t in texts[:3]:
            yield _case("fmt %s %s" % (spec_tokens(v, None), enc_str(t)), "search-fg")
            yield _case("fmt %s %s" % (spec_tokens(None, v), enc_str(t)), "search-bg")
        yield _case("cht 3 %s %s P N NNNNN 0 %s %s %s" % (spec_tokens(v, None), enc_str("a"), enc_str("b"),
                                                          spec_tokens("RED", v, "TTTTT"), enc_str("c")), "search-cht")
        yield _case("bytes %s %s" % (spec_tokens(v, v, "TNTNT"), enc_bytes(b"m;")), "search-bytes")
        for helper in ("rs:1", "rs:2", "rs:5"):
            yield _case("lst fmts %s make 1 %s %s" % (helper, spec_tokens(None, v, "NNTNN"), enc_str("ab")), "search-lst")
        yield _case("lst obj rs:7 join 2 %s %s %s %s" % (spec_tokens("RED"), enc_str("a"), spec_tokens(v, None), enc_str("bc")), "search-lst")
    for n in range(3 ** 5):
        eff = "".join("NFT"[(n // 3 ** i) % 3] for i in range(5))
        for t in texts:
            yield _case("fmt %s %s" % (spec_tokens(None, None, eff), enc_str(t)), "search-eff")
        yield _case("fmt %s %s" % (spec_tokens(5, "CYAN", eff), enc_str("q")), "search-eff")
    for v in MALFORMED + PADDED + list(range(-20, 0)) + list(range(256, 300)):
        for nc in (0, 1):
            yield _case("fmt %s %s" % (spec_tokens(v, None, "NNNNN", nc), enc_str("x")), "search-malformed")
            yield _case("fmt %s %s" % (spec_tokens(None, v, "NNNNN", nc), enc_str("x")), "search-malformed")
    for a in range(-1, 8):
        for b in range(-1, 8):
            for c in range(-1, 8):
                yield _case("fmt %s %s" % (spec_tokens((a, b, c), None), enc_str("x")), "search-cube")
    for v in range(256):
        for kinds in ("FF", "BB", "FB"):
            yield _case("seq 3 %s %s - %s %s - %s %s -" % (kinds[0], spec_tokens(v), kinds[1], spec_tokens(float(v)),
                                                         kinds[1], spec_tokens(None, float(v))), "search-seq")
    for r in range(6):
        for g in range(6):
            for b in range(6):
                yield _case("seq 2 F %s - F %s -" % (spec_tokens((r, g, b)), spec_tokens((float(r), g, b))), "search-seq")
    for line in small_histories(4):
        yield _case(line, "search-hist")
    for pos in range(6):
        for kind in FLAG_KINDS:
            for other in "NTF1":
                eff = "".join(kind if i == pos else other for i in range(5))
                nc = kind if pos == 5 else "F"
                for fg, bg in ((None, None), ("RED", "g3"), (7, None)):
                    yield _case("fmt %s %s" % (spec_tokens(fg, bg, eff, nc), enc_str("x")), "search-flags")
                    yield _case("bytes %s %s" % (spec_tokens(fg, bg, eff, nc), enc_bytes(b"x")), "search-flags")


def corpus():
    """witnesses of the defect fixed by 0251bc8 (256-colour sequences were not stripped) and other fixed points"""
    return [_case(l, "corpus") for l in [
        "fmt l:1,2,3 N NNNNN F 120",         # a19c1ff: ColorFmt([1, 2, 3]) raised TypeError (unhashable) instead of colouring
        "fmt t:a,1,2 N NNNNN F 120",         # a19c1ff: ColorFmt(('a', 1, 2)) raised TypeError instead of ValueError
        "bytes N l:0,0,5 TNNNN F 97",        # the same through ColorBytes / bg_color
        "bytes N od NNNNN F 97",             # ColorBytes(None, bg_color={}): TypeError before a19c1ff
        "fmt ib:1 N NNNNN F 120",            # 6baf49c: ColorFmt(True) emitted ESC[38:5:Truem
        "cht 2 ib:1 ib:0 TNNNN F 97 N t:b1,0,b0 NNNNN F 98",
        "fmt i:123 N NNNNN 0 120",
        "fmt t:1,2,3 s:103,53 NNNNN 0 120",
        "cht 3 i:123 N NNNNN 0 97 P N NNNNN 0 98 s:82,69,68 s:103,50,51 TTTTT 0 99",
        "cht 2 s:82,69,68 N NNNNN 0 97 s:82,69,68 N NNNNN 0 98",
        "bytes i:123 N TNNNN 0 120",
        "fmt s:98,111,103,117,115 N NNNNN 1 120",
        "strip 97,27,91,51,56,58,53,58,49,50,51,109,98,27,91,48,109",
        "lst fmts rs:6 make 2 s:82,69,68 N NNNNN F 97,98 N s:66,76,85,69 NNNNN F 116,48",     # pad after a coloured chunk
        "lst obj rs:3 join 2 s:82,69,68 N NNNNN F 97,98 N s:66,76,85,69 NNNNN F 116,48",      # cut inside a coloured chunk
    ]]


# ------------------------------------------------------------------ shrinking, counting
def _shorter(tok):
    s = dec_str(tok)
    for i in range(len(s)):
        yield enc_str(s[:i] + s[i + 1:])


def shrink(case):
    line = case["lines"][0]
    op, *a = line.split()
    a = split_data(a)[0]

    def mk(toks):
        c = _case(" ".join([op] + toks), None)       # cht/hist/ops: the data are taken again from the real code
        c["meta"] = case.get("meta", {})
        return c
    if op in ("fmt", "bytes"):
        if a[1] != "N":
            yield mk([a[0], "N"] + a[2:])
        if a[0] != "N":
            yield mk(["N"] + a[1:])
        if a[2] != "NNNNN":
            yield mk(a[:2] + ["NNNNN"] + a[3:])
            for i in range(5):
                if a[2][i] != "N":
                    yield mk(a[:2] + [a[2][:i] + "N" + a[2][i + 1:]] + a[3:])
        if op == "fmt":
            for t in _shorter(a[4]):
                yield mk(a[:4] + [t])
        elif a[4] != "-":
            yield mk(a[:4] + ["-"])
    elif op in ("cht", "make", "lst"):
        pre = []
        if op == "lst":
            pre, a = a[:3], a[3:]
            lens = helper_lens(pre[1])
            for i in range(len(lens)):
                for cand in (lens[:i] + lens[i + 1:], lens[:i] + [lens[i] - 1] + lens[i + 1:]):
                    if all(x >= 0 for x in cand):
                        yield mk([pre[0], "rs:" + ",".join(map(str, cand)) if cand else "id", pre[2]] + a)
            if pre[0] != "fmts":
                yield mk(["fmts"] + pre[1:] + a)
            _mk0 = mk
            mk = lambda toks: _mk0(pre + toks)
        n = int(a[0])
        parts = [a[1 + 5 * i: 6 + 5 * i] for i in range(n)]
        for i in range(n):
            rest = parts[:i] + parts[i + 1:]
            yield mk([str(n - 1)] + [t for p in rest for t in p])
        for i in range(n):
            for t in _shorter(parts[i][4]):
                q = parts[:i] + [parts[i][:4] + [t]] + parts[i + 1:]
                yield mk([str(n)] + [x for p in q for x in p])
            if parts[i][0] == "P":
                continue
            cands = []
            if parts[i][1] != "N":
                cands.append([parts[i][0], "N"] + parts[i][2:])
            if parts[i][0] != "N":
                cands.append(["N"] + parts[i][1:])
            if parts[i][2] != "NNNNN":
                cands.append(parts[i][:2] + ["NNNNN"] + parts[i][3:])
                for j in range(5):
                    if parts[i][2][j] != "N":
                        cands.append(parts[i][:2] + [parts[i][2][:j] + "N" + parts[i][2][j + 1:]] + parts[i][3:])
            for cnd in cands:
                q = parts[:i] + [cnd] + parts[i + 1:]
                yield mk([str(n)] + [x for p in q for x in p])
    elif op == "seq":
        n, toks, ents, i = int(a[0]), a[1:], [], 0
        for _ in range(n):
            w = _ENTRY_WIDTH[toks[i]]
            ents.append(toks[i:i + w])
            i += w
        for i in range(n):
            rest = []
            for j, e in enumerate(ents):
                if j == i:
                    continue
                if e[0] == "R":
                    k = int(e[1])
                    if k == i:
                        continue
                    e = ["R", str(k - 1 if k > i else k), e[2]]
                rest.append(e)
            if rest:
                yield mk([str(len(rest))] + [t for e in rest for t in e])
        for i, e in enumerate(ents):
            if e[-1] != "-":
                q = ents[:i] + [e[:-1] + ["-"]] + ents[i + 1:]
                yield mk([str(n)] + [t for x in q for t in x])
    elif op in ("hist", "ops"):
        k = int(a[0])
        head, prog = a[:1 + 4 * k], a[1 + 4 * k:]
        if op == "hist":
            for i in range(len(prog)):
                yield mk(head + prog[:i] + prog[i + 1:])
            for i, t in enumerate(prog):
                f = t.split(":")
                if f[0] in ("a", "p") and f[-1] != "-":
                    for sh in _shorter(f[-1]):
                        yield mk(head + prog[:i] + [":".join(f[:-1] + [sh])] + prog[i + 1:])
        else:
            # sub-programs that leave exactly one CHText/chunk value
            depth = []
            for i, t in enumerate(prog):
                f = t.split(":")
                if f[0] in ("s", "c"):
                    depth.append(1)
                elif f[0] in ("ls", "tp", "mk"):
                    depth.append(1 - int(f[1]))
                elif f[0] in ("add", "iadd"):
                    depth.append(-1)
                elif f[0] == "join":
                    depth.append(-int(f[2]))
                else:
                    depth.append(0)
            for i in range(len(prog)):
                for j in range(i + 1, len(prog)):
                    tot, ok = 0, True
                    for d in depth[i:j]:
                        tot += d
                        if tot < 1:
                            ok = False
                            break
                    if ok and tot == 1 and not prog[j - 1].startswith(("s:", "ls:", "tp:")):
                        yield mk(head + prog[i:j])
        for i in range(k):
            sp = head[1 + 4 * i: 5 + 4 * i]
            if sp[2] != "NNNNN":
                yield mk(head[:1 + 4 * i] + sp[:2] + ["NNNNN", sp[3]] + head[5 + 4 * i:] + prog)
    elif op == "first":
        for t in _shorter(a[1]):
            yield mk([a[0], t])
    elif op == "route":
        if a[1] != "N":
            yield mk([a[0], "N"] + a[2:])
        if a[2] != "NNNNN":
            yield mk(a[:2] + ["NNNNN"] + a[3:])
        for t in _shorter(a[5]):
            yield mk(a[:5] + [t])
    elif op in ("strip", "term", "pfmt"):
        for t in _shorter(a[0]):
            yield mk([t])


def nontrivial(case, replies):
    op, *a = case["lines"][0].split()
    a = split_data(a)[0]
    if op in ("fmt", "bytes"):
        return a[:3] != ["N", "N", "NNNNN"]
    if op in ("cht", "make"):
        return int(a[0]) >= 2
    if op == "lst":
        return int(a[3]) >= 1 and a[1] != "id"
    if op in ("first", "route"):
        return True
    if op == "pfmt":
        return a[0] != "-"
    if op == "seq":
        return int(a[0]) >= 2
    if op == "hist":
        return a.count("r") >= 2
    if op == "ops":
        return True
    return "27" in a[0].split(",")


def tags(case, replies):
    yield case.get("meta", {}).get("kind", "?")
    r = replies[0].split()
    yield "reply:" + r[0] + (":" + r[1] if r[0] == "err" and len(r) > 1 else "")
    op, *a = case["lines"][0].split()
    a = split_data(a)[0]
    if op == "seq" and len(r) > 1:
        for kind in sorted(set(x.split(":")[0] for x in r[1].split("|"))):
            yield "seq-answer:" + {"s": "str", "b": "bytes", "e": "error", "none": "no-object"}.get(kind, kind)
    elif op == "ops":
        k = int(a[0])
        for t in sorted(set(x.split(":")[0] for x in a[1 + 4 * k:])):
            yield "ops-token:" + t
    elif op == "hist":
        k = int(a[0])
        for t in sorted(set(x.split(":")[0] for x in a[1 + 4 * k:])):
            yield "hist-op:" + t
    elif op == "lst":
        yield "lst-src:" + a[0]
        yield "lst-sink:" + a[2]
        n = int(a[3])
        parts = [a[4 + 5 * i: 9 + 5 * i] for i in range(n)]
        total, lens = sum(len(dec_str(p[4])) for p in parts), helper_lens(a[1])
        for ln in lens:
            yield "lst-step:" + ("pad" if ln > total else "equal" if ln == total else "trunc")
            total = ln
        last = [p for p in parts if p[4] != "-"][-1:] or parts[-1:]
        if last:
            yield "lst-last-chunk:" + ("plain" if last[0][0] == "P" or flag_on(last[0][3]) or (last[0][:2] == ["N", "N"] and not any(flag_on(c) for c in last[0][2]))
                                       else "coloured")


LEVEL_TEXT = ("Proved in Lean for all colour values of every type (None, str, int kinds, float, tuples and lists of any length "
              "with int / float / other members, objects of any other type), all effect settings and all escape-free "
              "texts, on a model of _ColorSequences.make / _make_seq_element / CHText construction, str() and strip_colors "
              "whose constants (colour table, effect codes, sequence literals, strip pattern class) are regenerated from "
              "ak/color.py on every run: a terminal (SGR interpreter written from ECMA-48/T.416) starting in default state "
              "shows every character of every chunk with exactly the requested fg/bg/effects and is in default state after "
              "every chunk and at the end - for the constructor's part list (with merging), for any arrangement of "
              "formatter-made chunks, for EVERY value of the CHText model of C08 (hence the result of any tree of CHText "
              "operations) and at every observation of any mutation history of one object; strip(render) = plain text "
              "(also embedded in other text); no_color and plain formatters emit nothing; the bytes formatter emits the "
              "same ASCII sequences; mkSeq succeeds exactly on {8 names, 0-255, int (r,g,b) in [0,5]^3 -> 16+36r+6g+b, "
              "g<digits> <= 23 -> 232+N} (a list is a tuple) and raises ValueError - no other exception - for every other value of "
              "any type; a chunk list that passes through CHText.resize_chunks_list any number of times (from the formatters "
              "or from an object's chunks; printed through CHText.make / CHText(*res) / chunk by chunk) shows the requested "
              "cells cut to the new length or followed by blanks in DEFAULT state (C09.resize_shows, resize_modes); effect flags and no_color act through Python's truth "
              "value only (any kind of value; text and bytes formatters agree), wherever the call stands in a sequence of calls "
              "(the model of a process carries nothing but the formatter objects from call to call); the id-for-prefix "
              "abstraction of the CHText model is proved sound for the palettes the driver accepts. Judged path (verdict): "
              "mkSeq/mkChunk/mkSeqBytes/runCalls/strip and, for cht/make/lst/hist/ops, renderGiven of the real object's own "
              "chunk list (C09.given_shows, linked to value_shows by given_of_value); diagnostic path only: buildChunks / "
              "histRun / CHText.eval / resizeChunks + sinks (text_shows, strip_render, hist_shows, abstraction_sound, resize_shows; "
              "that the padding of the list helper is shown in default state is in the verdict through the oracle, which "
              "judges every lst line against the requested cells). model = code by "
              "differential run (exhaustive over names x names, 256 ints, 216 triples, g0-g30, 3^5 effect settings, "
              "int/float pairs, small histories; random texts, part lists, call sequences, histories, operation trees, "
              "strings with ESC fragments).")
LEVEL_NOTE = ("Kernel-checked: all 34 pinned theorems. JUDGED path of the driver (what the verdict compares): fmt/bytes/pfmt/seq/first lines run mkSeq/mkChunk/mkSeqBytes/runCalls, route lines routeStr with the real pads as data (route_shows, chunk_shows, chunk_resets, strip_chunk, bytes_same, valid_ok, invalid_raises, flags_by_truthiness, calls_stateless ...); cht/make/lst/hist/ops lines run renderGiven/givenChunks/Given.ok on the real object's own chunk list (given_shows; given_of_value ties it to value_shows); strip lines run strip (strip_plain, strip_text). DIAGNOSTIC path only (chtm/makem/lstm/histm/opsm twins, never in the verdict; makem: mergeChunks - make_shows; lstm: srcChunks/resizeAll/sinkChunks of Model/SgrResize.lean - resize_shows says the padding is default-state blanks and a cut chunk keeps its attributes; on the real code that clause is judged by the oracle of the lst line, not by the twin): buildChunks, renderText after histRun / CHText.eval - text_shows, strip_render, hist_shows, abstraction_sound are theorems about that model of what the operations produce (C08's subject), value_shows about every value. Rest on the tie only: that the code has no state between calls / "
              "renderings (the model has none by construction - C09.calls_stateless, C09.hist_shows say what that means; "
              "the seq and hist streams and the oracle's per-call judgement test it); what CHText operations produce is not "
              "judged here (C08): the rendering of the real object's own chunk list is (diagnostic twins compare the "
              "operations against Model/CHText.lean); Python's re, str.encode, int(). Trusted: Lean kernel, "
              "translator/adapter/oracle in harness/c09.py, and that real terminals implement SGR as Sgr.run (colon form "
              "38:5:n). Out of domain by decision (restriction of the check, no claim about the code): "
              "'g+5'-style strings accepted by int(), nan/inf, object-lifetime effects (address reuse) across test cases.")
TECHNIQUE = ("Lean 4 theorems (terminal state machine, induction over chunks; finite table facts decided by the kernel "
             "and lifted) + translator for tables/literals/regex class + exhaustive correspondence + independent Python "
             "terminal as oracle")
