"""Shared helpers of the git-history checks C06 and C07 (ak/ghist.py).

* translator: constants of ak/ghist.py -> lean/AkVerif/Gen/Ghist.lean
* synthetic histories <-> protocol text, and the same histories fed to the real code through tests/mock_git.py
* ancestor sets (the specification side of both oracles)

A repository history is a dict
    {"commits": [{"p": [parent ids], "t": [[major, minor, patch, build], ...], "m": 0|1, "ts": seconds,
                  "pins": {comp: [M, m, p]}}, ...],
     "refs": [[name, head id], ...]}
"ts" is the commit time in seconds after BASE_TS (absent: 10 s apart, in id order); times need not grow along the history.
commit ids are positions in "commits" (parents have smaller ids); ref names are the names under the remote
("master", "release/1.10", "feature/x").  The real code sees commit id+1 as `intid` (0 = "no parent" in mock_git).
"""
import ast
import json
import re
import logging
import os

from harness.core import enc_str, dec_str

REMOTE = "origin"


# ------------------------------------------------------------------ translator

def _find(tree, kind, name):
    for node in ast.walk(tree):
        if isinstance(node, kind) and getattr(node, "name", None) == name:
            return node
    raise ValueError("%s not found in ak/ghist.py" % name)


def _lean_str(s):
    if not isinstance(s, str) or not all(32 <= ord(c) < 127 and c not in '"\\' for c in s):
        raise ValueError("constant %r is not a plain ASCII string" % (s,))
    return '"%s"' % s


def constants(repo):
    src = open(os.path.join(repo, "ak", "ghist.py")).read()
    tree = ast.parse(src)
    out = {}
    # BranchName._mk_sort_items: the chain  str_val.replace(a, ' ').replace(b, ' ')...
    f = _find(_find(tree, ast.ClassDef, "BranchName"), ast.FunctionDef, "_mk_sort_items")
    seps = []
    for node in ast.walk(f):
        if isinstance(node, ast.Call) and isinstance(node.func, ast.Attribute) and node.func.attr == "replace":
            a, b = [ast.literal_eval(x) for x in node.args]
            if b != " " or len(a) != 1:
                raise ValueError("unexpected replace() in _mk_sort_items")
            seps.append(a)
    if not seps:
        raise ValueError("no separators found in _mk_sort_items")
    out["seps"] = sorted(set(seps))
    # iter_release_branches: sentinel prefix, master names, release prefix
    f = _find(_find(tree, ast.ClassDef, "ProjectRepo"), ast.FunctionDef, "iter_release_branches")
    sent, masters, rel = None, [], None
    for node in ast.walk(f):
        if isinstance(node, ast.keyword) and node.arg == "sort_prefix":
            v = ast.literal_eval(node.value)
            if not (isinstance(v, list) and len(v) == 1 and isinstance(v[0], str)):
                raise ValueError("sort_prefix is not a one-string list")
            sent = v[0]
        if isinstance(node, ast.Compare) and len(node.ops) == 1 and isinstance(node.ops[0], ast.In) \
                and isinstance(node.comparators[0], ast.Tuple):
            for e in node.comparators[0].elts:
                if not (isinstance(e, ast.JoinedStr) and len(e.values) == 2 and isinstance(e.values[1], ast.Constant)):
                    raise ValueError("unexpected master branch test")
                masters.append(e.values[1].value)
        if isinstance(node, ast.Call) and isinstance(node.func, ast.Attribute) and node.func.attr == "startswith":
            e = node.args[0]
            if not (isinstance(e, ast.JoinedStr) and len(e.values) == 2 and isinstance(e.values[1], ast.Constant)):
                raise ValueError("unexpected release branch test")
            rel = e.values[1].value
    if sent is None or not masters or rel is None:
        raise ValueError("iter_release_branches has an unexpected shape")
    out["sentinel"], out["masters"], out["release"] = sent, masters, rel
    # fake build numbers
    cls = _find(tree, ast.ClassDef, "BuildNumData")
    for key, fn in (("fakeNB", "mk_fake_not_built"), ("fakeNM", "mk_fake_not_merged")):
        f = _find(cls, ast.FunctionDef, fn)
        ret = [n for n in ast.walk(f) if isinstance(n, ast.Return)][0].value
        nums = [ast.literal_eval(a) for a in ret.args]
        if len(nums) != 3 or not all(isinstance(x, int) and x >= 0 for x in nums):
            raise ValueError("unexpected %s" % fn)
        out[key] = nums + [nums[2]]          # build defaults to patch
    # _brcommits_counter start
    f = _find(_find(tree, ast.ClassDef, "RGraph"), ast.FunctionDef, "__init__")
    start = None
    for node in ast.walk(f):
        if isinstance(node, ast.Assign) and isinstance(node.targets[0], ast.Attribute) \
                and node.targets[0].attr == "_brcommits_counter":
            start = ast.literal_eval(node.value)
    if not isinstance(start, int):
        raise ValueError("_brcommits_counter start not found")
    out["fakeStart"] = start
    # cut-off periods (module level): plain integer expressions like `86400 * 30`
    for key, name in (("obsoleteCutoff", "_OBSOLETE_BRANCH_CUTOFF_PERIOD"),
                      ("componentsCutoff", "_CHECK_COMPONENTS_CUTOFF_PERIOD")):
        val = None
        for node in tree.body:
            if isinstance(node, ast.Assign) and len(node.targets) == 1 \
                    and isinstance(node.targets[0], ast.Name) and node.targets[0].id == name:
                val = _int_expr(node.value)
        if not isinstance(val, int) or val < 0:
            raise ValueError("%s not found in ak/ghist.py" % name)
        out[key] = val
    # the two tag regexes of ProjectRepo:  <pre>(?P<build>\d+)<sep>(?P<branch>.*)<suf>$  and
    #                                      <pre>(?P<major>\d+)<sep>(?P<minor>\d+)$
    pr = _find(tree, ast.ClassDef, "ProjectRepo")
    pats = {}
    for node in pr.body:
        if isinstance(node, ast.Assign) and len(node.targets) == 1 and isinstance(node.targets[0], ast.Name) \
                and node.targets[0].id in ("_RE_BUILD_TAG", "_RE_BRANCH_IN_TAG_SUBSTR"):
            call = node.value
            if not (isinstance(call, ast.Call) and isinstance(call.func, ast.Attribute) and call.func.attr == "compile"
                    and len(call.args) == 1 and not call.keywords):
                raise ValueError("unexpected definition of %s" % node.targets[0].id)
            pats[node.targets[0].id] = ast.literal_eval(call.args[0])
    lit = r"[A-Za-z_]*"
    m = re.fullmatch(r"(%s)\(\?P<build>\\d\+\)(%s)\(\?P<branch>\.\*\)(%s)\$" % (lit, lit, lit), pats.get("_RE_BUILD_TAG", ""))
    if not m or not m.group(2) or m.group(2)[0].isdigit():
        raise ValueError("_RE_BUILD_TAG has an unexpected shape: %r" % pats.get("_RE_BUILD_TAG"))
    out["tagPre"], out["tagSep"], out["tagSuf"] = m.groups()
    m = re.fullmatch(r"(%s)\(\?P<major>\\d\+\)(%s)\(\?P<minor>\\d\+\)\$" % (lit, lit), pats.get("_RE_BRANCH_IN_TAG_SUBSTR", ""))
    if not m or not m.group(2) or m.group(2)[0].isdigit():
        raise ValueError("_RE_BRANCH_IN_TAG_SUBSTR has an unexpected shape: %r" % pats.get("_RE_BRANCH_IN_TAG_SUBSTR"))
    out["brPre"], out["brSep"] = m.groups()
    # both are applied with .match (anchored at the start)
    for fn, rex in (("_parse_default_buildtag", "_RE_BUILD_TAG"), ("guess_major_minor_build_by_tag_substr", "_RE_BRANCH_IN_TAG_SUBSTR")):
        f = _find(pr, ast.FunctionDef, fn)
        uses = [n for n in ast.walk(f) if isinstance(n, ast.Call) and isinstance(n.func, ast.Attribute)
                and isinstance(n.func.value, ast.Attribute) and n.func.value.attr == rex]
        if len(uses) != 1 or uses[0].func.attr != "match":
            raise ValueError("%s does not apply %s with .match" % (fn, rex))
    return out


def _int_expr(node):
    """value of an integer expression built from literals, * and +"""
    if isinstance(node, ast.Constant) and isinstance(node.value, int) and not isinstance(node.value, bool):
        return node.value
    if isinstance(node, ast.BinOp) and isinstance(node.op, (ast.Mult, ast.Add)):
        a, b = _int_expr(node.left), _int_expr(node.right)
        if a is None or b is None:
            return None
        return a * b if isinstance(node.op, ast.Mult) else a + b
    return None


def translate(repo):
    c = constants(repo)
    body = ("-- GENERATED by harness/ghist_common.py:translate from /repo/ak/ghist.py -- do not edit\n"
            "namespace Gen.Ghist\n"
            "/-- characters replaced by a blank in `BranchName._mk_sort_items` -/\n"
            "def seps : List Char := [%s]\n"
            "/-- `sort_prefix` of the master branch -/\n"
            "def sentinel : List Char := %s.toList\n"
            "/-- ref name suffixes treated as the master branch -/\n"
            "def masters : List (List Char) := [%s]\n"
            "/-- ref name part that marks a release branch -/\n"
            "def release : List Char := %s.toList\n"
            "def fakeNB : Nat × Nat × Nat × Nat := (%d, %d, %d, %d)\n"
            "def fakeNM : Nat × Nat × Nat × Nat := (%d, %d, %d, %d)\n"
            "/-- first id of a pseudo build (`_brcommits_counter`) -/\n"
            "def fakeStart : Nat := %d\n"
            "/-- `_OBSOLETE_BRANCH_CUTOFF_PERIOD` (seconds) -/\n"
            "def obsoleteCutoff : Nat := %d\n"
            "/-- `_CHECK_COMPONENTS_CUTOFF_PERIOD` (seconds) -/\n"
            "def componentsCutoff : Nat := %d\n"
            "/-- `_RE_BUILD_TAG` = tagPre (\\d+) tagSep (.*) tagSuf $ -/\n"
            "def tagPre : List Char := %s.toList\n"
            "def tagSep : List Char := %s.toList\n"
            "def tagSuf : List Char := %s.toList\n"
            "/-- `_RE_BRANCH_IN_TAG_SUBSTR` = brPre (\\d+) brSep (\\d+) $ -/\n"
            "def brPre : List Char := %s.toList\n"
            "def brSep : List Char := %s.toList\n"
            "end Gen.Ghist\n") % (
        ", ".join("'%s'" % s for s in c["seps"]), _lean_str(c["sentinel"]),
        ", ".join(_lean_str(m) + ".toList" for m in c["masters"]), _lean_str(c["release"]),
        *c["fakeNB"], *c["fakeNM"], c["fakeStart"], c["obsoleteCutoff"], c["componentsCutoff"],
        _lean_str(c["tagPre"]), _lean_str(c["tagSep"]), _lean_str(c["tagSuf"]), _lean_str(c["brPre"]), _lean_str(c["brSep"]))
    return {"AkVerif/Gen/Ghist.lean": body}


# ------------------------------------------------------------------ protocol text

def commit_tag_names(c):
    """names of the git tags of a commit: its build tags ("t", rendered the way the build server names them) and the
    other tags it carries ("xt": names that are no successful-build tags); a commit decoded from a protocol line keeps
    the names of the line ("names"), so that the real code sees exactly the spelling the model saw"""
    if c.get("names") is not None:
        return list(c["names"])
    return [tag_name(bn) for bn in c.get("t", [])] + list(c.get("xt", []))


def saved_version(c):
    """major.minor of the VERSION file of the commit: present when a build tag does not name its release line"""
    ver = [bn for bn in c.get("t", []) if isinstance(bn[0], int) and bn[0] >= MASTER_STYLE_FROM]
    if ver:
        return (ver[0][0], ver[0][1])
    return tuple(c["sv"]) if c.get("sv") else None


NOISE_TAGS = ["v1.%d", "build_%d_release_1_1_failed", "build_%d_success", "xbuild_%d_release_1_1_success",
              "build_x%d_release_1_1_success", "build_%d_release_1_1_success_", "Build_%d_release_1_1_success",
              "build_%drelease_1_1_success", "build__release_1_%d_success", "release_1_%d"]        # no build tags
TRAP_BUILD_TAGS = ["build_00%d_release_1_1_success", "build_%d_release_01_0010_success"]             # build tags
TRAP_UNKNOWN_TAGS = ["build_%d_nightly_success", "build_%d_master_success", "build_%d_main_success",
                     "build_%d_release_x_success"]          # build tags on a commit without a version file: ?.?.n
TRAP_SAVED_TAGS = ["build_%d_release_1_2_3_success", "build_%d_prerelease_1_2_success", "build_%d__success",
                   "build_%d_release_1_success", "build_%d_release_1_x_success"]   # build tags that need the VERSION file


def add_noise_tags(rng, h, p=0.35, traps=True):
    """other tags on some commits: names that are not successful-build tags, and build tags in unusual spellings"""
    for i, c in enumerate(h["commits"]):
        if rng.random() >= p:
            continue
        t = rng.choice(NOISE_TAGS)
        xt = [t % (i + 1) if "%d" in t else t]
        if traps and rng.random() < 0.3:
            xt.append(rng.choice(TRAP_BUILD_TAGS) % (200 + i))
        if traps and saved_version(c) is None and rng.random() < 0.3:
            # job names that do not name a release line, no version file: the version is unknown ('?'); often next to
            # a release-style tag of the same commit, sometimes two of them
            xt.append(rng.choice(TRAP_UNKNOWN_TAGS) % (400 + i))
            if rng.random() < 0.3:
                xt.append(rng.choice(TRAP_UNKNOWN_TAGS[:2]) % (500 + i))
        elif traps and rng.random() < 0.4:
            if saved_version(c) is None:
                c["sv"] = rng.choice([[1, 1], [2, 0], [77, 3]])      # a version file without a master-style tag
            xt.append(rng.choice(TRAP_SAVED_TAGS) % (300 + i))
        c["xt"] = xt
    if traps:
        add_equal_numbers(rng, h)
    return h


def add_equal_numbers(rng, h, p=0.5):
    """a second tag that completes to a build number another commit already has: the same counter under a renamed job
    (`build_7_master_success` / `build_7_main_success`, same VERSION) or written with leading zeros"""
    if rng.random() >= p:
        return
    cs = h["commits"]
    src = [(i, bn) for i, c in enumerate(cs) for bn in c.get("t", []) if isinstance(bn[0], int)]
    for _ in range(rng.randint(1, 2)):
        if not src or len(cs) < 2:
            return
        i, bn = rng.choice(src)
        j = rng.choice([k for k in range(len(cs)) if k != i])
        d = cs[j]
        if bn[0] >= MASTER_STYLE_FROM:
            sv = saved_version(d)
            if sv is not None and tuple(sv) != tuple(bn[:2]):
                continue
            if sv is None:
                d["sv"] = list(bn[:2])
            name = "build_%d_main_success" % bn[2]
        else:
            name = "build_%s%d_release_%d_%d_success" % ("0" * rng.randint(1, 2), bn[2], bn[0], bn[1])
        if any(name in c2.get("xt", []) for c2 in cs):
            continue
        d.setdefault("xt", []).append(name)


def commit_message(c, i, text):
    """the commit message: "msg" when the history carries messages, else one made from the match flag"""
    if c.get("msg") is not None:
        return c["msg"]
    return ("fix %s in c%d" % (text, i)) if c["m"] else ("other c%d" % i)


def enc_commit(c, i=None, text=None):
    """`text` given: the protocol carries the commit message (C06: the model decides what matches); else the flag"""
    p = ",".join(str(x) for x in c["p"]) if c["p"] else "-"
    t = "+".join(enc_str(n) for n in commit_tag_names(c)) or "-"
    sv = saved_version(c)
    svs = "%d.%d.%d" % tuple(c["sv3"]) if c.get("sv3") else ("%d.%d" % sv if sv else "-")
    m = enc_str(commit_message(c, i, text)) if text is not None else "%d" % (1 if c["m"] else 0)
    return "%s:%s:%s:%d:%s" % (p, t, m, commit_ts(c, i), svs)


_TAG_BUILD = re.compile(r"build_(\d+)_(.*)_success$")
_TAG_BRANCH = re.compile(r"release_(\d+)_(\d+)$")


def dec_tags(t, sv):
    """tag names of the protocol -> (build numbers, other tag names): the harness' own reading of the naming scheme
    `build_<n>_<branch>_success`, branch = `release_<major>_<minor>` or anything else (then major.minor come from the
    VERSION file)"""
    bns, other = [], []
    for tok in ([] if t == "-" else t.split("+")):
        name = dec_str(tok)
        m = _TAG_BUILD.match(name)
        if not m:
            other.append(name)
            continue
        n = int(m.group(1))
        m2 = _TAG_BRANCH.match(m.group(2))
        if m2:
            bns.append([int(m2.group(1)), int(m2.group(2)), n, n])
        elif sv != "-":
            M, mi = [int(x) for x in sv.split(".")]
            bns.append([M, mi, n, n])
        else:
            bns.append(["?", "?", n, n])        # no version file: major.minor unknown
    return bns, other


def commit_ts(c, i):
    """commit time of a commit, seconds after BASE_TS ("ts"; histories without times are 10 s apart)"""
    ts = c.get("ts")
    if ts is None:
        if i is None:
            raise ValueError("commit without a time")
        return i * 10
    return ts


def with_times(h):
    """the history with explicit commit times"""
    for i, c in enumerate(h["commits"]):
        if c.get("ts") is None:
            c["ts"] = i * 10
    return h


def enc_hist(h, default_text="BUG-7"):
    """remote, search text, commits (with their messages), refs"""
    text = h.get("text", default_text)
    commits = ";".join(enc_commit(c, i, text) for i, c in enumerate(h["commits"])) or "-"
    refs = ";".join("%s:%d" % (enc_str(REMOTE + "/" + n), hd) for n, hd in ref_order(h["refs"])) or "-"
    return "%s %s %s %s" % (enc_str(REMOTE), enc_str(text), commits, refs)


def ref_order(refs):
    """the order in which the remote lists its refs (mock_git, GitPython: sorted by name)"""
    return sorted(refs, key=lambda r: REMOTE + "/" + r[0])


def dec_hist(remote, text, commits, refs):
    """the history of a `rep` line; the match flags "m" are the harness' own reading of the documented predicate
    ("string to find in commit messages": the text occurs in the message, as it is)"""
    assert dec_str(remote) == REMOTE
    text = dec_str(text)
    cs = []
    if commits != "-":
        for tok in commits.split(";"):
            p, t, m, ts, sv = tok.split(":")[:5]
            bns, other = dec_tags(t, sv)
            msg = dec_str(m)
            c = {"p": [] if p == "-" else [int(x) for x in p.split(",")], "t": bns, "msg": msg,
                 "m": 1 if msg.find(text) >= 0 else 0, "ts": int(ts)}
            if other:
                c["xt"] = other
            c["names"] = [] if t == "-" else [dec_str(tok2) for tok2 in t.split("+")]
            if sv != "-":
                c["sv"] = [int(x) for x in sv.split(".")]
            cs.append(c)
    rs = []
    if refs != "-":
        for tok in refs.split(";"):
            n, hd = tok.split(":")
            name = dec_str(n)
            assert name.startswith(REMOTE + "/")
            rs.append([name[len(REMOTE) + 1:], int(hd)])
    return {"commits": cs, "refs": rs, "text": text}


# ------------------------------------------------------------------ the real code on a synthetic history

BASE_TS = 1_700_000_000
DAY = 86400
MASTER_STYLE_FROM = 50      # build numbers with major >= 50 are rendered as `build_N_master_success` + VERSION file


def tag_name(bn):
    M, m, p, b = bn
    if M >= MASTER_STYLE_FROM:
        return "build_%d_master_success" % b
    return "build_%d_release_%d_%d_success" % (b, M, m)


def mock_lines(h, text, pins_file=None):
    """description lines for tests.mock_git.MockedGitRepo"""
    byhead = {}
    for n, hd in h["refs"]:
        byhead.setdefault(hd, []).append(n)
    lines = []
    for i in range(len(h["commits"]) - 1, -1, -1):
        c = h["commits"][i]
        for n in byhead.get(i, []):
            lines.append("branch: %s/%s" % (REMOTE, n))
        ps = ",".join(str(p + 1) for p in c["p"]) if c["p"] else "0"
        l = "%d<-%s|c%d" % (i + 1, ps, i)         # the real message is set by mock_repo (mock_git strips the field)
        tags = commit_tag_names(c)
        if tags:
            l += "|tags: " + ", ".join(tags)
        ver = saved_version(c)
        if c.get("sv3"):
            l += "|file:VERSION:%d.%d.%d" % tuple(c["sv3"])     # the build number is kept in the file (saved-number mode)
        elif ver:
            l += "|file:VERSION:%d.%d" % ver
        if pins_file is not None and c.get("pins"):
            for k, v in sorted(c["pins"].items()):      # one version file per component: DEP_<name>
                l += "|file:%s%s:%s" % (pins_file, k, json.dumps({k: "%d.%d.%d" % tuple(v)}))
        lines.append(l)
    return lines


_CLASSES = {}


def repo_classes():
    """ProjectRepo subclasses like the ones of the repository's own tests (built lazily: imports the real code)"""
    if _CLASSES:
        return _CLASSES
    logging.disable(logging.CRITICAL)
    from ak.ghist import ProjectRepo, BuildNumData
    from tests.mock_git import MockedGitRepo

    class StdTestRepo(ProjectRepo):
        _SAVED_BUILD_NUM_SOURCES = ["VERSION", ]

        def _read_saved_build_num_from_file(self, blob, path):
            nums = [int(c) for c in blob.data_stream.read().decode().strip().split('.')]
            if len(nums) == 2:
                nums.append(None)
            return BuildNumData(*nums)

        def read_components_from_file(self, v_file_path, blob):
            d = json.load(blob.data_stream)
            return {c: [int(n) for n in v.split('.')] for c, v in d.items()}

    class Mock(MockedGitRepo):
        def _mk_commit(self, d, prev):
            c = super()._mk_commit(d, prev)
            c.parents = [p for p in c.parents if p != 0]
            return c

        # about half of the refs are "loose" (GitRepo.iter_refs yields None for them, the caller has to ask
        # get_ref_commit): which ones is a function of the name
        def iter_refs(self, *prefixes):
            import zlib
            for ref_name, hexsha in super().iter_refs(*prefixes):
                yield ref_name, (None if zlib.crc32(ref_name.encode()) % 2 == 0 else hexsha)

        def get_ref_commit(self, ref_name):
            return self.refs[ref_name].head_commit

    _CLASSES.update(StdTestRepo=StdTestRepo, Mock=Mock)
    return _CLASSES


def mock_repo(h, name, text, pins_file=None):
    k = repo_classes()
    repo = k["Mock"](*mock_lines(h, text, pins_file), name=name)
    for c in repo.all_commits.values():          # the times and messages of the history
        c.committed_date = BASE_TS + commit_ts(h["commits"][c.intid - 1], c.intid - 1)
        c.message = commit_message(h["commits"][c.intid - 1], c.intid - 1, text)
    return repo


class RealCodeTimeout(Exception):
    pass


_WATCHDOG = {"hits": 0, "spent": 0.0}
WATCHDOG_FULL_HITS = 2        # that many hits wait the full time, later ones 0.2 s (the code is known to hang by then)
WATCHDOG_BUDGET = 15.0        # seconds a process may lose in watchdog hits; afterwards the real code is not run any more


def with_timeout(seconds, fn, *a):
    """runs the real code under a watchdog: a change that makes it loop must show up as an answer, not as a hang.
    One hit is enough evidence, so the time lost is bounded per process: a check of a hanging tree ends in minutes.
    The watchdog counts the CPU time of the process (the real code computes, it does not wait), so a loaded machine
    does not produce false hits; a hit counts even when the code under test swallows the exception."""
    import signal
    w = _WATCHDOG
    if w["spent"] >= WATCHDOG_BUDGET:
        raise RealCodeTimeout("not run: the real code hit the watchdog %d times before" % w["hits"])
    limit = seconds if w["hits"] < WATCHDOG_FULL_HITS else min(seconds, 0.2)
    fired = []

    def on_alarm(signum, frame):
        if not fired:
            w["hits"] += 1
            w["spent"] += limit
        fired.append(1)
        raise RealCodeTimeout("real code still running after %ss of CPU time" % limit)
    try:
        old = signal.signal(signal.SIGVTALRM, on_alarm)
    except ValueError:              # not in the main thread: no watchdog
        return fn(*a)
    signal.setitimer(signal.ITIMER_VIRTUAL, limit)
    try:
        res = fn(*a)
    finally:
        signal.setitimer(signal.ITIMER_VIRTUAL, 0)
        signal.signal(signal.SIGVTALRM, old)
    if fired:
        raise RealCodeTimeout("real code still running after %ss of CPU time (the exception was swallowed)" % limit)
    return res


# ------------------------------------------------------------------ specification side

def anc(h, c):
    seen, st = set(), [c]
    while st:
        x = st.pop()
        if x not in seen:
            seen.add(x)
            st.extend(h["commits"][x]["p"])
    return seen


def show_bn(t):
    return ".".join(str(x) for x in t)
