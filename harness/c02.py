"""C02 — conflict-free (LL(1)) grammars are parsed exactly (ak/llparser.py)."""
from harness import ll_common as ll

PROPERTY = "C02"
STATEFUL = True
READY = True
THEOREMS = ["C02.sets_closed", "C02.sets_exact", "C02.fuel_enough", "C02.det_complete", "C02.fact_lang_eq", "C02.exact", "C02.reject_raises", "C02.exact_templates", "C02.smart_indep",
            "C02.conflict_report_exact", "C02.user_sets_total", "C02.ll1_as_written_unambiguous", "C02.ll1_as_written_nonvacuous",
            "C02.table_deterministic", "C02.unique_derivation", "C02.parse_unique",
            "C02.sets_exact_templates", "C02.conflict_report_exact_templates", "C02.ll1_as_written_unambiguous_templates",
            "C02.parse_unique_templates", "C02.smart_indep_templates"]
RULE = ("one case = one generated grammar (generators and dimensions as C01 - observer methods between parses, keyword arguments of parse, templates, argument kinds, several parser objects, "
        "str / list-of-lines input - with more LL(1)-ish grammars, groups of 3-9 alternatives behind one leading symbol (suffix symbols with more "
        "than 5 productions survive the smart undo), a well-formed non-left-recursive grammar must be accepted with both "
        "settings, incl. a nullable non-terminal twice in an all-non-terminal production (W B W, K V K V) and unit productions over a nullable symbol declared before productions "
        "starting with the same symbol; right-recursive LL(1) grammars on sentences and non-sentences of "
        "150, 500 and 2000 tokens; every 50th accepted grammar is also used by two threads at once and each call must give the "
        "sequential answer), constructed with "
        "smart_factorization True and False, each followed by every token string up to the tier's length plus "
        "sampled sentences (members) ; non-trivial = grammar accepted with is_ambiguous() False for at least one "
        "setting and at least one member and one non-member among the inputs; distinct by protocol text; round 8 dimensions: 4 token configurations whose patterns have CONTEXT assertions (`^`, look-behind, \\b; every lexeme rendered at line starts, behind blanks and glued to its neighbour; str and list-of-lines input), ProdSequence templates with an AnyTokenExcept member at the first / a middle / the last position of the argument list (tag seqax), ListProds without delimiter with and without brackets, item nullable or not (tag nodelim), cycles of 1-3 symbols none of which has a base case - token-tailed or epsilon-only, referred to or not, start symbol inside or outside - and their non-recursive twins (generator nobase), long inputs also for containers (sequence, sequence with AnyTokenExcept, 3 list forms, map) of 150 / 990..1100 / 2000 / 5000 items, each long text parsed with do_cleanup=False AND with the default do_cleanup=True when the derivation tree is at most 250 levels deep (tag cleanup:long)")
TRUSTED = ["re (lexemes are found by the harness with the tokenizer's own pattern)"]
ASSUMPTIONS = ["hypotheses of C02.exact / reject_raises / smart_indep: as C01.parse_valid (start symbol is a key of `productions`, "
               "no lexeme named $END$)",
               "'LL(1) as written' is about grammars in which every non-terminal has at least one alternative: with a key whose "
               "alternatives list is empty, {'E':[('X','b')],'X':[('Z','a'),('Z','a','b')],'Z':[]} has pairwise disjoint (empty) predict "
               "sets for X yet is_ambiguous() is True; such keys are generated in the malformed stream only and the LL(1) clause of the "
               "oracle skips them",
               "in C02.ll1_as_written_unambiguous 'LL(1) as written' is stated with the model's own nullable/FIRST/FOLLOW functions "
               "applied to the user's productions; that these functions SUCCEED on the user's dictionary of every accepted grammar is "
               "a theorem (C02.user_sets_total), no longer a hypothesis; that they return the least sets of whatever dictionary they "
               "are applied to is proved generically (lemmas LL.nullables_least, LL.firstSets_exact, LL.followSets_exact; "
               "C02.sets_exact is their instance for the factorised dictionary); the oracle uses an independent FIRST/FOLLOW computation",
               "the *_templates theorems are about LL.constructGN nonull T (what the driver executes): the productions the templates "
               "generate (T) and the item symbols of delimiter-less lists (nonull) are data supplied by the harness; hypothesis "
               "PlainNames (no name of the shape X__Snn, decidable)",
               "all totality / exactness / 'tree or ParsingError' theorems are about the RAW parse (do_cleanup=False, what the "
               "correspondence compares). The default parse(text) additionally runs the clean-up: a recursive walk over the returned "
               "tree (the list / map tail walk is iterative since /repo 2cdb1cb, the general descent is not), so for trees nested "
               "deeper than CPython's recursion limit allows (a few hundred levels) the default call can raise RecursionError where the "
               "raw parse returns a tree; default-cleanup calls (`px c`, compared as 'a result is returned') are issued on short inputs and on the long ones "
               "- containers of 150 / 990..1100 / 2000 / 5000 items, user-written right recursion of 150 tokens - but ONLY when the "
               "derivation tree of the user's grammar (a container = one node) is at most 250 levels deep; on deeper trees a "
               "RecursionError of the default call is CPython's resource limit and is neither generated nor judged",
               "an alternative given as None is the empty alternative and AnyTokenExcept(*names) is the list of its one-token "
               "alternatives when the model sees them (protocol `!` / field AX=); the harness expands AnyTokenExcept itself: the "
               "SET of tokens is the reference's (token groups - synonym sources + synonym and keyword targets), only the order "
               "among them (iteration order of a Python set) is read from the code; the parser is built from the original "
               "None / AnyTokenExcept objects; terminal names containing `__` are not generated; the names listed in AnyTokenExcept are tokens of the parser's "
               "tokenizer (others are a GrammarError of the expansion, which the model does not see)"]


def impl(case):
    return ll.impl(case)


def _judge(ctx):
    if "check" not in ctx:
        g, spec = ctx["g"], ctx["spec"]
        ctx["check"] = ll.clean(spec) and not ll.left_rec(g)
        # a key without alternatives derives nothing; 'LL(1) as written' is about grammars whose symbols have rules
        ctx["ll1"] = ctx["check"] and all(len(v) > 0 for v in g.values()) and ll.is_ll1(g, ctx["start"])
        ctx["unamb"] = ctx["amb"] == "ok amb=0"
    return ctx


def oracle(case, replies):
    first_ok = None
    for op, line, rep, ctx in ll.walk(case, replies):
        if ctx is None:
            continue
        ctx = _judge(ctx)
        g, start, smart = ctx["g"], ctx["start"], ctx["smart"]
        if op == "g":
            if ctx["check"] and not ctx["ok"]:
                # a well-formed grammar without left recursion has a language for BOTH settings of smart_factorization
                return "valid-grammar-rejected: well-formed productions, no symbol reaches itself without a token, constructor says %r (smart=%s)" % (rep, smart)
            if ctx["ll1"] and rep != "ok amb=0":
                return "ll1-reported-ambiguous: predict sets of all alternatives are pairwise disjoint, constructor says %r (smart=%s)" % (rep, smart)
            if ctx["ok"] and first_ok is None:
                first_ok = ctx
        elif op == "amb" and ctx["check"] and ctx["ll1"] and rep != "amb=0":
            return "ll1-reported-ambiguous-after-parsing: an LL(1) grammar is reported ambiguous once texts have been parsed (%s, smart=%s)" % (rep, smart)
        elif (op in ("p", "pl") or (op == "px" and ll.p_info(line)[0] is None)) and ctx["check"] and ctx["unamb"]:
            text = ll.dec_p(line)
            toks = ll.expected_tokens(case, text, ll.p_info(line)[1])
            if text in case.get("member", {}):
                member = case["member"][text]          # long inputs: membership is known by construction
            else:
                member = ll.derives(g, start, [n for n, _ in toks])
            if rep == "accepted":                 # do_cleanup=True: only that a result is returned
                if not member:
                    return "accepts-non-sentence: %s is not in the language (do_cleanup=True, smart=%s)" % (ll._short(text), smart)
            elif rep.startswith("tree "):
                if not member:
                    return "accepts-non-sentence: %s is not in the language (smart=%s)" % (ll._short(text), smart)
                if ctx["ll1"]:
                    msg = ll.check_tree(g, start, ll.read_sexp(rep[5:]), toks, ctx["seqs"])
                    if msg:
                        return "ll1-tree: %s (input %s)" % (msg, ll._short(text))
            elif rep == "err ParsingError":
                if member:
                    return "rejects-sentence: %s is in the language, is_ambiguous() is False (smart=%s)" % (ll._short(text), smart)
            else:
                return "non-sentence-raises: %s instead of ParsingError on %s" % (rep[:60], ll._short(text))
    if case.get("meta", {}).get("threads") and first_ok is not None:
        texts = [ll.dec_p(l) for l in case["lines"] if l.split()[0] == "p"][:40:5]
        if texts:
            msg = ll.thread_check(first_ok["spec"], first_ok["smart"], texts)
            if msg:
                return "threads: " + msg
    return None


def gen_cases(rng, tier):
    diags = ("nullables", "first", "follow", "table")
    yield from ll.gen_long_cases(rng, (150, 500, 2000), big=None if tier == "quick" else 5000)
    if tier == "quick":
        for i, c in enumerate(ll.gen_ll_cases(rng, 1100, 4, sentences=30, ll1_share=0.45, diags=diags, tmpl_share=0.08)):
            if i % 50 == 0 and c["meta"].get("ref") == "ok":
                c["meta"]["threads"] = 1      # a small stream: two threads on one parser object, judged by the oracle
            yield c
        return
    else:
        yield from ll.gen_ll_cases(rng, 12000, 5, sentences=40, extra_long=10, ll1_share=0.45, diags=diags, tmpl_share=0.08)
        yield from ll.tiny_grammars(rng, limit=20000)


def corpus():
    return [ll.follow_witness_case()]


def search_cases(rng, tier):
    yield from ll.tiny_grammars(rng, limit=None if tier == "thorough" else 30000)


def nontrivial(case, replies):
    un = any(l.startswith("g ") and r == "ok amb=0" for l, r in zip(case["lines"], replies))
    return un and ll.nontrivial(case, replies)


def tags(case, replies):
    yield from ll.tags(case, replies)
    spec, _ = ll.dec_g(case["lines"][0])
    if ll.clean(spec):
        g = ll.user_grammar(spec)
        if not ll.left_rec(g):
            yield "ll1-as-written:%s" % ll.is_ll1(g, ll.start_of(spec))


shrink = ll.shrink
observable = ll.observable

LEVEL_TEXT = ("Kernel-checked on the executable model, for ALL grammars and token lists: when is_ambiguous() is False the parser "
              "accepts exactly the sentences of the user's grammar (C02.exact: soundness from C01, completeness C02.det_complete "
              "with the closure conditions read off the nullable/FIRST/FOLLOW loops and the table, C02.sets_closed (the loops never "
              "run out of fuel, C02.fuel_enough); factorisation "
              "preserves the language, C02.fact_lang_eq), identically for both smart_factorization values (C02.smart_indep); every "
              "non-sentence ends in ParsingError (C02.reject_raises); the computed FIRST/FOLLOW sets are the least sets "
              "(C02.sets_exact), the conflict report is exact (C02.conflict_report_exact). LL(1) clause: for every parser the "
              "constructor returns, the model's nullable / FIRST / FOLLOW functions succeed on the dictionary the USER wrote "
              "(C02.user_sets_total - proved, not assumed), and if with those sets the predict sets of the alternatives of every "
              "symbol of the user's productions are pairwise disjoint, is_ambiguous() is False (C02.ll1_as_written_unambiguous). "
              "Exactly three hypotheses remain: the constructor accepted the grammar; the start symbol is a key of `productions`; "
              "every key has at least one alternative (without the last one the statement is false - kernel-evaluated "
              "counterexample in Props/C02.lean, reproduced by the real parser); all are met by a concrete grammar with a nullable "
              "symbol and a unit production (C02.ll1_as_written_nonvacuous). The clause 'unique derivation tree / a single parse' "
              "is kernel-checked as: when "
              "is_ambiguous() is False every table entry holds exactly one production (C02.table_deterministic), a token list has "
              "at most one derivation tree of the USER's grammar rooted at the start symbol (C02.unique_derivation), and the tree "
              "the backtracking loop returns is that tree (C02.parse_unique). The theorems above are stated for LL.construct (plain "
              "dictionaries). For dictionaries with ProdSequence / ListProds / MapProds keys the driver executes LL.constructGN "
              "(generated productions and delimiter-less list items as data, plus the templates' verify_grammar stage) and the "
              "same clauses are proved for it w.r.t. the EXPANDED dictionary: C02.exact_templates (exactness + rejection), "
              "C02.sets_exact_templates, C02.conflict_report_exact_templates, C02.ll1_as_written_unambiguous_templates (incl. "
              "totality of the set functions), C02.parse_unique_templates (unique derivation + parse returns it), "
              "C02.smart_indep_templates; not restated for templates: sets_closed / fuel_enough / det_complete / fact_lang_eq / "
              "table_deterministic (generic in the dictionary, they apply as they are). NOT separately modelled: a predictive (non-"
              "backtracking) parser - its result would have to be a derivation tree too, hence the same tree; uniqueness for "
              "parse(text, start_symbol_name=X) is not stated. All of this is about the raw parse (do_cleanup=False); the default "
              "clean-up is a recursive tree walk outside the model, bounded by CPython's recursion limit (see ASSUMPTIONS). "
              "model = code by a differential run incl. nullables, FIRST, FOLLOW and table as diagnostics, call "
              "sequences on one parser object and is_ambiguous() before and after the parses.")
LEVEL_NOTE = ("Trusted: Lean kernel (axioms propext, Classical.choice, Quot.sound), harness adapter/oracle (memoised CFG recogniser, "
              "independent FIRST/FOLLOW), sampled correspondence.")
TECHNIQUE = "Lean 4 theorems (fixpoint exits, structural induction on derivation trees) + differential testing against the real LLParser"
