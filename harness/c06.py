"""C06 — history report attributes every matching commit to the right build per branch (ak/ghist.py)."""
import itertools
import re

from harness.core import enc_str, dec_str
from harness import ghist_common as G

PROPERTY = "C06"
READY = True
THEOREMS = [
    "C06.order_irrefl", "C06.order_asymm", "C06.order_trans", "C06.order_weak", "C06.order_total",
    "C06.order_numeric", "C06.order_num_lt_word", "C06.order_prefix",
    "C06.order_split_at_separator", "C06.order_split_skip", "C06.order_split_word", "C06.order_release_lt_master",
    "C06.order_sorted", "C06.tag_release", "C06.tag_saved_version", "C06.tag_unknown_version", "C06.tag_ignored", "C06.match_is_substring",
    "C06.packed_refs_records", "C06.stored_refs_exact", "C06.stored_tag_names",
    "C06.report_branches", "C06.no_nonmatching", "C06.only_matching", "C06.under_minimal_build",
    "C06.exactly_once", "C06.not_merged_exact", "C06.at_most_once", "C06.build_title", "C06.pseudo_title",
    "C06.report_total", "C06.report_total_single",
]
TEXT = "BUG-7"
OBSOLETE_PERIOD = 30 * G.DAY          # the window of the property statement ("30-day window")
RULE = ("random commit graphs (6-16 commits, 8% extra roots, 30% merges incl. octopus, random parent order, 30% build tags, "
        "40% matching messages), 1-5 refs with heads anywhere (coinciding heads, heads inside other branches, non-release "
        "refs, master/main, numeric-aware name traps, names whose numbers are a proper prefix of another name's: "
        "release/1.2 vs release/1.2.1, names whose numbers differ in width after each separator '/', '.', '-', '_': "
        "release/abc-9.1 vs release/abc-10.1); the search text is a dimension (40%: texts with leading/trailing/inner blanks, "
        "tab, line break, other case, regex-special characters, empty) and the commit messages embed it or near misses of it "
        "(stripped, case changed, a character less, blanks folded, after a line break) - the model and the oracle decide "
        "independently what matches; build numbers with a component 9998/9999/10000 or 8887/8888/8889 (next to the pseudo "
        "builds' numbers; the reply shows what the printed report titles a build); tags are sent as names: build tags of release lines, master-style tags + VERSION "
        "file, and on 25% of the random cases other tags (not build tags: wrong prefix/suffix/no number) and build tags in "
        "unusual spellings (leading zeros, branch parts that only look like a release line), job-style tags on commits "
        "without a version file (unknown version '?.?.n', alone, doubled, or next to a release-style tag of the same commit) "
        "and a second tag that completes to the build number of ANOTHER commit (renamed job with the same counter, "
        "zero-padded counter); commit times anywhere in 0..30 days, not tied to the graph (heads older than the "
        "builds of lower-sorted branches by more than a day in ~25% of the cases; the window's edge values; 5% outside the "
        "window: compared with the model, not judged); exhaustive graphs of <=4 commits x 2 branches in thorough. "
        "every history is reported twice by the same ReposCollection (the second answer must equal the first); 400 sequences "
        "report - refs move (heads change, a ref appears or goes) - report again on the SAME collection object, with no sync(), "
        "a sync() whose fetch raises, or a successful one: every report must be right for the repository as it is then; about "
        "half of the refs of the git stand-in are loose (iter_refs yields None, get_ref_commit is asked); the version file of "
        "master-style builds is bumped between commits. "
        "where the refs are kept is a dimension (700 `repd` cases, 12000 in thorough): the refs of the history are written into "
        "a git directory under /tmp (removed afterwards) and read by the production GitRepo.iter_refs / _iter_packed_refs / "
        "_iter_refs_files: all refs loose, all packed, tags packed and branches loose, a random split, packed-refs ending with "
        "a build tag / another tag / a branch of the remote (build tags in the first, a middle and the LAST record), "
        "lightweight and annotated tags (`^` lines, also as the last line), outdated packed records of loose refs, refs of other "
        "namespaces and remotes, with and without a comment line, blank lines, CRLF, with and without a line break after the "
        "last line, no packed-refs file at all; 4% malformed files (unknown comment line, bad `^` line, one-word line: "
        "compared with the model, not judged). "
        "non-trivial = at least one matching commit reachable from a release/master head; distinct by protocol line")
TRUSTED = ["tests/mock_git.py (synthetic git objects fed to the real ak.ghist code)",
           "the object database of the `repd` cases: GitPython is not installed, so commit(), remotes and get_ref_commit() "
           "(reads the file of the loose ref) of the GitRepo subclass are the harness'; iter_refs and what it calls are the code's",
           "order of remote.refs (sorted by name, as mock_git and GitPython list them) — decides ties of equal sort keys only",
           "re / int() on tag and branch names (ASCII names without line breaks: \\d = 0-9, int() = decimal value)",
           "the project-specific reading of the version file (tests-style `_read_saved_build_num_from_file`: major.minor)"]
ASSUMPTIONS = ["no build tag has the number of a pseudo build (9999.9999.9999, 8888.8888.8888): the report recognises the pseudo "
               "builds by their number — on the real code a tag 9999.9999.9999 is titled '- not merged -' and a tagged build "
               "8888.8888.8888 '- not built -' (NoFakeTags in pseudo_title; such tags are never generated)",
               "packed-refs is ASCII text with \\n or \\r\\n line ends (no lone \\r), as git writes it",
               "commit times inside the 30-day window (quantifier of the property; Hist.InWindow in the theorems: no commit is more than "
               "_OBSOLETE_BRANCH_CUTOFF_PERIOD younger than the head of a release/master branch). Outside it the code drops "
               "branches as obsolete; the model does the same and is compared with the code there, the oracle does not judge",
               "ASCII ref names without whitespace or '+' (int() of a chunk succeeds iff it is a run of decimal digits)",
               "build counters and version numbers below 10^18 (the model writes the '?' of an unknown major.minor as that number: "
               "like the code's '?' it sorts after every real number and equals itself)",
               "fewer than 10^9 report commits (pseudo build ids start at 1_000_000_000)"]

def refs_constants(repo):
    """the literal pieces of GitRepo._iter_packed_refs: the first character of a comment / peeled line, the words a
    comment line has to contain, the length of a peeled line"""
    import ast
    import os
    tree = ast.parse(open(os.path.join(repo, "ak", "ghist.py")).read())
    f = G._find(G._find(tree, ast.ClassDef, "GitRepo"), ast.FunctionDef, "_iter_packed_refs")
    out = {}
    for node in ast.walk(f):
        if not (isinstance(node, ast.If) and isinstance(node.test, ast.Compare) and len(node.test.ops) == 1
                and isinstance(node.test.ops[0], ast.Eq) and isinstance(node.test.left, ast.Subscript)
                and isinstance(node.test.left.value, ast.Name) and node.test.left.value.id == "line"
                and isinstance(node.test.left.slice, ast.Constant) and node.test.left.slice.value == 0):
            continue
        ch = ast.literal_eval(node.test.comparators[0])
        if not (isinstance(ch, str) and len(ch) == 1 and 32 < ord(ch) < 127 and ch not in "'\\"):
            raise ValueError("unexpected line marker %r in _iter_packed_refs" % (ch,))
        words = lens = None
        for m in ast.walk(node):
            if isinstance(m, ast.GeneratorExp) and isinstance(m.elt, ast.Compare) and isinstance(m.elt.ops[0], ast.NotIn) \
                    and isinstance(m.generators[0].iter, ast.List):
                words = [ast.literal_eval(e) for e in m.generators[0].iter.elts]
            if isinstance(m, ast.Compare) and isinstance(m.left, ast.Call) and getattr(m.left.func, "id", None) == "len" \
                    and isinstance(m.ops[0], ast.NotEq):
                lens = ast.literal_eval(m.comparators[0])
        if words is not None and lens is None and "commentChar" not in out:
            out["commentChar"], out["headerWords"] = ch, words
        elif lens is not None and words is None and "peeledChar" not in out and isinstance(lens, int):
            out["peeledChar"], out["peeledLineLen"] = ch, lens
        else:
            raise ValueError("unexpected branch on line[0] == %r in _iter_packed_refs" % ch)
    if sorted(out) != ["commentChar", "headerWords", "peeledChar", "peeledLineLen"]:
        raise ValueError("_iter_packed_refs has an unexpected shape")
    return out


def translate(repo):
    files = dict(G.translate(repo))
    c = refs_constants(repo)
    files["AkVerif/Gen/GhistRefs.lean"] = (
        "-- GENERATED by harness/c06.py:translate from /repo/ak/ghist.py (GitRepo._iter_packed_refs) -- do not edit\n"
        "namespace Gen.GhistRefs\n"
        "/-- first character of a comment line of packed-refs -/\n"
        "def commentChar : Char := '%s'\n"
        "/-- first character of the line that gives the commit of an annotated tag -/\n"
        "def peeledChar : Char := '%s'\n"
        "/-- what a comment line has to contain -/\n"
        "def headerWords : List (List Char) := [%s]\n"
        "/-- length of a peeled line (marker + hexsha) -/\n"
        "def peeledLineLen : Nat := %d\n"
        "end Gen.GhistRefs\n") % (c["commentChar"], c["peeledChar"],
                                  ", ".join(G._lean_str(w) + ".toList" for w in c["headerWords"]), c["peeledLineLen"])
    return files


# ------------------------------------------------------------------ real code
def _report_text(rg):
    out = []
    for rb in rg.branches:
        bl = []
        for b in rb.get_rbuilds_list():
            # what the printed report shows for the build (ReportFormatter._mk_buildnum_descr / _gen_rbuild_descr):
            # the title "- not merged -", "- not built -" or the number, decided from the build number
            if b.build_num.is_fake_not_merged():
                kind, bn = "M", (9999, 9999, 9999, 9999)
            elif b.build_num.is_fake_not_built():
                kind, bn = "N", (8888, 8888, 8888, 8888)
            else:
                kind, bn = "N", b.build_num.as_tuple()
            if (b.build_type == 2) != (kind == "M") or (b.rcommit is None) != (kind == "M"):
                kind = "X"          # the title disagrees with what the build is
            bc = str(b.rcommit.commit.intid - 1) if b.rcommit is not None else "-"
            cs = [str(r.commit.intid - 1) for r in b.get_printable_rcommits()]
            bl.append("%s:%s:%s:%s" % (kind, G.show_bn(bn), bc, ",".join(cs) or "-"))
        out.append("%s=%s" % (enc_str(str(rb.branch_name)), ";".join(bl)))
    return "ok " + " ".join(out)


def run_real(h):
    k = G.repo_classes()
    from ak.ghist import ReposCollection
    text = h.get("text", TEXT)
    repo = G.mock_repo(h, "r", text)
    rc = ReposCollection({"r": k["StdTestRepo"]("r", repo, G.REMOTE)})
    data = rc.make_reports_data(text)
    # the collection can be asked again: the second answer must not depend on the first call
    again = rc.make_reports_data(text)
    if _report_text(again[0][1]) != _report_text(data[0][1]):
        raise SecondCallDiffers(_report_text(again[0][1]))
    return data[0][1]


class SecondCallDiffers(Exception):
    pass


# ---- refs kept in a git directory on disk, read by the production GitRepo.iter_refs
_DISK = {}


def disk_class():
    """GitRepo whose refs live in a git directory (packed-refs file + files below refs/): iter_refs,
    _iter_packed_refs and _iter_refs_files are the production code; only the object database is the in-memory one of
    tests/mock_git (GitPython is not installed): commit(), remotes; get_ref_commit() reads the file of a loose ref"""
    if _DISK:
        return _DISK["cls"]
    import os
    from ak.ghist import GitRepo

    class DiskGit(GitRepo):
        def __init__(self, mock, git_dir):      # pylint: disable=super-init-not-called
            self.mock = mock
            self.name = mock.name
            self.git_dir = git_dir
            self.working_dir = os.path.dirname(git_dir)
            self.remotes = mock.remotes

        def commit(self, hexsha):
            return self.mock.commits_by_hexsha[hexsha]

        def get_ref_commit(self, ref_name):
            with open(os.path.join(self.git_dir, ref_name)) as f:
                return self.commit(f.read().strip())
    _DISK["cls"] = DiskGit
    return DiskGit


def write_store(git_dir, store):
    import os
    os.makedirs(os.path.join(git_dir, "refs"))
    if store["packed"] is not None:
        with open(os.path.join(git_dir, "packed-refs"), "w", newline="") as f:
            f.write(store["packed"])
    for name, sha in store["loose"]:
        path = os.path.join(git_dir, name)
        os.makedirs(os.path.dirname(path), exist_ok=True)
        with open(path, "w") as f:
            f.write(sha + "\n")


def run_real_disk(h, store):
    """the report of a repository whose refs are read from a temporary git directory (removed afterwards)"""
    import os
    import shutil
    import tempfile
    k = G.repo_classes()
    from ak.ghist import ReposCollection
    text = h.get("text", TEXT)
    mock = G.mock_repo(h, "r", text)
    for c in mock.all_commits.values():          # the commit ids of the request
        c.hexsha = store["shas"][c.intid - 1]
    mock.commits_by_hexsha = {c.hexsha: c for c in mock.all_commits.values()}
    top = tempfile.mkdtemp(prefix="c06_refs_", dir="/tmp")
    try:
        write_store(os.path.join(top, ".git"), store)
        repo = disk_class()(mock, os.path.join(top, ".git"))
        rc = ReposCollection({"r": k["StdTestRepo"]("r", repo, G.REMOTE)})
        data = rc.make_reports_data(text)
        again = rc.make_reports_data(text)
        if _report_text(again[0][1]) != _report_text(data[0][1]):
            raise SecondCallDiffers(_report_text(again[0][1]))
        return data[0][1]
    finally:
        shutil.rmtree(top, ignore_errors=True)


def enc_store(store):
    return "%s %s %s" % (";".join(store["shas"]) or "-",
                         "~" if store["packed"] is None else enc_str(store["packed"]),
                         ";".join("%s:%s" % (enc_str(n), sha) for n, sha in store["loose"]) or "-")


def dec_store(shas, packed, loose):
    return {"shas": [] if shas == "-" else shas.split(";"),
            "packed": None if packed == "~" else dec_str(packed),
            "loose": [] if loose == "-" else [[dec_str(t.split(":")[0]), t.split(":")[1]] for t in loose.split(";")]}


def line_hist(line):
    """(history, ref storage or None) of a `rep` / `repd` line"""
    op, *args = line.split()
    if op == "repd":
        return G.dec_hist(*args[:4]), dec_store(*args[4:7])
    return G.dec_hist(*args), None


def run_seq(hs, sync):
    """reports on ONE ReposCollection while the repository changes underneath (refs moved by a fetch of another process):
    before every report but the first the git stand-in gets the next history; `sync`: "none" - nothing else happens,
    "fail" - ProjectRepo.sync() is called and the fetch raises, "ok" - the fetch succeeds"""
    k = G.repo_classes()
    from ak.ghist import ReposCollection
    from tests.mock_git import _MockedGitRemote

    class Remote(_MockedGitRemote):
        def fetch(self):
            if sync == "fail":
                raise OSError("remote not reachable")
    repo = G.mock_repo(hs[0], "r", hs[0].get("text", TEXT))
    pr = k["StdTestRepo"]("r", repo, G.REMOTE)
    rc = ReposCollection({"r": pr})
    outs = []
    for j, h in enumerate(hs):
        text = h.get("text", TEXT)
        if j > 0:
            nxt = G.mock_repo(h, "r", text)
            repo.__dict__.clear()
            repo.__dict__.update(nxt.__dict__)
            if sync != "none":
                repo.remotes = {G.REMOTE: Remote(repo, G.REMOTE)}
                repo.working_dir = "/nowhere/r"
                ok = pr.sync()
                if ok != (sync == "ok"):
                    raise SecondCallDiffers("sync() returned %r" % ok)
        data = rc.make_reports_data(text)
        outs.append(_report_text(data[0][1]))
    return outs


def impl(case):
    out = []
    seq = case.get("meta", {}).get("seq")
    if seq:
        try:
            hs = [G.dec_hist(*line.split()[1:]) for line in case["lines"]]
            return G.with_timeout(2 * len(hs), run_seq, hs, seq)
        except Exception as e:
            return ["err " + type(e).__name__] * len(case["lines"])
    for line in case["lines"]:
        op = line.split()[0]
        if op not in ("rep", "repd"):
            out.append("bad-op")
            continue
        try:
            h, store = line_hist(line)
            if store is None:
                out.append(_report_text(G.with_timeout(2, run_real, h)))
            else:
                out.append(_report_text(G.with_timeout(2, run_real_disk, h, store)))
        except Exception as e:
            out.append("err " + type(e).__name__)
    return out


# ------------------------------------------------------------------ oracle: the property itself, from ancestor sets
_REL = re.compile(r"release/(\d+(?:\.\d+)*)$")


_SEPS = re.compile(r"[/._-]")


def spec_key(name):
    """sort items of the statement's "numeric-aware name": the name cut at '/', '.', '-', '_'; a piece of digits counts
    as a number.  None for names the statement does not cover (pieces mixing digits and letters, blanks, '+')"""
    key = []
    for piece in _SEPS.split(name):
        if piece == "":
            continue
        if piece.isdigit() and piece.isascii():
            key.append(int(piece))
        elif piece.isalpha() and piece.isascii():
            key.append(piece)
        else:
            return None
    return key


def spec_cmp(a, b):
    """-1 / 1, or None when the statement does not decide (a number against a word, equal items)"""
    for x, y in zip(a, b):
        if isinstance(x, int) != isinstance(y, int):
            return None
        if x != y:
            return -1 if x < y else 1
    if len(a) == len(b):
        return None
    return -1 if len(a) < len(b) else 1          # a proper prefix first


def spec_order(refs):
    """release/master refs in the order of the statement (numeric-aware, a name that is a proper prefix of another one
    first, master last), or None when the statement does not decide the order of the given names (numerically equal
    names like 1.2 / 01.2, two master refs, names mixing digits and letters in one piece, a number against a word)"""
    import functools
    rel, masters = [], []
    for n, hd in refs:
        if n in ("master", "main"):
            masters.append(("master", hd))
        elif n.startswith("release/"):
            k = spec_key(n)
            if k is None:
                return None
            rel.append((k, n, hd))
    if len(masters) > 1:
        return None
    for a, b in itertools.combinations(rel, 2):
        if spec_cmp(a[0], b[0]) is None:
            return None
    rel.sort(key=functools.cmp_to_key(lambda a, b: spec_cmp(a[0], b[0])))
    return [(n, hd) for _, n, hd in rel] + masters


def parse_report(rep):
    out = []
    for tok in rep.split()[1:]:
        n, bl = tok.split("=")
        builds = []
        for b in (bl.split(";") if bl else []):
            kind, bn, bc, cs = b.split(":")
            builds.append((kind, tuple(x if x == "?" else int(x) for x in bn.split(".")), None if bc == "-" else int(bc),
                           [] if cs == "-" else [int(x) for x in cs.split(",")]))
        out.append((dec_str(n), builds))
    return out


_HEX40 = re.compile(r"[0-9a-f]{40}$")


def store_wellformed(store):
    """the packed-refs text is what git writes: comment lines naming the format, `<hexsha> <ref name>` lines, each
    possibly followed by a `^<hexsha>` line.  Anything else is outside the property (compared with the model only)"""
    if store["packed"] is None:
        return True
    prev_ref = False
    for line in store["packed"].replace("\r\n", "\n").split("\n"):
        if line.strip() == "":
            continue
        if line.startswith("#"):
            if not (line.startswith("# pack-refs with:") and " peeled " in line + " "):
                return False
            prev_ref = False
        elif line.startswith("^"):
            if not (prev_ref and _HEX40.match(line[1:])):
                return False
            prev_ref = False
        else:
            w = line.split(" ")
            if len(w) != 2 or not _HEX40.match(w[0]) or not w[1].startswith("refs/"):
                return False
            prev_ref = True
    return True


def oracle(case, replies):
    for line, rep in zip(case["lines"], replies):
        if line.split()[0] not in ("rep", "repd"):
            continue
        h, store = line_hist(line)
        if store is not None and not store_wellformed(store):
            continue
        if not rep.startswith("ok"):
            return "crash: the report is not produced (%s)" % rep
        msg = check_report(h, parse_report(rep))
        if msg:
            return msg
    return None


def in_window(h):
    """the quantifier of the property: no commit is more than the obsolete-branch period younger than the head of a
    release/master branch (then every branch has to be reported)"""
    ts = [G.commit_ts(c, i) for i, c in enumerate(h["commits"])]
    newest = max(ts) if ts else 0
    for n, hd in h["refs"]:
        if n in ("master", "main") or n.startswith("release/"):
            if newest > ts[hd] + OBSOLETE_PERIOD:
                return False
    return True


def check_report(h, report):
    commits = h["commits"]
    match = [bool(c["m"]) for c in commits]
    tagged = [bool(c["t"]) for c in commits]
    # order-independent clauses
    for name, builds in report:
        seen = set()
        for kind, bn, bc, cs in builds:
            for c in cs:
                if not match[c]:
                    return "nonmatching: commit %d listed in %s does not contain the text" % (c, name)
                if c in seen:
                    return "twice: commit %d listed more than once in %s" % (c, name)
                seen.add(c)
    order = spec_order(h["refs"])
    if order is None or not in_window(h):
        return None
    names = [n for n, _ in report]
    if len(set(names)) != len(names):
        return "branches: a branch is reported twice (%s)" % names
    pos = {n: i for i, (n, _) in enumerate(order)}
    for n in names:
        if n not in pos:
            return "branches: %s is not a release/master branch of the repository" % n
    if [pos[n] for n in names] != sorted((pos[n] for n in names), reverse=True):
        return "order: branches are listed as %s" % names
    rep = dict(report)
    prevanc = set()
    first = True
    for name, head in order:
        A = G.anc(h, head)
        ancs = {}
        builds = {c for c in A if (tagged[c] or c == head) and c not in prevanc}
        listed, nm_listed = {}, []
        for kind, bn, bc, cs in rep.get(name, []):
            if kind == "X":
                return "title: the report titles the build at %s of %s as %s" % (
                    bc, name, "'- not merged -'" if bc is not None else "a real build although it is the pseudo build")
            if kind == "M":
                nm_listed += cs
                if bc is not None:
                    return "pseudo: the 'not merged' entry of %s has a commit" % name
                continue
            if bc not in builds:
                return "build: %s reports commit %s which is not a tagged/head commit new in this branch" % (name, bc)
            if tagged[bc]:
                if list(bn) not in commits[bc]["t"]:
                    return "buildnum: build at commit %d of %s shows %s" % (bc, name, bn)
            elif bn[:3] != (8888, 8888, 8888):
                return "buildnum: unbuilt head %d of %s is not shown as 'not built'" % (bc, name)
            for c in cs:
                listed[c] = bc
        for c in listed:
            if c not in A:
                return "unreachable: commit %d listed under a build of %s is not reachable from its head" % (c, name)
        for c in sorted(A):
            if not match[c]:
                continue
            cont = set()
            for b in builds:
                if b not in ancs:
                    ancs[b] = G.anc(h, b)
                if c in ancs[b]:
                    cont.add(b)
            if c in nm_listed:
                return "reachable-not-merged: commit %d is reachable from the head of %s but listed under 'not merged'" % (c, name)
            if cont:
                if c not in listed:
                    return "missing: commit %d is contained in build(s) %s of %s but not listed" % (c, sorted(cont), name)
                b = listed[c]
                if b not in cont:
                    return "wrong-build: commit %d is listed under build %d of %s which does not contain it" % (c, b, name)
                if any(b2 != b and b2 in ancs[b] for b2 in cont):
                    return "not-earliest: commit %d is listed under build %d of %s, an earlier build contains it" % (c, b, name)
            elif c in listed:
                return "no-build: commit %d is listed in %s although no build of the branch contains it" % (c, name)
        exp_nm = set() if first else {c for c in prevanc if match[c] and c not in A}
        if sorted(nm_listed) != sorted(exp_nm):
            return "not-merged: %s lists %s under 'not merged', expected %s" % (name, sorted(nm_listed), sorted(exp_nm))
        prevanc |= A
        first = False
    return None


# ------------------------------------------------------------------ generators
MAIN_NAMES = ["master", "release/1.2", "release/1.10", "release/2.0", "release/10.1"]
EXOTIC = ["main", "release/2", "release/1.2.1", "release/abc-7.5", "release/1_10", "feature/x", "releases/3.0",
          "release/v2", "release/01.2", "release/1.2-rc", "release/1.10.0", "HEAD", "release/B", "release/b.1"]


PREFIX_NAMES = ["master", "release/1", "release/1.2", "release/1.2.1", "release/1.2.1.0", "release/1.10",
                "release/1.10.0", "release/2", "release/2.0", "release/2.0.3"]


def add_times(rng, h, mode=None):
    """commit times: anywhere inside the 30-day window (the quantifier), not necessarily growing along the history;
    mode "old" leaves the window (correspondence only: the oracle does not demand obsolete branches)"""
    n = len(h["commits"])
    if mode is None:
        r = rng.random()
        mode = "random" if r < 0.45 else "chrono" if r < 0.75 else "edge" if r < 0.85 else "tight" if r < 0.95 else "old"
    if mode == "tight":
        ts = [i * 10 for i in range(n)]
    elif mode == "chrono":
        span = rng.randrange(2 * G.DAY, 29 * G.DAY)
        ts = sorted(rng.randrange(span + 1) for _ in range(n))
    elif mode == "random":
        ts = [rng.randrange(29 * G.DAY + 1) for _ in range(n)]
    elif mode == "edge":
        ts = [rng.choice([0, 1, G.DAY, G.DAY + 1, 2 * G.DAY, 29 * G.DAY, 30 * G.DAY - 1, 30 * G.DAY]) for _ in range(n)]
    else:
        ts = [rng.randrange(80 * G.DAY) for _ in range(n)]
    for c, t in zip(h["commits"], ts):
        c["ts"] = t
    return h


WIDTH_FAMILIES = [          # numbers of different width after every separator the code knows
    ["release/abc-9.1", "release/abc-10.1", "release/abc-10.10", "release/abc-100.2"],
    ["release/5.9", "release/5.10", "release/5.100", "release/10.1"],
    ["release/v_9", "release/v_10", "release/v_9_10", "release/v_10_9"],
    ["release/9/x", "release/10/x", "release/10/y", "release/100/a"],
    ["release/2024-9", "release/2024-10", "release/2024-10-3", "release/2024-9-12"],
]
SEARCH_TEXTS = ["BUG-1 ", " BUG-1", "BUG 1", " ", "", "a.b", "fix(", "[x]+", "Bug-7", "BUG-7\t", "x\ny", "*", "BUG-1  2",
                "\\d+", "BUG-7 "]
SPECIAL_NUMS = [9998, 9999, 10000, 8887, 8888, 8889]


def near_misses(text):
    """strings that look like the text but do not contain it"""
    t = text
    cands = [t.strip(), t.strip() + "0", t.lower(), t.upper(), t.swapcase(), t[:-1], t[1:], t.replace(" ", ""),
             t.replace(" ", "  "), t.replace(".", "x"), t.replace("(", ""), t.replace("\t", " "), t.replace("\n", " "),
             " ".join(t.split()), t.replace("-", "_"), "BUG-70", "bug"]
    return [c for c in cands if text not in c]


def add_messages(rng, h, text):
    """commit messages: the text embedded in different surroundings (also after a line break) for the commits meant to
    match, near misses of the text (stripped, other case, one character less, blanks folded …) for the others"""
    miss = near_misses(text)
    for i, c in enumerate(h["commits"]):
        if c["m"] or not miss and text == "":
            c["msg"] = rng.choice(["", "fix ", "x", "line one\n", "  "]) + text + rng.choice(["", " done", "0", "\nmore", " "])
        else:
            near = rng.choice(miss) if miss and rng.random() < 0.7 else "other"
            c["msg"] = rng.choice(["", "fix ", "see\n"]) + near + rng.choice(["", " c%d" % i, "\n"])
        if c["msg"] == "":
            c["msg"] = "c%d" % i if text != "" and text not in "c%d" % i else c["msg"]
    h["text"] = text
    return h


def special_bn(rng, nb):
    x = rng.choice(SPECIAL_NUMS)
    k = rng.randrange(3)
    return [[x, 1, 100 + nb, 100 + nb], [1, x, 100 + nb, 100 + nb], [1, 1, x, x]][k]


def gen_hist(rng, n, nbr, exotic=False, prefix=False, times=None, width=False, text=None):
    commits = []
    nb = 0
    used = set()
    for i in range(n):
        if i == 0 or rng.random() < 0.08:
            ps = []
        else:
            r = rng.random()
            k = 1 if r < 0.7 else (2 if r < 0.95 else 3)
            cands = list(range(max(0, i - 5), i))
            ps = rng.sample(cands, min(k, len(cands)))
        tags = []
        if rng.random() < 0.3:
            for _ in range(1 if rng.random() < 0.85 else 2):
                nb += 1
                style = rng.random()
                if style < 0.7:
                    tags.append([1, 1, 100 + nb, 100 + nb])
                elif style < 0.8:
                    tags.append([rng.choice([1, 2, 10]), rng.choice([0, 2, 10]), 100 - nb, 100 - nb])
                elif style < 0.9:
                    tags.append(special_bn(rng, nb))      # a component equal or next to the pseudo builds' 9999 / 8888
                else:
                    tags.append([77, 3 + i % 2, 100 + nb, 100 + nb])  # build_N_master_success + VERSION file (bumped now and then)
            # one VERSION file per commit, one commit per build number
            ms = [t for t in tags if t[0] >= G.MASTER_STYLE_FROM]
            tags = [t for t in tags if t[0] < G.MASTER_STYLE_FROM or t[:2] == ms[0][:2]]
            uniq = []
            for t in tags:
                if tuple(t) not in used:
                    used.add(tuple(t))
                    uniq.append(t)
            tags = uniq
        commits.append({"p": ps, "t": tags, "m": 1 if rng.random() < 0.4 else 0})
    names = list(MAIN_NAMES)
    rng.shuffle(names)
    names = names[:nbr]
    if exotic:
        extra = list(EXOTIC)
        rng.shuffle(extra)
        k = rng.randint(1, 3)
        names = names[:max(0, nbr - k)] + extra[:k]
    if prefix:
        names = list(PREFIX_NAMES)
        rng.shuffle(names)
        names = names[:nbr]
    if width:
        names = list(rng.choice(WIDTH_FAMILIES)) + (["master"] if rng.random() < 0.3 else [])
        rng.shuffle(names)
        names = names[:max(2, nbr)]
    refs = [[nm, rng.randrange(n)] for nm in names]
    h = add_times(rng, {"commits": commits, "refs": refs}, times)
    if text is None:
        text = TEXT if rng.random() < 0.6 else rng.choice(SEARCH_TEXTS)
    return add_messages(rng, h, text)


def mk_case(h, kind, noise=None):
    if noise is not None:
        G.add_noise_tags(noise, h)
    return {"lines": ["rep " + G.enc_hist(h)], "meta": {"kind": kind}}


# ---- the refs of a history as a git directory
PACK_HEADERS = ["# pack-refs with: peeled fully-peeled sorted ", "# pack-refs with: peeled fully-peeled ",
                "# pack-refs with: peeled "]
LAYOUT_MODES = ["all-loose", "all-packed", "tags-packed", "random", "build-tag-last", "other-tag-last", "branch-last"]
EXTRA_REFS = ["refs/heads/master", "refs/heads/work/x", "refs/remotes/upstream/master", "refs/remotes/origin2/release/9.9",
              "refs/stash", "refs/notes/commits", "refs/tagsx/build_1_release_1_1_success", "refs/tags/aaa-first",
              "refs/tags/v9.9", "refs/tags/zz-last"]           # none is a build tag or a branch of the remote


def commit_shas(n, salt):
    import hashlib
    return [hashlib.sha1(("%s-c%d" % (salt, i)).encode()).hexdigest() for i in range(n)]


def is_build_tag_ref(name):
    return name.startswith("refs/tags/") and G._TAG_BUILD.match(name[len("refs/tags/"):]) is not None


def render_store(h, layout):
    """the refs of the history written the way git keeps them: one file per loose ref, the others in packed-refs
    (sorted by name; an annotated tag = the hexsha of the tag object and a `^` line with the commit; a loose ref may
    have an outdated entry in packed-refs as well).  Deterministic in (h, layout)."""
    import hashlib
    import random
    rnd = random.Random(layout["seed"])
    mode = layout["mode"]
    shas = commit_shas(len(h["commits"]), layout["seed"])
    refs = {}
    for i, c in enumerate(h["commits"]):
        for n in G.commit_tag_names(c):
            refs["refs/tags/" + n] = shas[i]
    for n, hd in h["refs"]:
        refs["refs/remotes/%s/%s" % (G.REMOTE, n)] = shas[hd]
    for n in rnd.sample(EXTRA_REFS, rnd.randint(0, 4)):
        refs.setdefault(n, rnd.choice(shas))
    if mode == "other-tag-last":
        refs.setdefault("refs/tags/zz-last", rnd.choice(shas))
    names = sorted(refs)
    builds = [n for n in names if is_build_tag_ref(n)]
    if mode == "all-loose":
        packed = set()
    elif mode in ("all-packed", "other-tag-last"):
        packed = set(names)
    elif mode == "tags-packed":
        packed = {n for n in names if n.startswith("refs/tags/") and rnd.random() < 0.8}
    elif mode == "build-tag-last":
        k = rnd.choice(builds) if builds and rnd.random() < 0.5 else (builds[-1] if builds else None)
        packed = {n for n in names if k is not None and n <= k and (n == k or rnd.random() < 0.8)}
    elif mode == "branch-last":
        packed = {n for n in names if not n.startswith("refs/tags/") and n < "refs/stash"}
    else:
        packed = {n for n in names if rnd.random() < 0.5}
    # a ref whose path is a directory of another loose ref cannot be a file
    loose = [n for n in names if n not in packed]
    for n in list(loose):
        if any(m.startswith(n + "/") for m in loose):
            loose.remove(n)
            packed.add(n)
    p_ann = rnd.choice([0.0, 0.0, 0.5, 1.0])
    p_stale = rnd.choice([0.0, 0.3])
    lines = []
    for n in names:
        stale = n not in packed and len(shas) > 1 and rnd.random() < p_stale
        if n not in packed and not stale:
            continue
        sha = rnd.choice([x for x in shas if x != refs[n]]) if stale else refs[n]
        if n.startswith("refs/tags/") and rnd.random() < p_ann:
            lines.append("%s %s" % (hashlib.sha1(n.encode()).hexdigest(), n))
            lines.append("^" + sha)
        else:
            lines.append("%s %s" % (sha, n))
    r = rnd.random()
    if r < 0.8:
        lines.insert(0, PACK_HEADERS[0])
    elif r < 0.9:
        lines.insert(0, rnd.choice(PACK_HEADERS[1:]))
    if rnd.random() < 0.08 and lines:
        lines.insert(rnd.randrange(len(lines) + 1), rnd.choice(["", "  "]))
    bad = layout.get("bad")
    if bad == "header":
        lines.insert(0, rnd.choice(["# pack-refs with: sorted", "# comment", "#"]))
    elif bad == "peeled":
        lines.insert(rnd.randrange(1, len(lines) + 1) if lines else 0, rnd.choice(["^abc", "^" + shas[0] + "0", "^"]))
    elif bad == "one-word":
        lines.insert(rnd.randrange(len(lines) + 1), rnd.choice([shas[0], "refs/tags/x"]))
    nl = "\r\n" if rnd.random() < 0.05 else "\n"
    text = nl.join(lines) + (nl if rnd.random() < 0.7 else "")
    if mode == "all-loose" and not bad and rnd.random() < 0.5:
        text = None
    return {"shas": shas, "packed": text, "loose": [[n, refs[n]] for n in loose]}


def mk_disk_case(h, layout, kind="refs-on-disk"):
    """the report of a repository whose refs are read from a git directory by the production GitRepo.iter_refs"""
    store = render_store(h, layout)
    return {"lines": ["repd " + G.enc_hist(h) + " " + enc_store(store)], "meta": {"kind": kind, "layout": layout}}


def gen_layout(rng, k):
    layout = {"mode": LAYOUT_MODES[k % len(LAYOUT_MODES)], "seed": rng.randrange(1 << 30)}
    if rng.random() < 0.04:
        layout["bad"] = rng.choice(["header", "peeled", "one-word"])
    return layout


def mk_seq_case(rng, h, sync):
    """two reports on the same collection object; in between the heads move (and a ref may appear or go)"""
    import copy
    h2 = copy.deepcopy(h)
    n = len(h2["commits"])
    for r in h2["refs"]:
        if rng.random() < 0.7:
            r[1] = rng.randrange(n)
    if rng.random() < 0.3 and len(h2["refs"]) > 1:
        h2["refs"].pop(rng.randrange(len(h2["refs"])))
    elif rng.random() < 0.3:
        free = [nm for nm in MAIN_NAMES if nm not in [r[0] for r in h2["refs"]]]
        if free:
            h2["refs"].append([rng.choice(free), rng.randrange(n)])
    return {"lines": ["rep " + G.enc_hist(h), "rep " + G.enc_hist(h2)], "meta": {"kind": "refs-move-between-reports", "seq": sync}}


def small_hists(nmax, names=("master", "release/1.1")):
    """every graph of <= nmax commits (<=2 parents, both orders), every tag/match placement, every pair of heads"""
    def shapes(n):
        opts = []
        for i in range(n):
            o = [[]] + [[a] for a in range(i)] + [[a, b] for a in range(i) for b in range(i) if a != b]
            opts.append(o)
        return itertools.product(*opts)
    for n in range(1, nmax + 1):
        for ps in shapes(n):
            for bits in range(4 ** n):
                # times: 9 days apart, growing along the ids or against them
                commits = [{"p": list(ps[i]), "t": ([[1, 1, 100 + i, 100 + i]] if (bits >> (2 * i)) & 1 else []),
                            "m": (bits >> (2 * i + 1)) & 1,
                            "ts": 9 * G.DAY * (i if (bits + n) % 2 else n - 1 - i)} for i in range(n)]
                for heads in itertools.product(range(n), repeat=len(names)):
                    yield {"commits": commits, "refs": [[nm, hd] for nm, hd in zip(names, heads)]}


def gen_cases(rng, tier):
    n_rand = 2600 if tier == "quick" else 60000
    for k in range(n_rand):
        n = 6 + k % 11
        nbr = 1 + k % 5
        yield mk_case(gen_hist(rng, n, nbr), "random", noise=(rng if k % 4 == 0 else None))
    for k in range(400 if tier == "quick" else 6000):
        yield mk_case(gen_hist(rng, 4 + k % 9, 2 + k % 4, exotic=True), "exotic-names")
    for k in range(500 if tier == "quick" else 8000):
        yield mk_case(gen_hist(rng, 3 + k % 9, 2 + k % 4, prefix=True), "prefix-names")
    for k in range(500 if tier == "quick" else 8000):
        yield mk_case(gen_hist(rng, 3 + k % 9, 2 + k % 3, width=True), "width-names")
    for k in range(400 if tier == "quick" else 6000):
        yield mk_seq_case(rng, gen_hist(rng, 3 + k % 8, 1 + k % 4), ["none", "fail", "ok"][k % 3])
    for k in range(100 if tier == "quick" else 2000):
        yield mk_case(gen_hist(rng, 17 + k % 14, 1 + k % 5), "bigger")
    for k in range(700 if tier == "quick" else 12000):
        h = gen_hist(rng, 3 + k % 10, 1 + k % 4, exotic=(k % 9 == 0), prefix=(k % 9 == 1), width=(k % 9 == 2))
        if k % 3 == 0:
            G.add_noise_tags(rng, h)
        yield mk_disk_case(h, gen_layout(rng, k))
    if tier == "thorough":
        for h in small_hists(4):
            yield mk_case(h, "exhaustive<=4")
    else:
        for h in small_hists(3):
            if rng.random() < 0.25:
                yield mk_case(h, "exhaustive<=3")


def search_cases(rng, tier):
    for k, h in enumerate(small_hists(2)):
        for mode in LAYOUT_MODES:
            yield mk_disk_case(G.with_times(h), {"mode": mode, "seed": k}, "search-small-disk")
    for h in small_hists(4):
        yield mk_case(h, "search-small")
    for h in small_hists(3, names=("release/1.2", "release/1.10", "master")):
        yield mk_case(h, "search-small-3")


def corpus():
    # the defect repaired by 8729393: the head of release/1.10 lies inside release/1.2
    h = {"commits": [{"p": [], "t": [], "m": 1}, {"p": [0], "t": [[1, 1, 101, 101]], "m": 0}],
         "refs": [["release/1.2", 1], ["release/1.10", 0]]}
    # the head of release/1.10 is five days older than the only build of the lower-sorted release/1.2: still inside
    # the 30-day window, so release/1.10 has to be reported
    h2 = {"commits": [{"p": [], "t": [], "m": 1, "ts": 0}, {"p": [], "t": [[1, 1, 101, 101]], "m": 1, "ts": 5 * G.DAY}],
          "refs": [["release/1.2", 1], ["release/1.10", 0]]}
    # sort items of release/1.2 are a proper prefix of those of release/1.2.1: release/1.2 is the lower-sorted branch
    h3 = {"commits": [{"p": [], "t": [], "m": 1}, {"p": [0], "t": [], "m": 1}],
          "refs": [["release/1.2", 0], ["release/1.2.1", 1]]}
    # the search text ends with a blank: "BUG-10" does not contain it
    h4 = {"commits": [{"p": [], "t": [], "m": 1, "msg": "BUG-1 fix"}, {"p": [0], "t": [], "m": 0, "msg": "BUG-10 fix"},
                      {"p": [1], "t": [], "m": 0, "msg": "fix BUG-1"}],
          "refs": [["release/1.2", 2]], "text": "BUG-1 "}
    # a real build whose number has a 9999 in it is not the 'not merged' pseudo build
    h5 = {"commits": [{"p": [], "t": [[1, 0, 9998, 9998]], "m": 1}, {"p": [0], "t": [[1, 0, 9999, 9999]], "m": 1},
                      {"p": [1], "t": [[1, 0, 10000, 10000]], "m": 1}, {"p": [0], "t": [], "m": 0}],
          "refs": [["release/1.0", 2], ["master", 3]]}
    # refs read from a git directory: the build tags packed (the later one annotated, its `^` line ends the file, no
    # line break after it), the branch a file
    h6 = {"commits": [{"p": [], "t": [[1, 0, 9, 9]], "m": 1}, {"p": [0], "t": [[1, 0, 10, 10]], "m": 1},
                      {"p": [1], "t": [], "m": 1}], "refs": [["release/1.0", 2]]}
    sh = commit_shas(3, "corpus")
    st6 = {"shas": sh, "loose": [["refs/remotes/origin/release/1.0", sh[2]]],
           "packed": "%s\n%s refs/tags/build_10_release_1_0_success\n%s refs/tags/build_9_release_1_0_success\n^%s" % (
               PACK_HEADERS[0], sh[1], "0" * 40, sh[0])}
    disk = {"lines": ["repd " + G.enc_hist(G.with_times(h6)) + " " + enc_store(st6)], "meta": {"kind": "corpus-packed-refs"}}
    return [disk, mk_case(G.with_times(h4), "corpus-text-with-blank"), mk_case(G.with_times(h5), "corpus-build-9999"),
            mk_case(G.with_times(h), "corpus-head-inside-lower-branch"),
            mk_case(h2, "corpus-head-older-than-lower-builds"), mk_case(G.with_times(h3), "corpus-prefix-names")]


def shrink(case):
    if len(case["lines"]) > 1:
        # a sequence on one object: try the reports alone first (then it is not about the sequence)
        for l in case["lines"]:
            yield {"lines": [l], "meta": {"kind": case.get("meta", {}).get("kind", "?")}}
        return
    line = case["lines"][0]
    h, store = line_hist(line)
    meta = dict(case.get("meta", {}))
    layout = meta.get("layout")
    if store is not None and layout is None:
        return              # a fixed storage (corpus): kept as it is

    def mk(h2):
        h2 = dict(h2, text=h2.get("text", h["text"]))
        if store is not None:
            return mk_disk_case(h2, layout, meta.get("kind", "?"))
        return {"lines": ["rep " + G.enc_hist(h2)], "meta": meta}
    n = len(h["commits"])
    if store is not None:
        # the same history without a git directory (then it is not about where the refs are kept), plainer layouts
        yield {"lines": ["rep " + G.enc_hist(h)], "meta": {"kind": meta.get("kind", "?")}}
        if layout.get("bad"):
            yield mk_disk_case(h, {k: v for k, v in layout.items() if k != "bad"}, meta.get("kind", "?"))
        for seed in (0, 1, 2):
            if layout["seed"] != seed:
                yield mk_disk_case(h, dict(layout, seed=seed), meta.get("kind", "?"))
    # a plainer search text (messages that contained the text get the new one, the others lose it)
    if h["text"] != TEXT:
        cs2 = [dict(c, msg=("fix %s" % TEXT) if c["m"] else "other") for c in h["commits"]]
        yield mk({"commits": cs2, "refs": h["refs"], "text": TEXT})
    # drop a ref
    for i in range(len(h["refs"])):
        if len(h["refs"]) > 1:
            yield mk({"commits": h["commits"], "refs": h["refs"][:i] + h["refs"][i + 1:]})
    # drop a commit (references go to its parents)
    for k in range(n - 1, -1, -1):
        kp = h["commits"][k]["p"]
        commits = []
        for i, c in enumerate(h["commits"]):
            if i == k:
                continue
            ps = []
            for p in c["p"]:
                for q in (kp if p == k else [p]):
                    q2 = q - 1 if q > k else q
                    if q2 not in ps:
                        ps.append(q2)
            commits.append(dict(c, p=ps))
        refs = []
        for nm, hd in h["refs"]:
            if hd == k:
                if not kp:
                    continue
                hd = kp[0]
            refs.append([nm, hd - 1 if hd > k else hd])
        if commits and refs:
            yield mk({"commits": commits, "refs": refs})
    # simpler times: whole days, then 10 s apart
    days = [dict(c, ts=c["ts"] // G.DAY * G.DAY) for c in h["commits"]]
    if days != h["commits"]:
        yield mk({"commits": days, "refs": h["refs"]})
    tight = [dict(c, ts=i * 10) for i, c in enumerate(h["commits"])]
    if tight != h["commits"]:
        yield mk({"commits": tight, "refs": h["refs"]})
    # simplify a commit
    for k in range(n):
        c = h["commits"][k]
        for alt in ([dict(c, t=[], xt=[], names=None)] if c["t"] or c.get("xt") else []) + ([dict(c, m=0, msg="other")] if c["m"] else []) + \
                   [dict(c, p=c["p"][:j] + c["p"][j + 1:]) for j in range(len(c["p"]))]:
            yield mk({"commits": h["commits"][:k] + [alt] + h["commits"][k + 1:], "refs": h["refs"]})


def nontrivial(case, replies):
    h, _ = line_hist(case["lines"][0])
    for nm, hd in h["refs"]:
        if nm in ("master", "main") or nm.startswith("release/"):
            if any(h["commits"][c]["m"] for c in G.anc(h, hd)):
                return True
    return False


def store_tags(store):
    """where the refs are kept"""
    if not store_wellformed(store):
        yield "store:malformed-packed-refs(not judged)"
        return
    yield "store:loose-refs:%s" % ("0" if not store["loose"] else "1+")
    if store["packed"] is None:
        yield "store:no-packed-refs-file"
        return
    text = store["packed"]
    yield "store:packed-refs-ends-with-line-break" if text.endswith("\n") else "store:packed-refs-ends-without-line-break"
    if "\r\n" in text:
        yield "store:packed-refs-crlf"
    lines = [l for l in text.replace("\r\n", "\n").split("\n") if l.strip()]
    if not lines or not lines[0].startswith("#"):
        yield "store:packed-refs-without-comment-line"
    recs = []          # (name, has a ^ line)
    for l in lines:
        if l.startswith("^"):
            recs[-1][1] = True
        elif not l.startswith("#"):
            recs.append([l.split(" ")[1], False])
    if not recs:
        yield "store:packed-refs-empty"
        return
    lnames = {n for n, _ in store["loose"]}
    if any(n in lnames for n, _ in recs):
        yield "store:outdated-packed-entry-of-a-loose-ref"
    if any(p for _, p in recs):
        yield "store:annotated-tags(^-lines)"
    bt = [i for i, (n, _) in enumerate(recs) if is_build_tag_ref(n) and n not in lnames]
    if 0 in bt:
        yield "store:build-tag-in-first-record"
    if any(0 < i < len(recs) - 1 for i in bt):
        yield "store:build-tag-in-middle-record"
    last, peeled = recs[-1]
    what = "stale-entry" if last in lnames else "build-tag" if is_build_tag_ref(last) else \
        "other-tag" if last.startswith("refs/tags/") else "branch-of-remote" if last.startswith("refs/remotes/origin/") else "other-ref"
    yield "store:last-record=%s%s" % (what, "+^line" if peeled else "")


def tags(case, replies):
    yield case.get("meta", {}).get("kind", "?")
    rep = replies[0]
    h, store = line_hist(case["lines"][0])
    if store is not None:
        yield from store_tags(store)
    if not rep.startswith("ok"):
        yield "reply:" + rep[:30]
        return
    r = parse_report(rep)
    yield "branches-reported:%d" % len(r)
    if any(k == "M" for _, bl in r for k, _, _, _ in bl):
        yield "has-not-merged"
    if any(k == "N" and bn[0] == 8888 for _, bl in r for k, bn, _, _ in bl):
        yield "has-not-built"
    order = spec_order(h["refs"])
    if order is None:
        yield "order-not-judged"
    else:
        seen = set()
        for nm, hd in order:
            if hd in seen:
                yield "head-inside-lower-branch"
                break
            seen |= G.anc(h, hd)
    if any(len(c["p"]) > 1 for c in h["commits"]):
        yield "has-merge"
    if any(c.get("xt") for c in h["commits"]):
        yield "has-other-tags"
    bns = [tuple(bn) for c in h["commits"] for bn in c["t"]]
    if len(set(bns)) != len(bns):
        yield "two-commits-with-equal-build-number"
    if any(bn[0] == "?" for bn in bns):
        yield "unknown-version-?"
    if any(len(c["t"]) > 1 and any(bn[0] == "?" for bn in c["t"]) for c in h["commits"]):
        yield "several-tags-one-unknown"
    ts = [c["ts"] for c in h["commits"]]
    if not in_window(h):
        yield "outside-30-day-window(not judged)"
    elif order is not None:
        low = None          # earliest build time of the lower-sorted branches
        for nm, hd in order:
            if low is not None and low > ts[hd] + G.DAY:
                yield "head>1day-older-than-lower-builds"
                break
            bt = [ts[c] for c in G.anc(h, hd) if h["commits"][c]["t"] or c == hd]
            low = min(bt + ([low] if low is not None else []))


LEVEL_TEXT = ("Every clause of the property has a pinned, kernel-checked Lean theorem (named below) about the executable model of RGraph that the driver "
              "runs (DFS over git parents with the repository caches, _mk_rcommits, _find_new_rcommits_in_build, the 'not merged' "
              "pseudo build, branch ordering), for every topologically numbered history, every placement of tags/matches/heads "
              "and every component plug: commits listed under a build match, are contained in it and the build is a tagged/head "
              "commit new in the branch (only_matching, no_nonmatching), no earlier build of the branch contains the commit "
              "(under_minimal_build), a matching commit contained in some build of the branch is listed (exactly_once) and at most "
              "once anywhere in the branch (at_most_once), 'not merged' lists exactly the matching commits of lower-sorted branches "
              "not reachable from the head (not_merged_exact), a build at an untagged commit is the branch head and is titled 'not "
              "built', a build at a tagged commit is titled with the smallest of its tags' build numbers (build_title), and, "
              "provided no tag of the repository has the number of a pseudo build (NoFakeTags: 9999.9999.9999 / 8888.8888.8888 are "
              "not among the tags - on the real code a tag 9999.9999.9999 would be titled '- not merged -' and a tagged build "
              "8888.8888.8888 '- not built -'; excluded by ASSUMPTIONS, never generated), an entry is titled 'not merged' if and "
              "only if it is the pseudo build, which has no commit of its own, every other entry has a build commit, and an entry "
              "is titled 'not built' if and only if its build commit carries no build tag (pseudo_title, both directions), "
              "the tags and heads are what the git directory stores: every record of packed-refs is read, the last one included, "
              "with or without a `^` line and a final line break (packed_refs_records), a ref is seen with the hexsha of its file or, "
              "without a file, of its packed record, none lost, none invented (stored_refs_exact), and the tag names of a commit "
              "are exactly the tag refs stored at its hexsha (stored_tag_names: 'builds being the tagged build commits'), branches are read in a strict weak (total) order, numeric-aware, a "
              "proper prefix first, names cut at exactly the separators read from the source (order_split_*), "
              "release below master (order_*), a commit matches exactly when the search text occurs in its message as it is "
              "(match_is_substring: the model computes the match flags from text and messages), and the report shows them reversed without empty branches "
              "(report_branches). The model has the commit times and the obsolete-branch test of RGraph.__init__; the report "
              "theorems carry the hypothesis Hist.InWindow, stated with the _OBSOLETE_BRANCH_CUTOFF_PERIOD the translator "
              "reads from ak/ghist.py, under which no branch is dropped (rgraph_nw); report_total needs no window. "
              "model = code is established by a differential run of the compiled model against the real ak.ghist on synthetic "
              "histories fed through tests/mock_git.py; an independent ancestor-set oracle judges the real reports.")
LEVEL_NOTE = ("Trusted: Lean kernel (axioms propext, Classical.choice, Quot.sound), translator of the constants of ak/ghist.py "
              "(separators, sentinel, master names, fake build numbers, the two cut-off periods, the literal pieces of the two "
              "tag regexes), adapter and mock git objects, "
              "sampled correspondence (random DAGs 3-30 commits, 1-5 refs, times in and around the window, exhaustive <=4 commits x "
              "2 branches in thorough). Tag names are parsed by the model (tag_release, tag_saved_version, tag_ignored: the two "
              "regular expressions of ProjectRepo, their literal pieces read by the translator); tag_unknown_version: a "
              "master-style tag on a commit without version file gets the code's '?.?.n'). The "
              "The refs theorems are about the model of GitRepo.iter_refs that the driver executes on `repd` requests "
              "(Model/GhistRefs.lean; marker characters, header words and peeled-line length read from the source) and assume a "
              "packed-refs text of git's shape (comment lines, `<hexsha> <name>` lines without blanks in either word, 40-character "
              "`^` lines) and distinct loose file names; malformed files are modelled (TypeError / ValueError) and compared only. "
              "theorems assume Hist.Topo (parents have smaller ids); report_total shows that the model always returns a report "
              "when the refs point to existing commits.")
TECHNIQUE = ("Lean 4: invariants of the two nested DFS (well-formedness, frontier = nearest report ancestors, coverage of "
             "rcommits_bparents) proved through generic induction principles; translator for constants; correspondence + "
             "ancestor-set oracle on random and exhaustive small histories")
