"""C14 — syntax colors resolve by inheritance, independent of registration order (ak/color.py)."""
import ast
import importlib
import os
import sys

from harness.core import enc_str, dec_str

PROPERTY = "C14"
READY = True
STATEFUL = True
THEOREMS = [
    "C14.resolve_spec", "C14.resolve_entries", "C14.resolve_fn", "C14.final_set", "C14.closed_form",
    "C14.same_set_same_colors", "C14.order_indep", "C14.explicit_wins", "C14.first_registration_wins",
    "C14.Dangling.not_resolvable", "C14.unknown_then_known", "C14.palette_twice", "C14.palette_after_palette",
    "C14.palette_unchanged", "C14.named_colors_exact", "C14.near_miss_is_reference", "C14.nocolor",
    "C14.cache_fresh", "C14.no_error", "C14.no_error_add", "C14.parsed_colors_accepted", "C14.global_off_same",
    "C14.resolve_spec_global", "C14.synced_fresh", "C14.registered_class_described", "C14.synced_pending_uncoloured",
    "C14.no_error_global", "C14.no_error_pal", "C14.setGlobal_reentrant_raises", "C14.sub_palette_fresh",
    "C14.single_conf_same", "C14.non_global_registration_inert", "C14.synced_follow_current_global",
    "C14.nocolor_palette_registers", "C14.kept_palette_own_configuration", "C14.kept_entries_fixed",
    "C14.nested_same_as_flat", "C14.builtin_kept", "C14.group_named_like_builtin",
]


# ------------------------------------------------------------------ translator
def _chars(s):
    """Lean `List Char` literal"""
    out = []
    for c in s:
        if 32 <= ord(c) < 127 and c not in "'\\":
            out.append("'%s'" % c)
        else:
            out.append("Char.ofNat %d" % ord(c))
    return "[" + ", ".join(out) + "]"


def _cfg(v):
    if isinstance(v, str):
        return "(.str %s)" % _chars(v)
    if isinstance(v, dict):
        items = ".nil"
        for k, x in reversed(list(v.items())):
            if not isinstance(k, str):
                raise ValueError("non-string key in BUILT_IN_CONFIG")
            items = "(.cons %s %s %s)" % (_chars(k), _cfg(x), items)
        return "(.dict %s)" % items
    return ".other"


def _effects(tree):
    """[(keyword argument, SGR code)] in the order `_ColorSequences.make` appends them"""
    for node in ast.walk(tree):
        if isinstance(node, ast.ClassDef) and node.name == "_ColorSequences":
            for f in node.body:
                if isinstance(f, ast.FunctionDef) and f.name == "make":
                    out = []
                    for st in ast.walk(f):
                        if (isinstance(st, ast.If) and isinstance(st.test, ast.Name) and len(st.body) == 1
                                and not st.orelse and isinstance(st.body[0], ast.Expr)
                                and isinstance(st.body[0].value, ast.Call)
                                and isinstance(st.body[0].value.func, ast.Attribute)
                                and st.body[0].value.func.attr == "append"
                                and len(st.body[0].value.args) == 1
                                and isinstance(st.body[0].value.args[0], ast.Constant)
                                and isinstance(st.body[0].value.args[0].value, str)):
                            out.append((st.lineno, st.test.id, st.body[0].value.args[0].value))
                    args = [a.arg for a in f.args.args]
                    out.sort()
                    if not out or any(n not in args for _, n, _ in out):
                        raise ValueError("_ColorSequences.make: effect list not recognised")
                    return [(n, c) for _, n, c in out]
    raise ValueError("_ColorSequences.make not found")


def translate(repo):
    path = os.path.join(repo, "ak", "color.py")
    src = open(path).read()
    effects = _effects(ast.parse(src))
    # the tables are plain class attributes: read their values from the module of this tree
    spec = importlib.util.spec_from_file_location("_c14_translated_color", path)
    mod = importlib.util.module_from_spec(spec)
    sys.modules[spec.name] = mod
    try:
        spec.loader.exec_module(mod)
    finally:
        sys.modules.pop(spec.name, None)
    colors = mod._ColorSequences._COLORS
    names = mod._ColorConfColorDescr._COLORS_NAMES
    modifiers = mod._ColorConfColorDescr._MODIFIERS
    builtin = mod.ColorsConfig.BUILT_IN_CONFIG
    gp_accessors = dict(mod.GlobalPalette._LOCAL_SYNTAX)
    if not all(isinstance(a, str) and isinstance(i, str) and a.isascii() and i.isascii() for a, i in gp_accessors.items()):
        raise ValueError("GlobalPalette._LOCAL_SYNTAX is not a str -> str table")
    dflt = mod.ColorsConfig.DFLT_SYNTAX_ID
    if not (isinstance(colors, dict) and all(isinstance(k, str) and isinstance(v, str) for k, v in colors.items())):
        raise ValueError("_COLORS is not a str -> str table")
    if not all(isinstance(n, str) for n in names) or "" not in names or "-" not in names:
        raise ValueError("_COLORS_NAMES is not a set of names containing '' and '-'")
    if not all(isinstance(k, str) and isinstance(v, tuple) and len(v) == 2 and isinstance(v[0], str)
               and isinstance(v[1], bool) for k, v in modifiers.items()):
        raise ValueError("_MODIFIERS is not a name -> (effect, bool) table")
    if any(v[0] not in dict(effects) for v in modifiers.values()):
        raise ValueError("a modifier names an effect that make() does not know")
    if not isinstance(builtin, dict) or not isinstance(dflt, str):
        raise ValueError("BUILT_IN_CONFIG / DFLT_SYNTAX_ID have unexpected types")
    for t in list(colors) + list(colors.values()) + list(names) + list(modifiers) + [dflt] + [c for _, c in effects]:
        if any(ord(c) > 126 for c in t):
            raise ValueError("non-ASCII text in a table")
    out = [
        "-- GENERATED by harness/c14.py:translate from /repo/ak/color.py -- do not edit",
        "namespace Gen.C14",
        "",
        "-- nested configuration dictionaries (`other` = a value that is neither `str` nor `dict`)",
        "mutual",
        "inductive Cfg where",
        "  | str (s : List Char)",
        "  | dict (items : CfgItems)",
        "  | other",
        "inductive CfgItems where",
        "  | nil",
        "  | cons (key : List Char) (value : Cfg) (rest : CfgItems)",
        "end",
        "",
        "/-- `_ColorSequences._COLORS`: colour name -> last digit of the SGR code -/",
        "def colors : List (List Char × List Char) := [",
        ",\n".join("  (%s, %s)" % (_chars(k), _chars(v)) for k, v in colors.items()),
        "]",
        "",
        "/-- `_ColorConfColorDescr._COLORS_NAMES` (sorted): the strings accepted as a colour name -/",
        "def colorNames : List (List Char) := [",
        ",\n".join("  %s" % _chars(n) for n in sorted(names)),
        "]",
        "",
        "/-- `_ColorConfColorDescr._MODIFIERS`: modifier -> (effect, value) -/",
        "def modifiers : List (List Char × List Char × Bool) := [",
        ",\n".join("  (%s, %s, %s)" % (_chars(k), _chars(v[0]), "true" if v[1] else "false")
                   for k, v in modifiers.items()),
        "]",
        "",
        "/-- effects in the order `_ColorSequences.make` emits them, with their SGR codes -/",
        "def effects : List (List Char × List Char) := [",
        ",\n".join("  (%s, %s)" % (_chars(n), _chars(c)) for n, c in effects),
        "]",
        "",
        "/-- `ColorsConfig.DFLT_SYNTAX_ID` -/",
        "def dfltId : List Char := %s" % _chars(dflt),
        "",
        "/-- accessors of `GlobalPalette` (what `ColorsConfig.get_palette()` returns): accessor -> syntax id -/",
        "def gpAccessors : List (List Char × List Char) := [",
        ",\n".join("  (%s, %s)" % (_chars(a), _chars(i)) for a, i in gp_accessors.items()),
        "]",
        "",
        "/-- `ColorsConfig.BUILT_IN_CONFIG` -/",
        "def builtin : Cfg := %s" % _cfg(builtin),
        "",
        "end Gen.C14",
        "",
    ]
    return {"AkVerif/Gen/C14.lean": "\n".join(out)}


# ------------------------------------------------------------------ protocol helpers
def _color():
    from ak import color
    return color


def cfg_tokens(d):
    """nested dict -> protocol tokens `( key value … )`"""
    out = ["("]
    for k, v in d.items():
        out.append(enc_str(k))
        if isinstance(v, str):
            out.append("s:" + enc_str(v))
        elif isinstance(v, dict):
            out.extend(cfg_tokens(v))
        else:
            out.append("x")
    out.append(")")
    return out


def cfg_str(d):
    return " ".join(cfg_tokens(d))


def parse_cfg(tokens):
    """protocol tokens -> nested dict (values of other types become 7); None if malformed"""
    def value(i):
        if i >= len(tokens):
            raise ValueError
        t = tokens[i]
        if t == "x":
            return 7, i + 1
        if t == "(":
            d = {}
            i += 1
            while True:
                if i >= len(tokens):
                    raise ValueError
                if tokens[i] == ")":
                    return d, i + 1
                k = dec_str(tokens[i])
                v, i = value(i + 1)
                d[k] = v
        if t.startswith("s:"):
            return dec_str(t[2:]), i + 1
        raise ValueError
    try:
        v, i = value(0)
    except (ValueError, IndexError):
        return None
    if i != len(tokens) or not isinstance(v, dict):
        return None
    return v


def _prefix(rendered, text="t"):
    """`prefix + text + suffix` -> protocol form of the prefix; anything else is reported as it is"""
    s = str(rendered)
    i = s.find(text)
    if i >= 0 and s[i + len(text):] == ("\033[0m" if i > 0 else "") and text not in s[:i]:
        return enc_str(s[:i])
    return "weird:" + enc_str(s)


def _err(e):
    return "err " + type(e).__name__


_REP_GROUP = __import__("re").compile(r"^((?:  )*)(\S+) ->$")
_REP_ITEM = __import__("re").compile(r"^((?:  )*)([^ :\x1b]+): (\x1b\[[0-9;:]*m)?(.*?)(\x1b\[0m)? *(?: !(<[A-Z ]+>) *)? <- .*$")


def _report(col, text):
    """ColorsConfig.make_report() -> `ok id:R:prefix;id:U:-;…` (ids in the order of the report)"""
    path, out = [], []
    for line in text.split("\n"):
        m = _REP_GROUP.match(line)
        if m and " <- " not in line:
            depth = len(m.group(1)) // 2
            path = path[:depth] + [m.group(2)]
            continue
        m = _REP_ITEM.match(line)
        if not m or bool(m.group(3)) != bool(m.group(5)):
            return "weird-report:" + enc_str(line)
        depth = len(m.group(1)) // 2
        sid = ".".join(path[:depth] + [m.group(2)])
        status = m.group(6)
        if status not in (None, "<OK>", "<NOT RESOLVED>"):
            return "weird-report:" + enc_str(line)
        out.append("%s:%s:%s" % (enc_str(sid), "U" if status == "<NOT RESOLVED>" else "R", enc_str(m.group(3) or "")))
    return "ok " + (";".join(out) if out else "none")


# ------------------------------------------------------------------ real code
def impl(case):
    col = _color()
    uses_global = any(l.split()[0] in ("glob", "syn", "sget", "gpal") for l in case["lines"] if l) or \
        sum(1 for l in case["lines"] if l.startswith("new ")) > 1
    if not uses_global:
        return _impl(col, case, None)
    # the case owns the module state of ak.color: another (fresh) configuration is the global one at the start and
    # no synced palette exists; everything is put back afterwards
    saved_conf, saved_synced = col._GLOBAL_COLORS_CONF, dict(col._GSYNCED_PALETTES)
    col._GSYNCED_PALETTES.clear()
    col._GLOBAL_COLORS_CONF = col.ColorsConfig()
    try:
        return _impl(col, case, {})
    finally:
        col._GSYNCED_PALETTES.clear()
        col._GSYNCED_PALETTES.update(saved_synced)
        col._GLOBAL_COLORS_CONF = saved_conf


def _accessors(p, check_get_color):
    parts = []
    for name in sorted(p._LOCAL_SYNTAX):
        fmt = getattr(p, name)
        r = _prefix(fmt("t"))
        if check_get_color and p.get_color(name) is not fmt:
            r = "weird:get_color-differs"
        parts.append(enc_str(name) + "=" + r)
    return "ok " + (";".join(parts) if parts else "none")


def _impl(col, case, synced):
    conf, dead, classes = None, False, []
    confs, globbed = [], False           # the configurations of the case; whether one of them was made the global one
    kept = []                            # results of conf.get_palette() the case holds on to
    compounds = set()
    out = []
    for line in case["lines"]:
        op, *args = line.split()
        if op == "cls":
            try:
                k, _, cname = args[0].partition("@")
                compound = k.endswith("+")
                k = int(k.rstrip("+"))
                cname = dec_str(cname) if cname else "P%d" % k
                parents = [] if args[1] == "none" else [int(x) for x in args[1].split(",")]
                accs = [] if args[2] == "none" else [tuple(dec_str(x) for x in p.split("=")) for p in args[2].split(";")]
                dflt = None if args[3:] == ["nodefaults"] else parse_cfg(args[3:])
                if k != len(classes) or any(p >= k for p in parents) or (dflt is None and args[3:] != ["nodefaults"]):
                    raise ValueError
            except (ValueError, IndexError):
                out.append("bad-op")
                continue
            body = {name: col.ConfColor(synt) for name, synt in accs}
            body["SYNTAX_DEFAULTS"] = dflt
            body["PARENT_PALETTES"] = [classes[p] for p in parents] if parents else None
            # distinct class objects, possibly with one and the same module + qualified name
            if compound:
                body["SUB_PALETTES_MAP"] = {}
                compounds.add(k)
            classes.append(type(cname, (col.CompoundPalette if compound else col.Palette,), body))
            out.append("ok")
            continue
        if dead:
            out.append("dead")
            continue
        try:
            if op == "new":
                cfg = parse_cfg(args[1:])
                if cfg is None or args[0] not in "01":
                    out.append("bad-op")
                    continue
                conf = col.ColorsConfig(cfg, no_color=args[0] == "1")
                confs.append(conf)
                out.append("ok")
            elif op == "use":
                if not args[0].isdigit() or int(args[0]) >= len(confs):
                    out.append("bad-op")
                    continue
                conf = confs[int(args[0])]
                out.append("ok")
            elif op == "add":
                cfg = parse_cfg(args)
                if conf is None or cfg is None or not all(isinstance(v, str) for v in cfg.values()):
                    out.append("bad-op")
                    continue
                conf.add_new_items(cfg, "later")
                out.append("ok")
            elif op == "reg":
                cfg = parse_cfg(args[1:])
                if conf is None or cfg is None:
                    out.append("bad-op")
                    continue
                conf.register_color_conf_component(cfg, dec_str(args[0]))
                out.append("ok")
            elif op == "pal":
                k, nc = int(args[0]), args[1] == "1"
                if conf is None or k >= len(classes):
                    out.append("bad-op")
                    continue
                out.append(_accessors(classes[k](conf, nc), True))
            elif op == "sub":
                k, j, nc = int(args[0]), int(args[1]), args[2] == "1"
                if conf is None or k >= len(classes) or j >= len(classes) or k not in compounds or (nc and len(confs) > 1):
                    out.append("bad-op")
                    continue
                out.append(_accessors(classes[k](conf, nc).get_sub_palette(classes[j]), True))
            elif op == "gpal":
                if conf is None:
                    out.append("bad-op")
                    continue
                kept.append(conf.get_palette())
                out.append(_accessors(kept[-1], False))
            elif op == "gread":
                if not args[0].isdigit() or int(args[0]) >= len(kept):
                    out.append("bad-op")
                    continue
                pal = kept[int(args[0])]
                out.append(_accessors(pal, False) + "|" + _prefix(pal[dec_str(args[1])]("t")))
            elif op == "glob":
                if conf is None or synced is None:
                    out.append("bad-op")
                    continue
                col.set_global_colors_config(conf)
                globbed = True
                out.append("ok")
            elif op == "syn":
                k = int(args[0])
                if conf is None or synced is None or k >= len(classes) or k in compounds:
                    out.append("bad-op")
                    continue
                synced[k] = classes[k](synced=True)
                # (Palette.get_color / make_report of a synced palette keep the values of its creation: not compared)
                out.append(_accessors(synced[k], False) if globbed else "ok pre-global")
            elif op == "sget":
                k = int(args[0])
                if conf is None or synced is None or k not in synced or not globbed:
                    out.append("bad-op")
                    continue
                out.append(_accessors(synced[k], False))
            elif op == "get":
                if conf is None:
                    out.append("bad-op")
                    continue
                out.append("ok " + _prefix(conf.get_color(dec_str(args[0]))("t")))
            elif op == "rep":
                if conf is None:
                    out.append("bad-op")
                    continue
                out.append(_report(col, conf.make_report()))
            elif op == "ids":
                if conf is None:
                    out.append("bad-op")
                    continue
                items = sorted(conf.syntax_map.items())
                out.append("ok " + (";".join(enc_str(k) + ":" + ("R" if v.color_fmt is not None else "U")
                                             for k, v in items) if items else "none"))
            else:
                out.append("bad-op")
        except Exception as e:
            dead = True
            out.append(_err(e))
    return out


def observable(i, line):
    # `ids` reads ColorsConfig.syntax_map / color_fmt directly: internal, diagnostic only
    return not line.startswith("ids")


# ------------------------------------------------------------------ oracle: the property itself
# An independent reading of the documented description format (ColorsConfig.__init__ docstring):
#   "COLOR/BG_COLOR:modifiers" | "OTHER_SYNTAX:modifiers" | "OTHER_SYNTAX:COLOR/BG_COLOR:modifiers"
_O_NAMES = ["BLACK", "RED", "GREEN", "YELLOW", "BLUE", "MAGENTA", "CYAN", "WHITE"]
_O_EFFECTS = ["bold", "faint", "underline", "blink", "crossed"]
_O_ID = __import__("re").compile(r"[A-Za-z_][A-Za-z0-9_]*(\.[A-Za-z0-9_]+)*\Z")
_O_RGB = __import__("re").compile(r"\( *([0-5]) *, *([0-5]) *, *([0-5]) *\)\Z")


class _Unknown(Exception):
    """the oracle does not claim to understand this input: outside the quantifier"""


def _o_color(t):
    """colour slot: '' (unspecified), '-' (terminal default) or a value for ColorFmt; _Unknown otherwise.
    Blanks around a colour token (and around the numbers of an rgb tuple) do not count: the parser strips every colour
    token, every rgb component and every listed modifier on purpose, so the blank spelling is the same description."""
    t = t.strip(" ")
    if t in ("", "-") or t in _O_NAMES:
        return t
    if t.startswith("g") and t[1:].isdigit() and str(int(t[1:])) == t[1:] and int(t[1:]) < 24:
        return t
    if t.isdigit() and t.isascii() and str(int(t)) == t and int(t) < 256:
        return int(t)
    m = _O_RGB.match(t)
    if m and t.isascii():
        return tuple(int(x) for x in m.groups())
    raise _Unknown(t)


def _o_is_colors(sec):
    try:
        _o_colors(sec)
        return True
    except _Unknown:
        return False


def _o_colors(sec):
    parts = sec.split("/")
    if len(parts) == 1:
        return _o_color(parts[0]), ""
    if len(parts) == 2:
        return _o_color(parts[0]), _o_color(parts[1])
    raise _Unknown(sec)


def _o_mods(sec):
    mods = {}
    if "," not in sec and sec != sec.strip(" "):
        raise _Unknown(sec)          # a single modifier is recognised only in its exact spelling
    for w in sec.split(","):
        w = w.strip(" ")
        if not w and "," in sec:
            continue                 # empty items of a list are dropped
        if w in _O_EFFECTS:
            mods[w] = True
        elif w.startswith("no_") and w[3:] in _O_EFFECTS:
            mods[w[3:]] = False
        else:
            raise _Unknown(w)
    return mods


_O_CACHE = {}


def o_parse(descr):
    """description -> (parent or None, fg, bg, mods); raises _Unknown for anything not plainly valid"""
    r = _O_CACHE.get(descr)
    if r is None:
        if len(_O_CACHE) > 200000:
            _O_CACHE.clear()
        try:
            r = _o_parse(descr)
        except _Unknown as e:
            r = e
        _O_CACHE[descr] = r
    if isinstance(r, _Unknown):
        raise r
    return r


def _o_parse(descr):
    secs = descr.split(":")
    if len(secs) > 3:
        raise _Unknown(descr)
    if _o_is_colors(secs[0]):
        parent, (fg, bg) = None, _o_colors(secs[0])
        rest = secs[1:]
        if len(rest) > 1 or (rest and (rest[0].strip(" ") == "" or _o_is_colors(rest[0]))):
            raise _Unknown(descr)       # colours twice / empty modifiers section: not claimed valid
        mods = _o_mods(rest[0]) if rest else {}
        return parent, fg, bg, mods
    parent = secs[0]
    if not _O_ID.match(parent) or parent in _O_EFFECTS or (parent.startswith("no_") and parent[3:] in _O_EFFECTS):
        raise _Unknown(descr)
    rest = secs[1:]
    fg = bg = ""
    mods = {}
    if rest and _o_is_colors(rest[0]):
        fg, bg = _o_colors(rest[0])
        rest = rest[1:]
        if rest:
            if rest[0].strip(" ") == "":
                raise _Unknown(descr)
            mods = _o_mods(rest[0])
            rest = rest[1:]
    elif rest:
        mods = _o_mods(rest[0])
        rest = rest[1:]
    if rest:
        raise _Unknown(descr)
    return parent, fg, bg, mods


def o_flatten(d, prefix=""):
    """nested dict -> [(id, description)]; values of other types are not descriptions"""
    out = []
    for k, v in d.items():
        if isinstance(v, str):
            out.append((prefix + k, v))
        elif isinstance(v, dict):
            out.extend(o_flatten(v, prefix + k + "."))
    if len(set(k for k, _ in out)) != len(out):
        raise _Unknown("one id described twice in one dictionary")
    return out


class _Spec:
    """the final set of descriptions and what the statement says about it"""

    def __init__(self, no_color):
        self.no_color = no_color
        self.final = {}        # id -> description (explicit configuration, then built-ins, then components)
        self.offers = {}       # id -> set of descriptions offered by the built-ins and by later registrations
        self.explicit = set()  # ids described by the constructor's argument: these always win

    def offer(self, items, later, explicit=False):
        for k, v in items:
            if explicit:
                self.explicit.add(k)
            else:
                self.offers.setdefault(k, set()).add(v)
            self.final.setdefault(k, v)

    def expected(self, synt_id):
        """(fg, bg, mods) of the formatter, or None when the statement does not determine it"""
        col = _color()
        if synt_id not in self.final:
            synt_id = col.ColorsConfig.DFLT_SYNTAX_ID
            if synt_id not in self.final:
                return (None, None, {})
        chain, onchain, cur = [], set(), synt_id
        while cur is not None:
            if cur in onchain:
                raise _Unknown("cycle")
            onchain.add(cur)
            if cur not in self.final:
                return (None, None, {})            # the chain reaches an unknown id: uncoloured
            if cur not in self.explicit and len(self.offers[cur]) > 1:
                return None                        # built-ins / components disagree: the statement is silent
            chain.append(cur)
            cur = o_parse(self.final[cur])[0]
        fg = bg = None
        mods = {}
        for sid in reversed(chain):                # from the root of the chain down to synt_id
            _, f, b, m = o_parse(self.final[sid])
            if f != "":
                fg = None if f == "-" else f
            if b != "":
                bg = None if b == "-" else b
            mods = {**mods, **m}
        return (fg, bg, mods)

    def resolvable(self, synt_id):
        """the reference chain of a described id ends in a description without reference"""
        cur, seen = synt_id, set()
        while cur is not None:
            if cur not in self.final or cur in seen:
                return False
            seen.add(cur)
            cur = o_parse(self.final[cur])[0]
        return True

    def render(self, synt_id, no_color=False):
        e = self.expected(synt_id)
        if e is None:
            return None
        if self.no_color or no_color:
            return "-"
        fg, bg, mods = e
        return _prefix(_color().ColorFmt(fg, bg_color=bg, **mods)("t"))

    def check_all_valid(self):
        """every description is plainly valid and no reference chain runs into a cycle (linear in the set)"""
        state = {}                      # id -> 1 (on the current walk) | 2 (done)
        for sid in self.final:
            walk, cur = [], sid
            while cur is not None and cur in self.final and state.get(cur) != 2:
                if state.get(cur) == 1:
                    raise _Unknown("cycle")
                state[cur] = 1
                walk.append(cur)
                cur = o_parse(self.final[cur])[0]
            for w in walk:
                state[w] = 2


def _oracle_walk(case, replies):
    col = _color()
    spec, classes = None, []      # spec: the configuration the lines act on
    specs, gspec, synced = [], None, []    # all configurations of the case; the current global one; synced classes
    kept = []                              # (configuration, accessors at the time) of kept get_palette() results

    def register(k, sp):
        """class k (parents first) becomes a component of configuration sp, once"""
        if k in sp.registered:
            return
        parents, accs, dflt = classes[k]
        for p in parents:
            register(p, sp)
        if dflt is not None:
            sp.registered.add(k)
            sp.offer(o_flatten(dflt), later=True)
            sp.check_all_valid()

    def check_palette(n, k, rep, nc, what, spec):
        got = {} if rep == "ok none" else dict(p.split("=") for p in rep[3:].split(";"))
        for a, synt in classes[k][1].items():
            want = spec.render(synt, nc)
            if want is not None and got.get(enc_str(a)) != want:
                return "%s: line %d accessor %r of class %d (syntax %r) renders %s, the final set of descriptions gives %s" % (
                    what, n, a, k, synt, got.get(enc_str(a)), want)
            if (spec.no_color or nc) and got.get(enc_str(a)) != "-":
                return "nocolor: line %d accessor %r has an effect: %s" % (n, a, got.get(enc_str(a)))
        return None

    for n, (line, rep) in enumerate(zip(case["lines"], replies)):
        op, *args = line.split()
        if rep == "bad-op":
            raise _Unknown("protocol")
        if op == "cls":
            # (the name after `@` is irrelevant: two classes are two components whatever they are called)
            parents = [] if args[1] == "none" else [int(x) for x in args[1].split(",")]
            accs = {"text": col.ColorsConfig.DFLT_SYNTAX_ID}
            if args[2] != "none":
                for p in args[2].split(";"):
                    a, s = p.split("=")
                    accs[dec_str(a)] = dec_str(s)
            dflt = None if args[3:] == ["nodefaults"] else parse_cfg(args[3:])
            classes.append((parents, accs, dflt))
            continue
        if op == "new":
            spec = _Spec(args[0] == "1")
            spec.registered, spec.names = set(), set()
            specs.append(spec)
            spec.offer(o_flatten(parse_cfg(args[1:])), later=False, explicit=True)
            spec.offer(o_flatten(col.ColorsConfig.BUILT_IN_CONFIG), later=False)
            spec.check_all_valid()
        elif spec is None:
            raise _Unknown("no configuration")
        elif op == "use":
            spec = specs[int(args[0])]
        elif op == "add":
            spec.offer(o_flatten(parse_cfg(args)), later=True)
            spec.check_all_valid()
        elif op == "reg":
            if args[0] in spec.names:
                raise _Unknown("component registered twice")
            spec.names.add(args[0])
            spec.offer(o_flatten(parse_cfg(args[1:])), later=True)
            spec.check_all_valid()
        elif op == "pal":
            k, nc = int(args[0]), args[1] == "1"
            register(k, spec)
            if not rep.startswith("ok"):
                return "raises: line %d %r answers %s" % (n, line, rep)
            msg = check_palette(n, k, rep, nc, "palette", spec)
            if msg:
                return msg
            continue
        elif op == "gpal":
            # conf.get_palette(): a palette of THIS configuration; the object is kept by the case
            if not rep.startswith("ok"):
                return "raises: line %d %r answers %s" % (n, line, rep)
            want = {enc_str(a): spec.render(i) for a, i in col.GlobalPalette._LOCAL_SYNTAX.items()}
            kept.append((spec, want))
            got = dict(p.split("=") for p in rep[3:].split(";"))
            for a, w in want.items():
                if w is not None and got.get(a) != w:
                    return "get_palette: line %d accessor %s renders %s, the configuration's descriptions give %s" % (n, dec_str(a), got.get(a), w)
            continue
        elif op == "gread":
            # a kept get_palette() result belongs to the configuration it was obtained from, whichever configuration is
            # the global one now: its accessors are what they were, palette[id] is get_color(id) of THAT configuration now
            if not rep.startswith("ok"):
                return "raises: line %d %r answers %s" % (n, line, rep)
            ksp, want = kept[int(args[0])]
            accs, _, item = rep[3:].partition("|")
            got = dict(p.split("=") for p in accs.split(";"))
            for a, w in want.items():
                if w is not None and got.get(a) != w:
                    return "kept-palette: line %d accessor %s of the palette obtained from configuration %d renders %s, it was %s" % (
                        n, dec_str(a), specs.index(ksp), got.get(a), w)
                if ksp.no_color and got.get(a) != "-":
                    return "nocolor: line %d kept palette of a no_color configuration has an effect: %s" % (n, got.get(a))
            w = ksp.render(dec_str(args[1]))
            if w is not None and item != w:
                return "kept-palette: line %d palette[%r] of the palette obtained from configuration %d renders %s, that configuration gives %s" % (
                    n, dec_str(args[1]), specs.index(ksp), item, w)
            continue
        elif op == "sub":
            # a sub-palette handed out by a compound palette obtained from the configuration NOW is a palette of that
            # configuration in its current state
            k, j, nc = int(args[0]), int(args[1]), args[2] == "1"
            register(k, spec)
            register(j, spec)
            if not rep.startswith("ok"):
                return "raises: line %d %r answers %s" % (n, line, rep)
            msg = check_palette(n, j, rep, nc, "sub-palette", spec)
            if msg:
                return msg
            continue
        elif op == "glob":
            # every synced palette registers its class in the configuration that becomes the global one
            # … and from now on the synced palettes show THIS configuration, whichever was the global one before
            if any(_nested_registration(classes, k, spec.registered) for k in synced):
                raise _Unknown("re-entrant registration (outside observe_at, see SYNCED_PARENT_FINDING)")
            for k in synced:
                register(k, spec)
            gspec = spec
        elif op == "syn":
            k = int(args[0])
            if k not in synced:
                if gspec is not None:
                    register(k, gspec)
                synced.append(k)
            if not rep.startswith("ok"):
                return "raises: line %d %r answers %s" % (n, line, rep)
            if gspec is not None:
                msg = check_palette(n, k, rep, False, "synced", gspec)
                if msg:
                    return msg
            continue
        elif op == "sget":
            k = int(args[0])
            if not rep.startswith("ok"):
                return "raises: line %d %r answers %s" % (n, line, rep)
            # a synced palette shows get_color of its ids in the CURRENT state of the CURRENT global configuration:
            # after every registration, resolved or not, and whatever is registered into other configurations
            msg = check_palette(n, k, rep, False, "synced", gspec)
            if msg:
                return msg
            continue
        elif op == "get":
            sid = dec_str(args[0])
            if not rep.startswith("ok "):
                return "raises: line %d %r answers %s" % (n, line, rep)
            want = spec.render(sid)
            if want is not None and rep[3:] != want:
                return "resolve: line %d id %r renders %s, the final set of descriptions %r gives %s" % (
                    n, sid, rep[3:], spec.final, want)
            if spec.no_color and rep[3:] != "-":
                return "nocolor: line %d id %r has an effect: %s" % (n, sid, rep[3:])
            continue
        elif op == "ids":
            continue
        elif op == "rep":
            if not rep.startswith("ok"):
                return "report: line %d make_report() gives %s" % (n, rep)
            got = {} if rep == "ok none" else dict((p.split(":")[0], p.split(":")[1:]) for p in rep[3:].split(";"))
            if sorted(got) != sorted(enc_str(k) for k in spec.final):
                return "report: line %d make_report() lists %d ids, the configuration describes %d" % (n, len(got), len(spec.final))
            for sid in spec.final:
                e = spec.expected(sid)
                if e is None:
                    continue
                resolvable = spec.resolvable(sid)
                want = ["R", spec.render(sid)] if resolvable else ["U", "-"]
                if got[enc_str(sid)] != want:
                    return "report: line %d make_report() shows id %r as %s, the final set of descriptions gives %s" % (
                        n, sid, got[enc_str(sid)], want)
            continue
        else:
            raise _Unknown(op)
        if rep != "ok":
            return "raises: line %d %r answers %s" % (n, line, rep)
    return spec if len(specs) == 1 else None


def _nested_registration(classes, k, registered):
    """some class C among k and its ancestors (not registered yet, with defaults) has a not yet registered ancestor with
    defaults: registering that ancestor in the global configuration re-syncs the synced palette of k, which registers C
    in the middle of C's own registration"""
    def pending(c):
        ps, _, d = classes[c]
        return c not in registered and (d is not None or any(pending(p) for p in ps))

    def hit(c, seen):
        if c in seen:
            return False
        seen.add(c)
        ps, _, d = classes[c]
        if c not in registered and d is not None and any(pending(p) for p in ps):
            return True
        return any(hit(p, seen) for p in ps)
    return hit(k, set())


SYNCED_PARENT_FINDING = ("set_global_colors_config(conf) raises AssertionError when a synced palette exists whose class (or one of "
                         "its PARENT_PALETTES ancestors) has SYNTAX_DEFAULTS and itself a PARENT_PALETTES class with SYNTAX_DEFAULTS, "
                         "none of them registered in conf yet: registering the parent modifies the global configuration, the nested "
                         "re-sync registers the class itself, and the outer register_in_colors_conf then hits "
                         "`assert src_obj not in self.registered_sources`")
# No KNOWN matcher for that shape: the AssertionError of set_global_colors_config with a synced palette whose parent class
# is not registered yet was ruled OUTSIDE C14 (DESIGN.md section 10, C14, "Observed outside observe_at": the exception
# is not one of the observables get_color / palette accessors / make_report) and has no entry in known_findings.json.
# The oracle does not judge it (_Unknown above); the model reproduces it, so the correspondence still compares it.


def _user_items(case):
    """[(id, description)] of every registration of a case made of new/add/reg/get/ids lines only, or None"""
    items = []
    for line in case["lines"]:
        op, *args = line.split()
        if op in ("get", "ids", "rep"):
            continue
        if op == "new":
            items.extend(o_flatten(parse_cfg(args[1:])))
        elif op == "add":
            items.extend(o_flatten(parse_cfg(args)))
        elif op == "reg":
            items.extend(o_flatten(parse_cfg(args[1:])))
        else:
            return None
    return items


def oracle(case, replies):
    col = _color()
    try:
        spec = _oracle_walk(case, replies)
        if isinstance(spec, str):
            return spec
        if spec is None:
            return None
        # order independence, stated directly: the same descriptions, all distinct ids, registered in two
        # other ways (one dictionary in reverse order; one registration per item in sorted order)
        items = _user_items(case)
        builtin = set(k for k, _ in o_flatten(col.ColorsConfig.BUILT_IN_CONFIG))
        if items is None or len(set(k for k, _ in items)) != len(items) or builtin & set(k for k, _ in items):
            return None
        if len(items) > 60:
            return None                 # (one-by-one registration of a long chain is cubic; long chains are judged above)
        probes = sorted(set(k for k, _ in items) | builtin | {"?unknown?"} |
                        set(dec_str(l.split()[1]) for l in case["lines"] if l.startswith("get ")))
        try:
            a = col.ColorsConfig(dict(reversed(items)), no_color=spec.no_color)
            b = col.ColorsConfig(None, no_color=spec.no_color)
            for k, v in sorted(items):
                b.add_new_items({k: v}, "one by one")
            c = col.ColorsConfig(None, no_color=spec.no_color)
            c.register_color_conf_component(dict(items), "all later")
        except Exception as e:
            return "raises: another registration order of %r raises %s" % (items, type(e).__name__)
        for sid in probes:
            want = spec.render(sid)
            ra = _prefix(a.get_color(sid)("t"))
            rb = _prefix(b.get_color(sid)("t"))
            rc = _prefix(c.get_color(sid)("t"))
            if not (ra == rb == rc):
                return "order: id %r renders %s / %s / %s under three registration orders of %r" % (sid, ra, rb, rc, items)
            if want is not None and ra != want:
                return "resolve: id %r renders %s in another registration order, expected %s (%r)" % (sid, ra, want, items)
        return None
    except _Unknown:
        return None


# ------------------------------------------------------------------ generators
_COLS = ["RED", "GREEN", "BLUE", "YELLOW", "BLACK", "WHITE", "CYAN", "MAGENTA", "12", "0", "0", "255", "(1,2,3)", "(5,0,5)",
         "(0,0,0)", "g0", "g5", "g23", "", "-", "-"]
_MODS = ["bold", "no_bold", "underline", "no_underline", "blink", "no_blink", "crossed", "no_crossed", "faint", "no_faint"]
_BUILTIN_IDS = ["TEXT", "NAME", "KEYWORD", "NUMBER", "OK", "WARN", "ERROR"]
# ordinary syntax ids that are near-misses of colour names, gray/number colours, modifier names and other tokens of the
# description grammar (another case, a prefix / suffix / underscore more): only the exact spelling is a colour / modifier
_NEAR_MISS_IDS = ["red", "Red", "white", "black", "Blue", "Magenta", "yellow", "cyan", "green", "REDX", "XRED", "RED_", "_RED",
                  "DARK_RED", "g24", "g05", "G5", "g", "g_5", "Bold", "BOLD", "bold_", "nobold", "no_Bold", "NO_BOLD", "no_",
                  "underlined", "Blink", "text", "Text", "none", "None", "default", "DEFAULT", "x255", "c12"]


def _gen_descr(rng, parent):
    """a valid description (documented format), with or without a parent"""
    secs = []
    if parent is not None:
        secs.append(parent)
    if parent is None or rng.random() < 0.6:
        fg = rng.choice(_COLS)
        c = fg
        if rng.random() < 0.5:
            c = fg + "/" + rng.choice(_COLS)
        if rng.random() < 0.12:
            # the blank spelling: blanks around colour tokens (single token or FG/BG pair, rgb components)
            c = "/".join(rng.choice(["", " "]) + (x.replace(",", rng.choice([", ", " ,"])) if x.startswith("(") else x) +
                         rng.choice(["", " ", "  "]) for x in c.split("/"))
        secs.append(c)
    mods = rng.sample(_MODS, rng.choice([0, 0, 1, 1, 2, 3]))
    if mods:
        if len(mods) > 1 and rng.random() < 0.12:
            secs.append(rng.choice([", ", " ,", " , "]).join(mods) + rng.choice(["", " ", ", "]))
        else:
            secs.append(",".join(mods))
    return ":".join(secs)


def _gen_set(rng, tier):
    """acyclic description set: [(id, description)], chains of depth <= 4, some chains through unknown ids,
    some through built-in ids, forward and backward references"""
    n = rng.choice([1, 2, 2, 3, 3, 3, 4, 4, 4, 5, 6] if tier == "quick" else [2, 3, 4, 4, 5, 6, 6, 7, 8])
    ids = []
    for i in range(n):
        r = rng.random()
        if r < 0.5:
            ids.append("S%d" % i)
        elif r < 0.75:
            ids.append("G%d.X%d" % (rng.randrange(2), i))
        elif r < 0.80:
            ids.append("G0.H.Y%d" % i)
        elif r < 0.85:
            ids.append("D%d.E.F.Y%d" % (rng.randrange(2), i))       # nesting depth 3
        elif r < 0.89:
            ids.append("D0.E.F.G.Y%d" % i)                          # nesting depth 4
        elif r < 0.93:
            ids.append("D0.E.F.G.H%d.Y" % (i % 2))                  # nesting depth 5
        elif r < 0.945:
            ids.append(rng.choice(_BUILTIN_IDS))
        elif r < 0.975:
            ids.append(rng.choice(_NEAR_MISS_IDS))
        else:
            ids.append("T%d" % i)
    if rng.random() < 0.15:
        ids.append("TEXT")                   # a coloured default syntax: unknown and unresolved ids must differ
    # ids BELOW an id that is described itself (a built-in syntax or an id of this set): written nested, the group is
    # called like a syntax (`"WARN": {"SOFT": …}` next to the built-in / separately registered `WARN`)
    under = {}
    if rng.random() < 0.3:
        for j in range(rng.choice([1, 1, 2])):
            own = [x for x in ids if x.count(".") <= 1 and x not in under]
            base = rng.choice(own) if own and rng.random() < 0.3 else rng.choice(_BUILTIN_IDS)
            sid = base + "." + rng.choice(["CODE", "SHORT", "U%d" % j, "SUB.V%d" % j, "HINT"])
            under[sid] = base
            ids.append(sid)
    ids = list(dict.fromkeys(ids))
    depth, parent_of = {}, {}
    order = list(ids)
    rng.shuffle(order)                      # parents are chosen among ids earlier in this order: acyclic
    for pos, sid in enumerate(order):
        parent = None
        base = under.get(sid)
        if base is not None and rng.random() < 0.6 and (base not in ids or (base in order[:pos] and depth[base] < 4)):
            parent = base                    # … and refers to the syntax the group is called like
        elif rng.random() < 0.65:
            cands = [p for p in order[:pos] if depth[p] < 4]
            extra = [b for b in _BUILTIN_IDS if b not in ids]
            pool = cands * 3 + extra[:3] + (["MISSING", "MISSING.Z"] if rng.random() < 0.3 else []) + \
                ([n for n in rng.sample(_NEAR_MISS_IDS, 2) if n not in ids] if rng.random() < 0.15 else [])
            if pool:
                parent = rng.choice(pool)
        parent_of[sid] = parent
        depth[sid] = depth.get(parent, 0) + 1 if parent is not None else 0
    return [(sid, _gen_descr(rng, parent_of[sid])) for sid in ids], max(depth.values())


def _nest(items, rng):
    """[(id, descr)] -> dict, dotted ids folded into nested dicts with probability 1/2 (when possible)"""
    d = {}
    for sid, descr in items:
        parts = sid.split(".")
        if len(parts) > 1 and rng.random() < 0.5:
            cut = rng.randrange(1, len(parts)) if rng.random() < 0.5 else len(parts) - 1
            path = parts[:cut] if cut == len(parts) - 1 else [".".join(parts[:cut])] + parts[cut:-1]
            path = parts[:-1] if rng.random() < 0.7 else path
            cur, ok = d, True
            for p in path:
                nxt = cur.setdefault(p, {})
                if not isinstance(nxt, dict):
                    ok = False
                    break
                cur = nxt
            if ok and parts[-1] not in cur:
                cur[parts[-1]] = descr
                continue
        if sid in d:
            return None
        d[sid] = descr
    flat = dict(o_flatten_quiet(d))
    return d if flat == dict(items) else None


def o_flatten_quiet(d, prefix=""):
    out = []
    for k, v in d.items():
        if isinstance(v, str):
            out.append((prefix + k, v))
        elif isinstance(v, dict):
            out.extend(o_flatten_quiet(v, prefix + k + "."))
    return out


def _probe_ids(items):
    ids = [k for k, _ in items]
    parents = []
    for _, d in items:
        p = d.split(":")[0]
        if _O_ID.match(p) and p not in _O_NAMES and p not in ids:
            parents.append(p)
    # the syntax a group is called like (`WARN` for `WARN.SOFT`) is asked for as well
    bases = [k.split(".")[0] for k in ids if "." in k and k.split(".")[0] in _BUILTIN_IDS]
    return list(dict.fromkeys(ids + parents + bases + ["TEXT", "NAME", "?unknown?"]))


def _history(rng, items, probes, no_color, kinds, every_step=True):
    """lines of one history: `items` (in this order) split between the constructor and 1-3 later registrations"""
    n = len(items)
    k = rng.randint(0, n)
    init, rest = items[:k], items[k:]
    lines, classes = [], 0
    cfg = _nest(init, rng) if rng.random() < 0.6 else None
    lines.append("new %d %s" % (no_color, cfg_str(cfg if cfg is not None else dict(init))))
    nreg = 0
    gets = ["get " + enc_str(p) for p in probes]
    while rest:
        m = rng.randint(1, len(rest)) if rng.random() < 0.7 else 1
        if len(rest) > m and nreg >= 2:
            m = len(rest)
        batch, rest = rest[:m], rest[m:]
        if every_step:
            lines.extend(gets)
        kind = rng.choice(kinds)
        if kind == "add":
            lines.append("add " + cfg_str(dict(batch)))
        elif kind == "reg":
            cfg = _nest(batch, rng)
            lines.append("reg %s %s" % (enc_str("comp%d" % nreg), cfg_str(cfg if cfg is not None else dict(batch))))
        else:
            cfg = _nest(batch, rng)
            accs = ";".join("%s=%s" % (enc_str("a%d" % i), enc_str(p)) for i, p in enumerate(rng.sample(probes, min(3, len(probes)))))
            lines.append("cls %d none %s %s" % (classes, accs, cfg_str(cfg if cfg is not None else dict(batch))))
            lines.append("pal %d %d" % (classes, 1 if rng.random() < 0.2 else 0))
            classes += 1
        nreg += 1
    lines.extend(gets)
    lines.append("rep")
    lines.append("ids")
    return lines


def _perms(items, rng, limit):
    import itertools
    if len(items) <= 4:
        return [list(p) for p in itertools.permutations(items)]
    out = [list(items), list(reversed(items))]
    for _ in range(limit - 2):
        p = list(items)
        rng.shuffle(p)
        out.append(p)
    return out


def corpus():
    def c(lines, kind):
        return {"lines": lines, "meta": {"kind": kind}}
    g = lambda *ids: ["get " + enc_str(i) for i in ids]
    # the defect of the pinned tree ('-' together with a parent), in three registration orders
    yield c(["new 0 " + cfg_str({"A": "RED/BLUE:bold", "B": "A:-"})] + g("A", "B"), "dash-with-parent")
    yield c(["new 0 " + cfg_str({"B": "A:-/-"}), "get 66", "add " + cfg_str({"A": "RED/BLUE:bold"})] + g("A", "B"), "dash-with-parent")
    yield c(["new 0 " + cfg_str({}), "add " + cfg_str({"A": "RED/BLUE:bold"}), "add " + cfg_str({"B": "A:GREEN/-:no_bold"})] + g("A", "B"),
            "dash-with-parent")
    # tests/test_color.py: unresolved until a palette registers the missing id
    yield c(["new 0 " + cfg_str({"SYNT_3": "SYNT_X_3", "SYNT_4": "SYNT_1", "SYNT_1": "SYNT_X_2"})] + g("SYNT_1", "SYNT_3", "SYNT_4") +
            ["cls 0 none %s=%s %s" % (enc_str("s1"), enc_str("SYNT_1"), cfg_str({"SYNT_X_3": "RED", "SYNT_X_2": "GREEN", "SYNT_2": "RED"})),
             "pal 0 0"] + g("SYNT_1", "SYNT_3", "SYNT_4", "SYNT_2") + ["ids"], "unknown-then-known")
    # explicit configuration wins over built-ins and over later defaults, nested dictionaries
    yield c(["new 0 " + cfg_str({"NAME": "TABLE.BORDER:155", "TEXT": "(4,1,1):blink", "TABLE": {"BORDER": "RED"}}),
             "add " + cfg_str({"NAME": "BLUE", "TABLE.BORDER": "GREEN", "SHADE": "TEXT:g4/g5:no_blink"})] +
            g("NAME", "TEXT", "TABLE.BORDER", "SHADE", "nope"), "explicit-wins")
    yield c(["new 1 " + cfg_str({"A": "RED/BLUE:bold", "B": "A:-"})] + g("A", "B", "TEXT"), "nocolor")
    # synced palettes: created under another global configuration, re-synced when this one becomes global and after
    # every later registration
    yield c(["cls 0 none %s=%s %s" % (enc_str("s1"), enc_str("SYNT_1"), cfg_str({"SYNT_X_9": "BLUE"})),
             "new 0 " + cfg_str({"SYNT_1": "SYNT_X_2:-/YELLOW"}), "syn 0", "glob", "sget 0",
             "add " + cfg_str({"SYNT_X_2": "RED:bold"}), "sget 0"] + g("SYNT_1", "SYNT_X_9") + ["rep"], "synced")
    # a synced palette shows get_color of its ids in the CURRENT state after every registration, resolved or not:
    # unknown id = coloured default syntax, then known-but-pending = uncoloured, then resolved
    yield c(["cls 0 none %s=%s nodefaults" % (enc_str("x"), enc_str("DEMO.X")), "new 0 " + cfg_str({"TEXT": "RED"}), "glob", "syn 0",
             "add " + cfg_str({"DEMO.X": "DEMO.BASE:bold"}), "sget 0", "pal 0 0", "get " + enc_str("DEMO.X"),
             "add " + cfg_str({"DEMO.BASE": "GREEN"}), "sget 0"], "synced-pending-only")
    # the global configuration is REPLACED: registrations into the former one must not touch the synced palettes
    yield c(["cls 0 none %s=%s nodefaults" % (enc_str("x"), enc_str("DEMO.X")), "new 0 " + cfg_str({"DEMO.X": "RED"}),
             "new 0 " + cfg_str({"DEMO.X": "BLUE:bold"}), "use 0", "glob", "syn 0", "use 1", "glob", "sget 0",
             "use 0", "add " + cfg_str({"FRESH": "GREEN"}), "sget 0", "pal 0 0", "sget 0", "use 1", "get " + enc_str("DEMO.X")],
            "global-replaced")
    # the no-colour palette of a class is one object for all configurations; each configuration still gets the component
    yield c(["cls 0 none %s=%s %s" % (enc_str("acc"), enc_str("C.ACCENT"), cfg_str({"C.ACCENT": "RED:bold"})),
             "new 0 " + cfg_str({"U": "C.ACCENT:underline"}), "new 0 " + cfg_str({"V": "C.ACCENT:/BLUE"}),
             "use 0", "pal 0 1", "use 1", "pal 0 1"] + g("V", "C.ACCENT") + ["rep", "use 0"] + g("U", "C.ACCENT") + ["rep"], "nocolor-route")
    # a kept conf.get_palette() belongs to its configuration whatever becomes the global one later
    yield c(["new 0 " + cfg_str({"NAME": "RED"}), "new 1 " + cfg_str({"NAME": "GREEN"}), "new 0 " + cfg_str({"NAME": "BLUE:bold"}),
             "use 0", "glob", "gpal", "use 1", "glob", "gpal", "use 2", "glob", "gread 0 " + enc_str("NAME"), "gread 1 " + enc_str("NAME"),
             "use 0", "add " + cfg_str({"A.Y": "NAME:underline"}), "gread 0 " + enc_str("A.Y"), "glob", "gread 1 " + enc_str("WARN")],
            "kept-global-palette")
    # ids that differ from colour / modifier names by case or by a character are ordinary ids: references, not colours
    yield c(["new 0 " + cfg_str({"red": "(5,0,0)", "Magenta": "red:underline", "APP.ERROR": "red:bold", "APP.MARK": "Magenta",
                                 "APP.SHADOW": "black:bold", "APP.NOTE": "APP.ERROR:-/g5", "APP.B": "Bold:RED", "APP.G": "g24"})] +
            g("red", "Magenta", "APP.ERROR", "APP.MARK", "APP.SHADOW", "APP.NOTE", "APP.B", "APP.G") +
            ["reg %s %s" % (enc_str("shades"), cfg_str({"black": "g3/g20", "Bold": ":bold", "g24": "WHITE"}))] +
            g("APP.SHADOW", "APP.B", "APP.G", "black") + ["rep"], "near-miss-ids")
    # a compound palette hands out sub-palettes of the configuration it was obtained from, in its current state
    yield c(["cls 0 none %s=%s %s" % (enc_str("e"), enc_str("ENUM.ID"), cfg_str({"ENUM.ID": "ENUM.BASE:bold"})),
             "cls 1+ none %s=%s nodefaults" % (enc_str("border"), enc_str("TBL.BORDER")),
             "new 0 " + cfg_str({"TBL.BORDER": "RED"}), "new 0 " + cfg_str({"ENUM.BASE": "GREEN"}),
             "use 0", "sub 1 0 0", "add " + cfg_str({"ENUM.BASE": "BLUE/g5"}), "sub 1 0 0", "use 1", "sub 1 0 0",
             "get " + enc_str("ENUM.ID")], "sub-palette")
    # two distinct palette classes with one and the same name are two components
    yield c(["cls 0@%s none %s=%s %s" % (enc_str("Pal"), enc_str("a"), enc_str("A.ACCENT"), cfg_str({"A.ACCENT": "RED:bold"})),
             "cls 1@%s none %s=%s %s" % (enc_str("Pal"), enc_str("b"), enc_str("B.ACCENT"), cfg_str({"B.ACCENT": "A.ACCENT:/BLUE"})),
             "new 0 " + cfg_str({"LOG.LEVEL": "B.ACCENT:underline"}), "pal 0 0", "pal 1 0"] +
            g("A.ACCENT", "B.ACCENT", "LOG.LEVEL") + ["rep"], "same-name-classes")
    # groups called like a described syntax (built-in, explicit, registered later): nested and flat spelling of one set,
    # the group in the constructor / in a component / in palette-class defaults
    for spelled in ({"WARN": {"SOFT": "WARN:faint", "LOUD": {"X": "WARN.SOFT:no_faint,blink"}}, "OK": {"DONE": "OK:/g3"},
                     "APP": "NUMBER:-", "KEYWORD": "CYAN"},
                    {"WARN.SOFT": "WARN:faint", "WARN.LOUD.X": "WARN.SOFT:no_faint,blink", "OK.DONE": "OK:/g3",
                     "APP": "NUMBER:-", "KEYWORD": "CYAN"}):
        yield c(["new 0 " + cfg_str(spelled)] + g("WARN", "OK", "WARN.SOFT", "WARN.LOUD.X", "OK.DONE", "APP", "KEYWORD") +
                ["reg %s %s" % (enc_str("comp"), cfg_str({"APP": {"TITLE": "APP:bold"}, "KEYWORD": {"SQL": "KEYWORD:underline"},
                                                          "NUMBER": {"HEX": "NUMBER:/BLUE"}})),
                 "cls 0 none %s=%s %s" % (enc_str("lvl"), enc_str("LOG.FATAL"),
                                          cfg_str({"LOG": {"FATAL": "ERROR:blink"}, "ERROR": {"CODE": "WARN.SOFT:RED"}})),
                 "pal 0 0"] + g("APP", "APP.TITLE", "KEYWORD", "KEYWORD.SQL", "NUMBER", "NUMBER.HEX", "ERROR", "ERROR.CODE",
                                "LOG.FATAL", "NAME", "TEXT") + ["rep", "ids"], "group-named-like-id")
    # SYNCED_PARENT_FINDING: the model reproduces the AssertionError (correspondence only, the oracle does not judge it)
    yield c(["cls 0 none none " + cfg_str({"P1.X": "RED"}),
             "cls 1 0 %s=%s %s" % (enc_str("y"), enc_str("K.Y"), cfg_str({"K.Y": "P1.X:bold"})),
             "new 0 ( )", "syn 1", "glob", "sget 1"], "synced-parent-assert")


def gen_cases(rng, tier):
    n_sets = 2000 if tier == "quick" else 10000
    for s in range(n_sets):
        items, depth = _gen_set(rng, tier)
        probes = _probe_ids(items)
        no_color = 1 if rng.random() < 0.06 else 0
        meta = {"kind": "perm", "items": len(items), "depth": depth}
        limit = 6 if tier == "quick" else 24
        perms = _perms(items, rng, limit)
        if tier == "quick" and len(perms) > 8:
            perms = [perms[0], perms[-1]] + rng.sample(perms[1:-1], 6)
        for p in perms:
            kinds = rng.choice([["add"], ["add", "reg"], ["add", "reg", "cls"]])
            yield {"lines": _history(rng, p, probes, no_color, kinds, every_step=rng.random() < 0.5), "meta": dict(meta)}
    yield from _gen_shadow(rng, tier)
    yield from _gen_palettes(rng, tier)
    yield from _gen_global(rng, tier)
    yield from _gen_multi(rng, tier)
    yield from _gen_nc_route(rng, tier)
    yield from _gen_kept(rng, tier)
    yield from _gen_long(rng, tier)
    yield from _gen_malformed(rng, tier)


def _gen_shadow(rng, tier):
    """the same id described more than once: explicit configuration / built-ins / first component win"""
    for _ in range(300 if tier == "quick" else 6000):
        items, depth = _gen_set(rng, tier)
        probes = _probe_ids(items)
        ids = [k for k, _ in items]
        shadows = []
        for sid in rng.sample(ids + _BUILTIN_IDS[:3], rng.randint(1, 3)):
            cands = [p for p in ids if p != sid]
            shadows.append((sid, _gen_descr(rng, rng.choice(cands) if cands and rng.random() < 0.3 else None)))
        k = rng.randint(0, len(items))
        lines = ["new 0 " + cfg_str(dict(items[:k]))]
        later = items[k:] + shadows
        rng.shuffle(later)
        gets = ["get " + enc_str(p) for p in probes]
        n = 0
        while later:
            m = rng.randint(1, len(later))
            batch, later = dict(later[:m]), later[m:]
            lines.append("add " + cfg_str(batch) if rng.random() < 0.5 else "reg %s %s" % (enc_str("c%d" % n), cfg_str(batch)))
            n += 1
            lines.extend(gets)
        yield {"lines": lines + ["rep", "ids"], "meta": {"kind": "shadow", "items": len(items), "depth": depth}}


def _gen_palettes(rng, tier):
    """palette classes with defaults and parent palettes; palettes requested before and after registrations"""
    for _ in range(300 if tier == "quick" else 6000):
        items, depth = _gen_set(rng, tier)
        probes = _probe_ids(items)
        rng.shuffle(items)
        ncls = rng.randint(1, 3)
        cuts = sorted(rng.randint(0, len(items)) for _ in range(ncls))
        groups = [items[a:b] for a, b in zip([0] + cuts, cuts + [len(items)])]
        lines = []
        # distinct classes that share module and qualified name (a factory called twice, type("Pal", …) twice)
        same_name = "@" + enc_str("Pal") if rng.random() < 0.35 else ""
        compound = []
        for k in range(ncls):
            parents = sorted(rng.sample(range(k), rng.randint(0, k))) if rng.random() < 0.6 else []
            accs = {"a%d" % i: p for i, p in enumerate(rng.sample(probes, min(len(probes), rng.randint(0, 3))))}
            if rng.random() < 0.15:
                accs["text"] = rng.choice(probes)
            grp = groups[k + 1]
            dflt = "nodefaults" if (not grp and rng.random() < 0.5) else cfg_str(_nest(grp, rng) or dict(grp))
            if rng.random() < 0.4:
                compound.append(k)
            lines.append("cls %d%s%s %s %s %s" % (k, "+" if k in compound else "", same_name, ",".join(map(str, parents)) or "none",
                                                  ";".join("%s=%s" % (enc_str(a), enc_str(s)) for a, s in accs.items()) or "none", dflt))
        lines.append("new %d %s" % (1 if rng.random() < 0.1 else 0, cfg_str(_nest(groups[0], rng) or dict(groups[0]))))
        gets = ["get " + enc_str(p) for p in probes]
        for _ in range(rng.randint(2, 6)):
            r = rng.random()
            if r < 0.25 and compound:
                # a sub-palette handed out by a compound palette, before and after registrations
                lines.append("sub %d %d %d" % (rng.choice(compound), rng.randrange(ncls), 1 if rng.random() < 0.2 else 0))
            elif r < 0.7:
                lines.append("pal %d %d" % (rng.randrange(ncls), 1 if rng.random() < 0.25 else 0))
            elif r < 0.85:
                lines.extend(rng.sample(gets, min(2, len(gets))))
            elif r < 0.93 or not items:
                lines.append("add " + cfg_str({"MISSING": _gen_descr(rng, None)}))
            else:
                # a registration that mixes ids the configuration may already know with a new one
                known = dict(rng.sample(items, min(len(items), 2)))
                known["NEW%d" % len(lines)] = _gen_descr(rng, None)
                mixed = list(known.items())
                rng.shuffle(mixed)
                lines.append("add " + cfg_str(dict(mixed)))
        lines.extend(gets)
        for k in range(ncls):
            lines.append("pal %d 0" % k)
        for k in compound:
            lines.append("sub %d %d 0" % (k, rng.randrange(ncls)))
        yield {"lines": lines + ["rep", "ids"], "meta": {"kind": "palette", "items": len(items), "depth": depth}}


def _gen_global(rng, tier):
    """the configuration becomes the global one; synced palettes (created before and after) follow every registration"""
    for _ in range(400 if tier == "quick" else 8000):
        items, depth = _gen_set(rng, tier)
        probes = _probe_ids(items)
        rng.shuffle(items)
        ncls = rng.randint(1, 4)
        cuts = sorted(rng.randint(0, len(items)) for _ in range(ncls + 1))
        groups = [items[a:b] for a, b in zip([0] + cuts, cuts + [len(items)])]
        if "TEXT" not in dict(items) and rng.random() < 0.5:
            groups[0] = groups[0] + [("TEXT", rng.choice(["RED", "BLUE/g5:bold", "(1,2,3):underline", "0/0"]))]
        late = ["LATE.X", "LATE.Y"]      # ids that first become known-but-pending, later resolved
        lines = []
        same_name = "@" + enc_str("Pal") if rng.random() < 0.35 else ""
        for k in range(ncls):
            parents = sorted(rng.sample(range(k), rng.randint(0, min(k, 2)))) if rng.random() < 0.5 else []
            accs = {"a%d" % i: p for i, p in enumerate(rng.sample(probes, min(len(probes), rng.randint(1, 3))))}
            if rng.random() < 0.6:
                accs["late"] = rng.choice(late)
            grp = groups[k + 1]
            dflt = "nodefaults" if (not grp or rng.random() < 0.2) else cfg_str(_nest(grp, rng) or dict(grp))
            lines.append("cls %d%s %s %s %s" % (k, same_name, ",".join(map(str, parents)) or "none",
                                                ";".join("%s=%s" % (enc_str(a), enc_str(s)) for a, s in accs.items()), dflt))
        pre = [k for k in range(ncls) if rng.random() < 0.4]
        lines.append("new %d %s" % (1 if rng.random() < 0.05 else 0, cfg_str(_nest(groups[0], rng) or dict(groups[0]))))
        lines.extend("syn %d" % k for k in pre)
        if rng.random() < 0.3:
            lines.append("pal %d 0" % rng.randrange(ncls))
        lines.append("glob")
        later = groups[ncls + 1] if len(groups) > ncls + 1 else []
        gets = ["get " + enc_str(p) for p in probes]
        syn = list(pre)
        late_state = 0
        for _ in range(rng.randint(2, 8)):
            r = rng.random()
            if r < 0.3:
                k = rng.randrange(ncls)
                lines.append("syn %d" % k)
                if k not in syn:
                    syn.append(k)
            elif r < 0.6 and syn:
                lines.append("sget %d" % rng.choice(syn))
            elif r < 0.75 and later:
                m = rng.randint(1, len(later))
                lines.append("add " + cfg_str(dict(later[:m])))
                later = later[m:]
                lines.extend("sget %d" % k for k in syn)
            elif r < 0.80:
                lines.append("add " + cfg_str({"MISSING": _gen_descr(rng, None)}))
                lines.extend("sget %d" % k for k in syn)
            elif r < 0.90 and late_state < 2:
                # a batch of pending items only (nothing becomes resolved), later the id they wait for
                if late_state == 0:
                    batch = {l: "NOWHERE.Z:" + rng.choice(["bold", "GREEN", "-/BLUE"]) for l in late if rng.random() < 0.8} or \
                            {late[0]: "NOWHERE.Z"}
                else:
                    batch = {"NOWHERE.Z": _gen_descr(rng, None)}
                late_state += 1
                lines.append(("add " if rng.random() < 0.6 else "reg %s " % enc_str("late%d" % late_state)) + cfg_str(batch))
                lines.extend("sget %d" % k for k in syn)
                lines.extend("get " + enc_str(l) for l in late)
            elif r < 0.95:
                lines.append("pal %d %d" % (rng.randrange(ncls), 1 if rng.random() < 0.2 else 0))
            else:
                lines.append("glob")
        lines.extend("sget %d" % k for k in syn)
        lines.extend(gets)
        yield {"lines": lines + ["rep", "ids"], "meta": {"kind": "global", "items": len(items), "depth": depth}}


def _gen_multi(rng, tier):
    """2-3 configurations take turns as the global one; registrations into the current global one, into former
    global ones and into never-global ones; every synced palette is read after every step"""
    for _ in range(300 if tier == "quick" else 6000):
        items, depth = _gen_set(rng, tier)
        probes = _probe_ids(items)
        nconf = rng.choice([2, 2, 3])
        ncls = rng.randint(1, 3)
        lines = []
        same_name = "@" + enc_str("Pal") if rng.random() < 0.2 else ""
        # a look-alike of ak.color.global_palette: the standard accessors, no defaults of its own
        lines.append("cls 0 none %s nodefaults" % ";".join("%s=%s" % (enc_str(a), enc_str(a.upper()))
                                                            for a in ("name", "keyword", "ok", "warn", "error")))
        pool = list(items)
        rng.shuffle(pool)
        for k in range(1, ncls + 1):
            parents = [rng.randrange(1, k)] if k > 1 and rng.random() < 0.3 else []
            accs = {"a%d" % i: p for i, p in enumerate(rng.sample(probes, min(len(probes), rng.randint(1, 3))))}
            grp = [pool.pop() for _ in range(min(len(pool), rng.randint(0, 2)))]
            dflt = cfg_str(dict(grp)) if grp and not parents else "nodefaults"
            lines.append("cls %d%s %s %s %s" % (k, same_name, ",".join(map(str, parents)) or "none",
                                                ";".join("%s=%s" % (enc_str(a), enc_str(x)) for a, x in accs.items()), dflt))
        ncls += 1
        # a compound palette class (tables / records of the package): hands out sub-palettes of the other classes
        lines.append("cls %d+ none %s=%s nodefaults" % (ncls, enc_str("frame"), enc_str(rng.choice(probes))))
        compound_k = ncls
        ncls += 1
        # the configurations describe (partly) the same ids differently
        for c in range(nconf):
            own = {}
            for sid, _d in rng.sample(items, rng.randint(0, len(items))):
                own[sid] = _gen_descr(rng, None)
            if rng.random() < 0.6:
                own["TEXT"] = rng.choice(["RED", "BLUE:bold", "g5/(1,2,3)", "0"])
            if rng.random() < 0.5:
                own["WARN"] = rng.choice(["MAGENTA:blink", "NOWHERE.W", "TEXT:crossed"])
            lines.append("new %d %s" % (1 if rng.random() < 0.05 else 0, cfg_str(own)))
        syn, was_global, cur_global = [], set(), None
        gets = ["get " + enc_str(p) for p in rng.sample(probes, min(3, len(probes)))]

        def read_all():
            if cur_global is not None:
                lines.extend("sget %d" % k for k in syn)

        for k in range(ncls - 1):
            if rng.random() < 0.35:
                lines.append("syn %d" % k)
                syn.append(k)
        for step in range(rng.randint(4, 10)):
            r = rng.random()
            c = rng.randrange(nconf)
            if r < 0.25:
                lines += ["use %d" % c, "glob"]
                if cur_global is not None:
                    was_global.add(cur_global)
                cur_global = c
                was_global.discard(c)
            elif r < 0.40:
                k = rng.randrange(ncls - 1)
                lines.append("syn %d" % k)
                if k not in syn:
                    syn.append(k)
            else:
                # a registration: preferably into a configuration that WAS the global one and is not any more
                former = sorted(was_global)
                if former and rng.random() < 0.6:
                    c = rng.choice(former)
                lines.append("use %d" % c)
                kind = rng.random()
                if kind < 0.4 and pool:
                    sid, d = pool.pop()
                    lines.append("add " + cfg_str({sid: d}))
                elif kind < 0.6:
                    lines.append("add " + cfg_str({"NEW%d" % step: _gen_descr(rng, None), "NOWHERE.W": _gen_descr(rng, None)}))
                elif kind < 0.75:
                    lines.append("reg %s %s" % (enc_str("comp%d" % step), cfg_str({"NEW%d" % step: _gen_descr(rng, None)})))
                elif kind < 0.88:
                    lines.append("pal %d %d" % (rng.randrange(ncls), 1 if rng.random() < 0.15 else 0))
                else:
                    lines.append("sub %d %d 0" % (compound_k, rng.randrange(ncls - 1)))
                lines.extend(gets)
            read_all()
        for c in range(nconf):
            lines.append("use %d" % c)
            lines.extend(gets)
            lines.append("sub %d %d 0" % (compound_k, rng.randrange(1, ncls - 1)))
            lines.append("rep")
        read_all()
        yield {"lines": lines, "meta": {"kind": "multi-conf", "items": len(items), "depth": depth}}


def _gen_nc_route(rng, tier):
    """palette classes register their defaults through P(conf, no_color=…): the no-colour palette is one object per class
    for all configurations, yet every configuration must get the component; several configurations, both orders with
    the coloured creation"""
    for _ in range(200 if tier == "quick" else 4000):
        nconf = rng.choice([2, 2, 3])
        ncls = rng.randint(1, 3)
        lines, provided = [], []
        for k in range(ncls):
            ids = ["C%d.ACCENT" % k, "C%d.BASE" % k][:rng.randint(1, 2)]
            dflt = {}
            for j, sid in enumerate(ids):
                dflt[sid] = _gen_descr(rng, ids[j - 1] if j and rng.random() < 0.6 else None)
            provided += ids
            parents = [rng.randrange(k)] if k and rng.random() < 0.3 else []
            lines.append("cls %d%s %s %s=%s %s" % (k, "+" if rng.random() < 0.2 else "", ",".join(map(str, parents)) or "none",
                                                   enc_str("acc"), enc_str(ids[0]), cfg_str(dflt)))
        users = []
        for c in range(nconf):
            own = {}
            for u in range(rng.randint(1, 3)):
                own["APP%d.U%d" % (c, u)] = _gen_descr(rng, rng.choice(provided + list(own)))
                users.append("APP%d.U%d" % (c, u))
            lines.append("new %d %s" % (1 if rng.random() < 0.08 else 0, cfg_str(own)))
        gets = ["get " + enc_str(p) for p in provided + users]
        visits = [(c, k) for c in range(nconf) for k in range(ncls)]
        rng.shuffle(visits)
        for c, k in visits:
            nc = 1 if rng.random() < 0.6 else 0
            lines += ["use %d" % c, "pal %d %d" % (k, nc)]
            if rng.random() < 0.3:
                lines.append("pal %d %d" % (k, 1 - nc))
            lines.extend(rng.sample(gets, min(3, len(gets))))
        for c in range(nconf):
            lines += ["use %d" % c] + gets + ["rep"]
        yield {"lines": lines, "meta": {"kind": "nocolor-route", "items": len(provided), "depth": 2}}


def _gen_kept(rng, tier):
    """results of conf.get_palette() kept while the global configuration is swapped (conf global -> another -> back),
    coloured and no_color configurations, registrations in between"""
    std = ["TEXT", "NAME", "KEYWORD", "OK", "WARN", "ERROR"]
    for _ in range(200 if tier == "quick" else 4000):
        nconf = rng.choice([2, 2, 3])
        lines = []
        for c in range(nconf):
            own = {sid: _gen_descr(rng, None) for sid in rng.sample(std, rng.randint(1, 5))}
            if rng.random() < 0.5:
                own["EXTRA.%d" % c] = _gen_descr(rng, rng.choice(std + ["LATER.X"]))
            lines.append("new %d %s" % (1 if rng.random() < 0.25 else 0, cfg_str(own)))
        probes = std + ["EXTRA.0", "EXTRA.1", "LATER.X", "?unknown?"]
        nkept = 0

        def read_all():
            for h in range(nkept):
                lines.append("gread %d %s" % (h, enc_str(rng.choice(probes))))

        for step in range(rng.randint(4, 9)):
            c = rng.randrange(nconf)
            r = rng.random()
            if r < 0.35:
                lines += ["use %d" % c, "glob"]
                if rng.random() < 0.6:
                    lines.append("gpal")          # obtained while this configuration is the global one
                    nkept += 1
            elif r < 0.55:
                lines += ["use %d" % c, "gpal"]   # obtained from whatever configuration, global or not
                nkept += 1
            elif r < 0.8:
                lines += ["use %d" % c, "add " + cfg_str({rng.choice(["LATER.X", "NEW%d" % step, "EXTRA.%d" % c]): _gen_descr(rng, None)})]
            else:
                lines += ["use %d" % c] + ["get " + enc_str(p) for p in rng.sample(probes, 2)]
            read_all()
        read_all()
        yield {"lines": lines, "meta": {"kind": "kept-global-palette", "items": nconf, "depth": 1}}


def _long_chain(n, rng):
    """[(id, description)]: L00000 -> L00001 -> … -> L<n-1> (the root); the leaf sorts first, so the first walk of the
    resolution loop is the longest one; a few links contribute colours / modifiers of their own"""
    items = []
    for i in range(n):
        sid = "L%05d" % i
        if i == n - 1:
            items.append((sid, "RED/BLUE:bold"))
        else:
            own = ""
            if i % 97 == 3:
                own = ":" + rng.choice(["GREEN", "/g5", "-", "0", "underline", "no_bold,blink"])
            items.append((sid, "L%05d%s" % (i + 1, own)))
    return items


def _gen_long(rng, tier, sizes=None):
    """reference chains of 10 … 1500 (thorough: 3000) links, pending all at once"""
    sizes = sizes or ([10, 100, 600, 1500] if tier == "quick" else [10, 100, 600, 1000, 1500, 3000])
    for n in sizes:
        items = _long_chain(n, rng)
        probes = ["L%05d" % i for i in sorted(set([0, 1, 2, n // 3, n // 2, n - 2, n - 1]) & set(range(n)))] + ["TEXT"]
        gets = ["get " + enc_str(p) for p in probes]
        shuffled = list(items)
        rng.shuffle(shuffled)
        half = n // 2
        scenarios = [
            ("one-batch", ["new 0 " + cfg_str(dict(shuffled))]),
            ("leaf-half-first", ["new 0 " + cfg_str(dict(items[:half]))] + gets + ["add " + cfg_str(dict(items[half:]))]),
            ("waits-for-root", ["new 0 " + cfg_str(dict(items[:-1]))] + gets + ["reg %s %s" % (enc_str("root"), cfg_str(dict(items[-1:])))]),
            ("dangling", ["new 0 " + cfg_str(dict(items[:-1] + [(items[-1][0], "NOWHERE:bold")]))] + gets +
             ["add " + cfg_str({"NOWHERE": "YELLOW"})]),
            ("root-first-one-by-one" if n <= 100 else "root-first-two-batches",
             ["new 0 " + cfg_str({})] + (["add " + cfg_str(dict([it])) for it in reversed(items)] if n <= 100 else
                                          ["add " + cfg_str(dict(items[half:])), "add " + cfg_str(dict(items[:half]))])),
        ]
        for name, lines in scenarios:
            yield {"lines": lines + gets + (["rep"] if n <= 100 else []),
                   "meta": {"kind": "long-chain", "chain": n, "scenario": name, "depth": n}}


_BAD = ["RED:BLUE", ":RED", "A:B", "a/b/c", "A:RED:bold:x", "(1,2,6)", "A/RED", "bold", "A,B", "RED::bold", "A: bold",
        "RED:bold:bold", "RED:boldx", "(1,2", "RED/(1,2,3,4)", "A:256/RED", "RED/256"]
_ODD = ["1_0", "+12", "-0", "007", " RED ", "\tRED", "(1, 2,3)", "( 1,2,3 )", "g05", "g24", "256", "1 0", "A::bold", "A:/",
        "/", "A:RED/", ":bold", "A:bold,,no_bold , ", " A", "-1", "1__0", "_1", "1_", "+ 1", "(+1,2,3)", "(1_0,0,0)", "g",
        "A:-", "-/-", "A:-/-:no_bold", "0x10", "2_5_5", "00256", "A:", "A: :bold", "A:RED :bold", "(1,2,3)/(3,2,1):crossed",
        "\x1cRED\x1f", "\x0bRED", "no_bold", "A:no_bold", "S0:bold", "x,y:bold",
        "red", "A:red", "A:Magenta/BLUE", "red:GREEN", "Blue:/g1:no_bold", "red:-/YELLOW:blink", "A:RED/white", "white/RED",
        "A:Bold", "A:BOLD", "Bold", "A:bold,Blink", "g24:bold", "A:g24", "A:G5", "G5/RED", "none", "A:none", "RED_:bold"]


def _gen_malformed(rng, tier):
    """invalid and unusual descriptions, cycles, a component registered twice (correspondence only)"""
    for d in _BAD + _ODD:
        for nc in (0, 1):
            yield {"lines": ["new %d %s" % (nc, cfg_str({"A": "RED/BLUE:bold", "S0": "GREEN:underline", "Z": d})),
                             "get 90", "get 65", "ids"], "meta": {"kind": "odd-description"}}
            yield {"lines": ["new %d %s" % (nc, cfg_str({"A": "RED/BLUE:bold"})), "add " + cfg_str({"Z": d, "Y": "Z:bold"}),
                             "get 90", "get 89", "ids"], "meta": {"kind": "odd-description"}}
    for _ in range(150 if tier == "quick" else 4000):
        items, depth = _gen_set(rng, tier)
        items = list(items)
        probes = _probe_ids(items)
        what = rng.choice(["cycle", "bad", "odd", "twice", "other-value", "dup-flatten"])
        lines = None
        if what == "cycle":
            ids = [k for k, _ in items]
            a = rng.choice(ids)
            b = rng.choice(ids)
            items = [(k, (b if k == a else k) + ":bold") if k in (a, b) and rng.random() < 0.9 else (k, v) for k, v in items]
            items = [(k, (a + ":RED") if k == b else v) for k, v in items]
        elif what in ("bad", "odd"):
            i = rng.randrange(len(items))
            items[i] = (items[i][0], rng.choice(_BAD if what == "bad" else _ODD))
        if what == "twice":
            lines = ["new 0 " + cfg_str(dict(items[:1])), "reg 99 " + cfg_str(dict(items[1:2])), "reg 99 " + cfg_str(dict(items[2:])), "ids"]
        elif what == "other-value":
            d = dict(items)
            d["N"] = {"X": 7, "Y": "RED", "Z": {}}
            d["O"] = 7
            lines = ["new 0 " + cfg_str(d)] + ["get " + enc_str(p) for p in probes + ["N.Y", "N.X", "O", "N"]] + ["ids"]
        elif what == "dup-flatten":
            d = dict(items)
            d["Q.R"] = "RED"
            d["Q"] = {"R": "BLUE:bold"}
            d2 = {"Q": {"R": "GREEN"}, "Q.R": "YELLOW"}
            lines = ["new 0 " + cfg_str(d), "get " + enc_str("Q.R"), "reg 1 " + cfg_str(d2), "get " + enc_str("Q.R"), "ids"]
        if lines is None:
            lines = _history(rng, items, probes, 0, ["add", "reg"], every_step=False)
        yield {"lines": lines, "meta": {"kind": "malformed-" + what}}


def search_cases(rng, tier):
    """directed search: every pair / triple of small descriptions over two colour slots, '-' and '' in every
    position, every registration order"""
    import itertools
    # sizes first: a changed resolution loop (recursion, quadratic/cubic walks, fuel) shows on long pending chains
    yield from _gen_long(rng, tier, sizes=[1500, 3000, 600, 100, 10])
    parts = ["", "-", "RED", "7"]
    descrs = []
    for parent in (None, "A", "B", "C", "TEXT", "MISSING"):
        for fg in parts:
            for bg in (None, "", "-", "BLUE"):
                for mods in (None, "bold", "no_bold"):
                    secs = ([parent] if parent else []) + ([fg if bg is None else fg + "/" + bg] if (fg or bg is not None or not parent) else [])
                    if mods:
                        secs.append(mods)
                    descrs.append(":".join(secs))
    descrs = sorted(set(descrs))
    ids = ["A", "B", "C"]
    for _ in range(200000):
        n = rng.choice([2, 2, 3])
        items = []
        for sid in ids[:n]:
            d = rng.choice(descrs)
            items.append((sid, d))
        for p in itertools.permutations(items):
            yield {"lines": _history(rng, list(p), ids + ["TEXT", "MISSING"], 0, ["add", "reg"], every_step=True),
                   "meta": {"kind": "search"}}


# ------------------------------------------------------------------ shrinking, statistics
def shrink(case):
    lines = case["lines"]
    # drop one line (never the constructor)
    for i in range(len(lines) - 1, -1, -1):
        if not lines[i].startswith("new "):
            yield {"lines": lines[:i] + lines[i + 1:], "meta": case.get("meta", {})}
    # drop one item of one dictionary
    for i, line in enumerate(lines):
        op, *args = line.split()
        skip = {"new": 1, "add": 0, "reg": 1}.get(op)
        if skip is None:
            continue
        d = parse_cfg(args[skip:])
        if not d:
            continue
        flat = o_flatten_quiet(d)
        for j in range(len(flat)):
            nd = dict(flat[:j] + flat[j + 1:])
            yield {"lines": lines[:i] + [" ".join([op] + args[:skip] + cfg_tokens(nd))] + lines[i + 1:], "meta": case.get("meta", {})}
    # simplify one description: drop its modifiers
    for i, line in enumerate(lines):
        op, *args = line.split()
        skip = {"new": 1, "add": 0, "reg": 1}.get(op)
        if skip is None:
            continue
        d = parse_cfg(args[skip:])
        if not d:
            continue
        flat = o_flatten_quiet(d)
        for j, (k, v) in enumerate(flat):
            if v.count(":") >= 1 and v.rsplit(":", 1)[0] != v:
                nd = dict(flat[:j] + [(k, v.rsplit(":", 1)[0])] + flat[j + 1:])
                yield {"lines": lines[:i] + [" ".join([op] + args[:skip] + cfg_tokens(nd))] + lines[i + 1:], "meta": case.get("meta", {})}


def nontrivial(case, replies):
    """at least one later registration and one coloured answer of an id that has a parent"""
    lines = case["lines"]
    if not any(l.startswith(("add ", "reg ", "pal ", "glob", "syn ", "gpal")) for l in lines):
        return False
    if any(r.startswith("err") for r in replies):
        return True
    return case.get("meta", {}).get("depth", 1) >= 1 and any(r.startswith("ok 27") or "=27," in r for r in replies)


def _groups(d, prefix=""):
    """dotted paths of the dict-valued keys (groups) of a nested dictionary"""
    for k, v in d.items():
        if isinstance(v, dict):
            yield prefix + k
            yield from _groups(v, prefix + k + ".")


def _group_tags(lines):
    """groups called like a syntax that is described (built-in / elsewhere in the case), by the place of the group"""
    dicts = []
    for l in lines:
        op, *args = l.split()
        skip = {"new": 1, "reg": 1, "cls": 3}.get(op)
        if skip is None and op != "add":
            continue
        d = parse_cfg(args[skip or 0:])
        if d:
            dicts.append(("constructor" if op == "new" else "palette-class" if op == "cls" else "later", d))
    described = set(k for _, d in dicts for k, _ in o_flatten_quiet(d))
    out = set()
    for where, d in dicts:
        for g in _groups(d):
            if g in _BUILTIN_IDS:
                out.add("group-named-like-id:built-in:" + where)
            if g in described:
                out.add("group-named-like-id:described-in-case:" + where)
    return sorted(out)


def tags(case, replies):
    m = case.get("meta", {})
    yield m.get("kind", "?")
    if "chain" in m:
        yield "chain-length:%d" % m["chain"]
        yield "chain-scenario:" + m["scenario"].split("-one-by")[0].split("-two-b")[0]
    if any(l.startswith("cls ") and "@" in l.split()[1] for l in case["lines"]) and \
            sum(1 for l in case["lines"] if l.startswith("cls ")) >= 2:
        yield "same-name-classes"
    if "items" in m:
        yield "items:%d" % m["items"]
        yield "depth:%d" % m["depth"]
    if any(r.startswith("err") for r in replies):
        yield "reply:" + [r for r in replies if r.startswith("err")][0].replace(" ", ":")
    if case["lines"] and case["lines"][0].startswith("new 1") or any(l.startswith("new 1") for l in case["lines"]):
        yield "no_color"
    if any(r.startswith("ok") and ":U" in r for l, r in zip(case["lines"], replies) if l == "ids"):
        yield "unresolved-at-end"
    descrs = [dec_str(t[2:]) for l in case["lines"] for t in l.split() if t.startswith("s:") and t != "s:-"]
    if any(d.split(":")[0] in _NEAR_MISS_IDS for d in descrs):
        yield "near-miss-id-as-reference"
    if any(" " in d for d in descrs) and case.get("meta", {}).get("kind") not in ("odd-description", "malformed-odd", "malformed-bad"):
        yield "blanks-in-description"
    if any(l.startswith("sub ") for l in case["lines"]):
        yield "sub-palette"
    if any(l.startswith("gread ") for l in case["lines"]):
        yield "kept-get_palette-read" + (":after-global-swap" if case["lines"].count("glob") >= 2 else "")
    ncpal = [l for l in case["lines"] if l.startswith("pal ") and l.endswith(" 1")]
    if ncpal and sum(1 for l in case["lines"] if l.startswith("new ")) > 1:
        yield "nocolor-palette-registration:several-configurations"
    if any(":-" in d or "-/" in d or "/-" in d for d in descrs):
        yield "dash-in-description"
    # falsy colour values (int 0, 'g0', (0,0,0)) in a description that also has a parent
    for d in descrs:
        secs = d.split(":")
        if len(secs) >= 2 and _O_ID.match(secs[0]) and secs[0] not in _O_NAMES:
            cols = secs[1].split("/")
            if any(c in ("0", "g0", "(0,0,0)") for c in cols):
                yield "falsy-colour-with-parent"
                break
    depth = 0
    for l in case["lines"]:
        cur = 0
        for t in l.split():
            if t == "(":
                cur += 1
                depth = max(depth, cur)
            elif t == ")":
                cur -= 1
    if depth >= 2:
        yield "nested-dict-depth:%d" % (depth - 1 if depth <= 6 else 6)
        yield from _group_tags(case["lines"])
    lines = case["lines"]
    seen = {}
    for l, r in zip(lines, replies):
        if l.startswith("pal ") and l.endswith(" 0") and r.startswith("ok"):
            if l in seen and seen[l] != r:
                yield "palette-obtained-twice:changed"
                break
            if l in seen:
                yield "palette-obtained-twice:same"
                break
            seen[l] = r
    nnew = sum(1 for l in lines if l.startswith("new "))
    if nnew > 1:
        yield "configurations:%d" % nnew
        target, glob_i, former, seen_reg = None, None, set(), False
        nconf = -1
        for l in lines:
            if l.startswith("new "):
                nconf += 1
                target = nconf
            elif l.startswith("use "):
                target = int(l.split()[1])
            elif l == "glob":
                if glob_i is not None and glob_i != target:
                    former.add(glob_i)
                glob_i = target
                former.discard(target)
            elif l.startswith(("add ", "reg ", "pal ")) and target in former and not seen_reg:
                seen_reg = True
                yield "registration-into-former-global"
        if len(set(i for i in [glob_i] if i is not None) | former) > 1:
            yield "global-replaced"
    if "glob" in lines:
        first = lines.index("glob")
        pre = len(set(l for l in lines[:first] if l.startswith("syn ")))
        yield "synced-before-glob:%s" % (pre if pre < 2 else ">=2")
        if any(r == "err AssertionError" for l, r in zip(lines, replies) if l == "glob"):
            yield "glob-reentrant-assert"
        if any("78,79,87,72,69,82,69,46,90,58" in l or l.endswith("s:78,79,87,72,69,82,69,46,90 )") for l in lines[first:]
               if l.startswith(("add ", "reg "))):
            yield "pending-only-batch-on-global" + (":coloured-TEXT" if any("84,69,88,84 s:" in l and "84,69,88,84 s:-" not in l
                                                                             for l in lines if l.startswith("new ")) else "")


RULE = ("acyclic description sets of 1-6 (thorough: 2-8) ids, chains of depth <= 4 through own, built-in and unknown ids, flat and "
        "nested dictionaries, ids below an id that is described itself (a built-in syntax or an id of the set), so that the nested "
        "spelling has a group called like a syntax - in the constructor, in components and in palette-class defaults, the "
        "syntax itself being built-in, explicit or registered elsewhere (tags group-named-like-id:*); every permutation of sets of <= 4 items (sampled above), random split between the constructor and "
        "1-3 later registrations (add_new_items / register_color_conf_component / palette class defaults), queries after every "
        "registration; shadowed ids; palette classes with parent palettes; the configuration made the global one with synced "
        "palettes created before and after, batches of pending items only under a coloured default syntax; 2-3 configurations "
        "taking turns as the global one with registrations into former global ones; distinct palette "
        "classes sharing one name; palette classes registered through no_color palettes in several configurations; results of "
        "get_palette() kept across swaps of the global configuration; compound palettes handing out sub-palettes before/after registrations and under several "
        "configurations; the blank spelling of descriptions (blanks around colour tokens, rgb components, listed modifiers); "
        "reference chains of 10-1500 (thorough 3000) links pending at once; make_report at the end of "
        "every history; malformed/unusual descriptions and cycles. "
        "non-trivial = at least one later registration and either an error reply or a coloured answer; distinct by protocol text")
TRUSTED = ["ColorFmt (C09) renders the expected (fg, bg, effects) triple in the oracle",
           "the per-case adapter: fresh ColorsConfig and fresh Palette classes for every case"]
NOCOLOR_COMPOUND_NOTE = ("observation (not judged): CompoundPalette(conf, no_color=True) is one object per class (_PALETTE_NO_COLOR) "
                         "that keeps the configuration it was first built for; get_sub_palette on it, when reached through another "
                         "configuration, registers the sub-palette class's SYNTAX_DEFAULTS in the FIRST configuration, not in the one "
                         "the caller passed (colours are unaffected: all no-colour). Input: cls 4+; new; new; pal 4 1; use 0; sub 4 2 1; rep")
ASSUMPTIONS = ["order independence (order_indep, and the oracle's re-registration in three other orders) is claimed only for sets "
               "whose ids are pairwise distinct and distinct from the BUILT_IN_CONFIG ids, registered without palette creation. "
               "Otherwise the split is meaningful by design: ColorsConfig({'NUMBER':'RED','X':'NUMBER:bold'}) makes X red+bold, "
               "ColorsConfig({'X':'NUMBER:bold'}) + add_new_items({'NUMBER':'RED'}) makes X yellow+bold, because the built-in "
               "NUMBER was registered first. That IS the statement ('items of the explicit configuration always win over defaults "
               "registered later'; among defaults the first registration wins): the final set of descriptions differs between the "
               "two histories, and each formatter is determined by its final set (final_set, explicit_wins, "
               "first_registration_wins, same_set_same_colors hold without these restrictions; the oracle judges such ids "
               "through the final set, or is silent where built-ins/components disagree)",
               "ids equal (exact spelling) to a colour name, a gray/number colour or a modifier name are out of domain; case variants "
               "and other near-misses (red, Magenta, g24, Bold, RED_ …) are ordinary ids and are generated",
               "no-colour sub-palettes of compound palettes are exercised with one configuration only (see NOCOLOR_COMPOUND_NOTE)",
               "descriptions are ASCII; int() and str.strip() are modelled for ASCII input only",
               "after an exception the configuration is not used any more (both sides answer `dead`)"]
LEVEL_TEXT = ("Kernel-checked for every history (any split of the descriptions between the constructor and later add_new_items / "
              "register_color_conf_component / palette-class registrations, any order, palettes created in between, the "
              "configuration made the global one at any point) that does not raise: get_color(id) is exactly the formatter the final "
              "set of descriptions determines through the declarative relation Resolves (own parts override, '' inherits through "
              "the whole chain, '-' = terminal default, chain through an unknown or pending id = uncoloured, unknown id = default "
              "syntax) [resolve_spec, resolve_entries, resolve_fn, resolve_spec_global, closed_form: first non-empty colour slot "
              "along the chain]; the final set is first-registration-wins over explicit configuration, built-ins, later "
              "registrations [final_set, explicit_wins, first_registration_wins]; two states with the same final set give every id "
              "the same formatter, whatever the histories [same_set_same_colors]; permuting / re-batching the registrations changes "
              "no formatter for histories WITHOUT palette creation whose ids are pairwise distinct AND distinct from the "
              "BUILT_IN_CONFIG ids [order_indep: hypotheses hnd, hp1/hp2] - for an id that is also built-in (or offered twice) the "
              "split does matter, by design: explicit configuration > built-ins > first later registration (see ASSUMPTIONS); uncoloured until the chain is complete, then fixed for "
              "ever [unknown_then_known]; a palette obtained twice differs in an accessor only if its id was not settled the first "
              "time, and for a described id with an incomplete chain exactly when the registrations in between complete the chain "
              "to a visible effect [palette_twice, palette_after_palette, palette_unchanged: C10's late_resolution characterised]; "
              "no_color configurations and no_color palettes are effect-free [nocolor]; a palette obtained at any time equals "
              "get_color of its syntax ids in the current state, cached or not, also when handed out as a sub-palette of a compound "
              "palette [cache_fresh, sub_palette_fresh]; synced palettes of the global "
              "configuration show get_color of their ids in the CURRENT state after every registration, resolved or not, nested "
              "re-syncs included [synced_fresh, synced_pending_uncoloured]; every palette class is a component of its own, identified "
              "by the class and not by its name: registered implies all its defaults described [registered_class_described]; with "
              "several configurations taking turns as the global one the synced palettes show the configuration that is the global "
              "one NOW, and a registration into any other configuration (a former global one included) touches neither them nor "
              "the global index nor other configurations [synced_follow_current_global, non_global_registration_inert; "
              "single_conf_same ties the one-configuration theorems to what the driver executes]; after any case with any number of "
              "configurations a no_color palette request P_k(conf_i, no_color=True) registers the class in configuration i and "
              "leaves all its defaults described there, whatever the shared per-class no-colour palette already holds from "
              "another configuration [nocolor_palette_registers, stated over runM/stepM]; the kept results of conf.get_palette() "
              "are part of the state the driver executes (KWorld.kept, ops gpal/gread of stepK): no operation changes a kept entry, "
              "an operation leaves every configuration it is not aimed at untouched, and reading a kept palette answers with the "
              "accessor attributes as built and get_color(id) of the configuration it was obtained from - the global index does "
              "not enter the answer [kept_palette_own_configuration, kept_entries_fixed]; a case depends on a (nested) dictionary only through "
              "its flattened form and behaves exactly as with the flat spelling of the same items [nested_same_as_flat]; a built-in "
              "syntax that is not an id of the flattened explicit configuration keeps its built-in description in every case, in "
              "particular when the explicit configuration has a GROUP called like it [builtin_kept, group_named_like_builtin]. "
              "No exception and no fuel exhaustion on an explicit decidable domain: valid descriptions with an acyclic final set "
              "for histories without palettes [no_error, no_error_add, parsed_colors_accepted]; with palette classes, the global "
              "configuration and synced palettes when the class table is well-founded, all offered descriptions are valid with an "
              "acyclic union of references, and no class with defaults below a synced class has an ancestor with defaults "
              "[no_error_global, no_error_pal; Ctx/OpsOK, computable test ctxb]; outside that domain the re-entrant registration "
              "provably never returns normally [setGlobal_reentrant_raises]. Model = code (parser, ColorFmt prefix, resolution "
              "loop, caches, make_report, global re-sync) is established by the differential run only.")
LEVEL_NOTE = ("Trusted: Lean kernel (axioms propext, Classical.choice, Quot.sound), translator and adapter in harness/c14.py, sampled "
              "correspondence. Not proved: an exact iff for set_global_colors_config raising (proved: never on the SyncSafe domain, "
              "always for the direct shape 'first synced class K with defaults, single parent P with defaults offering a new id'; "
              "no_error_* are stated for one configuration per case; "
              "in between the outcome depends on the order in which the nested re-syncs meet the classes; the model reproduces the "
              "AssertionError and the oracle does not judge that shape, see SYNCED_PARENT_FINDING). The configuration that is the "
              "global one before the first `glob` of a case is outside the model (its colours are never read). Tables (_COLORS, "
              "_COLORS_NAMES, _MODIFIERS, effect codes, BUILT_IN_CONFIG, DFLT_SYNTAX_ID) are regenerated from the source on every "
              "run; thresholds 255 / 5 / 24 are fixed in the model and probed at their boundaries by the odd-description stream.")
TECHNIQUE = "Lean 4 theorems (invariant of the incremental resolution loop) + translator for the tables + correspondence check"
