"""C15 — SQL filters select exactly the intended rows; values are always bound (ak/mtd_sql.py)."""
import ast
import datetime
import os
import re
import sqlite3
import warnings

from harness.core import enc_str, dec_str

PROPERTY = "C15"
READY = True
THEOREMS = ["C15.clauses_ok", "C15.consts_ok", "C15.option_keys", "C15.only_rejections", "C15.selects_eval", "C15.selects",
            "C15.placeholders", "C15.placeholders_in_order", "C15.groups_parenthesised", "C15.values_only_bound", "C15.noninterference", "C15.none_ignored",
            "C15.kwargs_order", "C15.in_semantics", "C15.returns_exactly", "C15.value_order",
            "C15.bound_values_are_callers", "C15.order_text_verbatim", "C15.order_keys_opaque", "C15.satisfied_iff", "C15.methods"]

# sqlite3's own adapters for date / datetime are deprecated since Python 3.12 and still the default behaviour
warnings.filterwarnings("ignore", r"The default (date|datetime) adapter is deprecated", DeprecationWarning)


# ------------------------------------------------------------------ translator
def _lean_str(s):
    if not isinstance(s, str) or not all(32 <= ord(c) < 127 and c not in '"\\' for c in s):
        raise ValueError("constant %r is not a plain printable ASCII string" % (s,))
    return '"%s".toList' % s


def _consts_in_order(node):
    cs = [n for n in ast.walk(node) if isinstance(n, ast.Constant) and isinstance(n.value, str)]
    cs.sort(key=lambda n: (n.lineno, n.col_offset))
    return [n.value for n in cs]


def _find_class(tree, name):
    for n in tree.body:
        if isinstance(n, ast.ClassDef) and n.name == name:
            return n
    raise ValueError("class %s not found" % name)


def _find_method(cls, name):
    for n in cls.body:
        if isinstance(n, ast.FunctionDef) and n.name == name:
            return n
    raise ValueError("method %s.%s not found" % (cls.name, name))


def _join_receiver(node):
    """the string constant S of the (single) call `S.join(...)` inside node"""
    found = [n.func.value.value for n in ast.walk(node)
             if isinstance(n, ast.Call) and isinstance(n.func, ast.Attribute) and n.func.attr == "join"
             and isinstance(n.func.value, ast.Constant) and isinstance(n.func.value.value, str)]
    if len(found) != 1:
        raise ValueError("expected exactly one '<sep>'.join(...) call, found %d" % len(found))
    return found[0]


def translate(repo):
    src = open(os.path.join(repo, "ak", "mtd_sql.py")).read()
    tree = ast.parse(src)
    # --- SqlFilterCondition: placeholder kinds and the clause tables
    base = _find_class(tree, "SqlFilterCondition")
    kinds, tables = {}, None
    for n in base.body:
        if isinstance(n, ast.Assign) and len(n.targets) == 1:
            t = n.targets[0]
            if isinstance(t, ast.Tuple) and all(isinstance(e, ast.Name) for e in t.elts):
                vals = ast.literal_eval(n.value)
                for e, v in zip(t.elts, vals):
                    kinds[e.id] = v
            elif isinstance(t, ast.Name) and isinstance(n.value, ast.Constant) and t.id.startswith("PLACEHOLDER_TYPE"):
                kinds[t.id] = n.value.value
            elif isinstance(t, ast.Name) and t.id == "_SQL_CLAUSES":
                if not isinstance(n.value, ast.Dict):
                    raise ValueError("_SQL_CLAUSES is not a dict literal")
                tables = {}
                for k, v in zip(n.value.keys, n.value.values):
                    if not isinstance(k, ast.Name) or k.id not in kinds:
                        raise ValueError("_SQL_CLAUSES key is not a placeholder kind name")
                    tab = ast.literal_eval(v)
                    if not isinstance(tab, dict) or not all(isinstance(a, str) and isinstance(b, str) for a, b in tab.items()):
                        raise ValueError("_SQL_CLAUSES[%s] is not a str->str dict literal" % k.id)
                    tables[k.id] = tab
    if tables is None or set(tables) != {"PLACEHOLDER_TYPE_QUESTION", "PLACEHOLDER_TYPE_PERCENT_S"}:
        raise ValueError("_SQL_CLAUSES does not define exactly the two known placeholder kinds")
    if kinds["PLACEHOLDER_TYPE_QUESTION"] == kinds["PLACEHOLDER_TYPE_PERCENT_S"]:
        raise ValueError("the two placeholder kinds have the same value")
    # --- SqlFieldValCondition.make_text_update_values: empty IN / NOT IN, "(", ", ", ")"
    fv = _find_method(_find_class(tree, "SqlFieldValCondition"), "make_text_update_values")
    empties = [n for n in ast.walk(fv) if isinstance(n, ast.IfExp)
               and isinstance(n.body, ast.Constant) and isinstance(n.orelse, ast.Constant)
               and isinstance(n.test, ast.Compare) and len(n.test.ops) == 1 and isinstance(n.test.ops[0], ast.Eq)
               and isinstance(n.test.comparators[0], ast.Constant)]
    if len(empties) != 1 or empties[0].test.comparators[0].value not in ("IN", "NOT IN"):
        raise ValueError("empty-list special case `X if self.op == 'IN' else Y` not found")
    e = empties[0]
    empty_in, empty_not_in = e.body.value, e.orelse.value
    if e.test.comparators[0].value == "NOT IN":
        empty_in, empty_not_in = empty_not_in, empty_in
    lists = [n for n in ast.walk(fv) if isinstance(n, ast.Assign)
             and any(isinstance(c, ast.Call) and isinstance(c.func, ast.Attribute) and c.func.attr == "join"
                     for c in ast.walk(n.value))]
    if len(lists) != 1:
        raise ValueError("the IN-list assignment (with a .join call) not found")
    cs = _consts_in_order(lists[0].value)
    if len(cs) != 4 or cs[2] != "PLACEHOLDER" or _join_receiver(lists[0].value) != cs[1]:
        raise ValueError("IN-list text is not  field + clause + '(' + SEP.join(PLACEHOLDER ...) + ')'")
    list_open, list_sep, _, list_close = cs
    # --- static condition: `self.op = " " + op + " "` in SqlFieldValCondition.__init__
    init = _find_method(_find_class(tree, "SqlFieldValCondition"), "__init__")
    wraps = [n.value for n in ast.walk(init) if isinstance(n, ast.Assign) and isinstance(n.value, ast.BinOp)
             and isinstance(n.value.op, ast.Add) and isinstance(n.value.right, ast.Constant)
             and isinstance(n.value.left, ast.BinOp) and isinstance(n.value.left.op, ast.Add)
             and isinstance(n.value.left.left, ast.Constant) and isinstance(n.value.left.right, ast.Name)]
    if len(wraps) != 1 or wraps[0].left.right.id != "op":
        raise ValueError("static condition text is not  CONST + op + CONST")
    raw_open, raw_close = wraps[0].left.left.value, wraps[0].right.value
    # --- SqlOrCondition.make_text_update_values
    om = _find_method(_find_class(tree, "SqlOrCondition"), "make_text_update_values")
    rets = [n.value.value for n in ast.walk(om) if isinstance(n, ast.Return) and isinstance(n.value, ast.Constant)
            and isinstance(n.value.value, str)]
    opens = [n.value.value for n in ast.walk(om) if isinstance(n, ast.Assign) and isinstance(n.value, ast.Constant)
             and isinstance(n.value.value, str)]
    closes = [n.value.value for n in ast.walk(om) if isinstance(n, ast.AugAssign) and isinstance(n.op, ast.Add)
              and isinstance(n.value, ast.Constant) and isinstance(n.value.value, str)]
    if len(rets) != 1 or len(opens) != 1 or len(closes) != 1:
        raise ValueError("SqlOrCondition text is not  'X' if empty else '(' + SEP.join(...) + ')'")
    or_sep = _join_receiver(om)
    # --- SqlMethod._execute: WHERE / AND / GROUP BY / ORDER BY, flavour detection
    ex = _find_method(_find_class(tree, "SqlMethod"), "_execute")
    augs = [n for n in ast.walk(ex) if isinstance(n, ast.AugAssign) and isinstance(n.op, ast.Add)
            and isinstance(n.target, ast.Name) and n.target.id == "sql"]
    augs.sort(key=lambda n: n.lineno)
    if len(augs) != 3:
        raise ValueError("_execute does not extend `sql` exactly three times (WHERE, GROUP BY, ORDER BY)")
    heads = []
    for a in augs:
        c = _consts_in_order(a.value)
        if not c or not (isinstance(a.value, ast.BinOp) and isinstance(a.value.left, ast.Constant)):
            raise ValueError("`sql += ...` does not start with a string constant")
        heads.append(c)
    if len(heads[0]) != 2 or _join_receiver(augs[0].value) != heads[0][1] or len(heads[1]) != 1 or len(heads[2]) != 1:
        raise ValueError("unexpected shape of the WHERE / GROUP BY / ORDER BY assembly")
    where_pfx, and_sep = heads[0]
    group_pfx, order_pfx = heads[1][0], heads[2][0]
    marks = [n for n in ast.walk(ex) if isinstance(n, ast.If) and isinstance(n.test, ast.Compare)
             and len(n.test.ops) == 1 and isinstance(n.test.ops[0], ast.In) and isinstance(n.test.left, ast.Constant)]
    if len(marks) != 1:
        raise ValueError("flavour detection `if '<marker>' in conn_type_name` not found")

    def _kind(stmts):
        if len(stmts) == 1 and isinstance(stmts[0], ast.Assign) and isinstance(stmts[0].value, ast.Attribute) \
                and stmts[0].value.attr in kinds:
            return stmts[0].value.attr
        raise ValueError("flavour branch is not a single assignment of a placeholder kind")
    if _kind(marks[0].body) != "PLACEHOLDER_TYPE_PERCENT_S" or _kind(marks[0].orelse) != "PLACEHOLDER_TYPE_QUESTION":
        raise ValueError("flavour detection does not map the marker to %s-placeholders and everything else to ?")
    marker = marks[0].test.left.value
    # --- the keyword arguments that are options, not filters: exactly the constant-keyed kwargs.pop(...) calls
    pops, other_kw_uses = {}, 0
    for n in ast.walk(ex):
        if isinstance(n, ast.Call) and isinstance(n.func, ast.Attribute) and isinstance(n.func.value, ast.Name) \
                and n.func.value.id == "kwargs" and n.func.attr in ("pop", "popitem", "clear", "update", "setdefault",
                                                                    "__delitem__", "__setitem__"):
            if n.func.attr == "pop" and len(n.args) == 2 and isinstance(n.args[0], ast.Constant) \
                    and isinstance(n.args[0].value, str) and isinstance(n.args[1], ast.Attribute):
                pops[n.args[1].attr] = n.args[0].value
            else:
                other_kw_uses += 1
        if isinstance(n, (ast.Delete, ast.Assign, ast.AugAssign)):
            tg = n.targets if isinstance(n, (ast.Delete, ast.Assign)) else [n.target]
            for t in tg:
                if isinstance(t, ast.Subscript) and isinstance(t.value, ast.Name) and t.value.id == "kwargs":
                    other_kw_uses += 1
                if isinstance(t, ast.Name) and t.id == "kwargs":
                    other_kw_uses += 1
    if other_kw_uses or set(pops) != {"default_order_by", "default_as_scalars"}:
        raise ValueError("_execute does not take exactly two options out of kwargs by constant-keyed kwargs.pop "
                         "(found %r, %d other modification(s) of kwargs)" % (pops, other_kw_uses))

    def table(name):
        return "[" + ",\n   ".join("(%s, %s)" % (_lean_str(k), _lean_str(v)) for k, v in tables[name].items()) + "]"
    out = [
        "-- GENERATED by harness/c15.py:translate from /repo/ak/mtd_sql.py -- do not edit",
        "namespace Gen.C15",
        "/-- `_SQL_CLAUSES[PLACEHOLDER_TYPE_QUESTION]` (sqlite and everything that is not mysql.connector) -/",
        "def clausesQ : List (List Char × List Char) :=\n  %s" % table("PLACEHOLDER_TYPE_QUESTION"),
        "/-- `_SQL_CLAUSES[PLACEHOLDER_TYPE_PERCENT_S]` -/",
        "def clausesP : List (List Char × List Char) :=\n  %s" % table("PLACEHOLDER_TYPE_PERCENT_S"),
        "/-- text of `field IN <empty>` / `field NOT IN <empty>` -/",
        "def emptyIn : List Char := %s" % _lean_str(empty_in),
        "def emptyNotIn : List Char := %s" % _lean_str(empty_not_in),
        "/-- `field IN (?, ?)`: opening, separator, closing -/",
        "def listOpen : List Char := %s" % _lean_str(list_open),
        "def listSep : List Char := %s" % _lean_str(list_sep),
        "def listClose : List Char := %s" % _lean_str(list_close),
        "/-- OR group: text of the empty group, opening, separator, closing -/",
        "def emptyOr : List Char := %s" % _lean_str(rets[0]),
        "def orOpen : List Char := %s" % _lean_str(opens[0]),
        "def orSep : List Char := %s" % _lean_str(or_sep),
        "def orClose : List Char := %s" % _lean_str(closes[0]),
        "/-- a static condition (plain string) is emitted between these -/",
        "def rawOpen : List Char := %s" % _lean_str(raw_open),
        "def rawClose : List Char := %s" % _lean_str(raw_close),
        "/-- statement assembly -/",
        "def wherePfx : List Char := %s" % _lean_str(where_pfx),
        "def andSep : List Char := %s" % _lean_str(and_sep),
        "def groupPfx : List Char := %s" % _lean_str(group_pfx),
        "def orderPfx : List Char := %s" % _lean_str(order_pfx),
        "/-- the two keyword arguments that `_execute` takes out of kwargs (every other one is a filter) -/",
        "def orderKey : List Char := %s" % _lean_str(pops["default_order_by"]),
        "def scalarsKey : List Char := %s" % _lean_str(pops["default_as_scalars"]),
        "/-- a connection whose type name contains this gets %s-placeholders -/",
        "def mysqlMarker : List Char := %s" % _lean_str(marker),
        "end Gen.C15", ""]
    return {"AkVerif/Gen/C15.lean": "\n".join(out)}


# ------------------------------------------------------------------ protocol (see lean/Drv/C15.lean)
# python-side structures (JSON-free, rebuilt from the lines):
#   value : None | int | str | bytes | an object that the driver adapts itself (datetime, date, _Conf, _Reg)
#   arg   : ("S", value) | ("L", [value]) | ("Z", [value])          (Z: a set, listed in its iteration order)
#   cond  : ("T", field, op, arg) | ("P", field, arg) | ("A", k, field, arg) | ("B", k) | ("O", [cond], [(name, arg)])
#   call  : {"args": [cond | None], "kw": [(name, arg)]}
#   scen  : {"v", "pct", "from", "group", "dorder" / "corder": ORDER BY as [(key, desc)], "call"} (+ "method", "rows" on
#           ids lines); a key is a column or any other SQL expression of the caller

class _Obj:
    """an operand of a user class that is neither int, str nor bytes"""

    def __init__(self, text):
        self.text = text

    def __eq__(self, other):
        return type(other) is type(self) and other.text == self.text

    def __hash__(self):
        return hash((type(self).__name__, self.text))

    def __repr__(self):
        return "%s(%r)" % (type(self).__name__, self.text)


class _Conf(_Obj):
    """sqlite3 asks the object itself (`__conform__`) what to write"""

    def __conform__(self, protocol):
        if protocol is sqlite3.PrepareProtocol:
            return self.text


class _Reg(_Obj):
    """an adapter for the class is registered at the driver"""


sqlite3.register_adapter(_Reg, lambda o: o.text)
_OBJ_CLASSES = ["datetime", "date", "conform", "registered-adapter"]


def _obj_cls(v):
    """which kind of adapted object v is (None: a plain value / something else)"""
    if isinstance(v, datetime.datetime):
        return 0
    if isinstance(v, datetime.date):
        return 1
    if type(v) is _Conf:
        return 2
    if type(v) is _Reg:
        return 3
    return None


def _db(v):
    """what the driver (sqlite3) writes for a value: its own, documented adaptation of date / datetime
    (isoformat, a blank between date and time), the object's / the registered adapter's answer; bytes-likes are
    one BLOB; any other value goes as it is"""
    if v is None or type(v) in (int, str, bytes):
        return v
    k = _obj_cls(v)
    if k == 0:
        return v.isoformat(" ")
    if k == 1:
        return v.isoformat()
    if k is not None:
        return v.text
    return bytes(v) if isinstance(v, (bytearray, memoryview)) else v


def _mk_obj(k, img):
    if k == 0:
        return datetime.datetime.fromisoformat(img)
    if k == 1:
        return datetime.date.fromisoformat(img)
    return (_Conf, _Reg)[k - 2](img)


def _enc_value(v):
    if v is None:
        return "N"
    if type(v) is int:
        return "I%d" % v
    k = _obj_cls(v)
    if k is not None:
        return "D%d:%s" % (k, enc_str(_db(v)))
    if isinstance(v, int):
        return "I%d" % v
    if isinstance(v, (bytes, bytearray, memoryview)):
        return "X" + (",".join(str(b) for b in bytes(v)) or "-")
    return "T" + enc_str(v)


def _enc_arg(a):
    if a[0] == "S":
        return ["S", _enc_value(a[1])]
    return [a[0], str(len(a[1]))] + [_enc_value(v) for v in a[1]]


def _enc_kw(kw):
    out = [str(len(kw))]
    for k, a in kw:
        out += [enc_str(k)] + _enc_arg(a)
    return out


def _enc_cond(c):
    t = c[0]
    if t == "T":
        return ["T", enc_str(c[1]), enc_str(c[2])] + _enc_arg(c[3])
    if t == "P":
        return ["P", enc_str(c[1])] + _enc_arg(c[2])
    if t == "A":
        return ["A", str(c[1]), enc_str(c[2])] + _enc_arg(c[3])
    if t == "B":
        return ["B", str(c[1])]
    if t == "R":
        return ["R", enc_str(c[1])]
    out = ["O", str(len(c[1]))]
    for x in c[1]:
        out += _enc_cond(x)
    return out + _enc_kw(c[2])


def _enc_call(call):
    out = [str(len(call["args"]))]
    for x in call["args"]:
        out += ["~"] if x is None else _enc_cond(x)
    return out + _enc_kw(call["kw"])


def _enc_order(o):
    out = [str(len(o))]
    for col, desc in o:
        out += [enc_str(col), "1" if desc else "0"]
    return out


def cols_of(s):
    """column expressions of the table as the conditions write them (id first)"""
    return [s["pfx"] + n for n in ["id"] + list(s["names"])]


def eff_order(s):
    """the ORDER BY in effect: `_order_by` of the call (None cancels the default), else the default"""
    c = s["corder"]
    if c is None:
        return s["dorder"]
    return c[1] if c[0] == "S" else None


def _enc_scen(s):
    out = [str(s["v"]), str(s["pct"]), enc_str(s["from"]), "~" if s["group"] is None else enc_str(s["group"])]
    out += ["~"] if s["dorder"] is None else _enc_order(s["dorder"])
    c = s["corder"]
    out += ["~"] if c is None else (["V", _enc_value(c[1])] if c[0] == "V" else ["S"] + _enc_order(c[1]))
    out += ["~" if s["scal"] is None else str(int(s["scal"]))]
    out += [enc_str(s["pfx"]), str(len(s["names"]))] + [enc_str(n) for n in s["names"]]
    return out + _enc_call(s["call"])


def statics_of(call):
    """the static condition texts of a call, in order of first appearance"""
    out = []

    def walk(c):
        if c is None:
            return
        if c[0] == "R" and c[1] not in out:
            out.append(c[1])
        elif c[0] == "O":
            for x in c[1]:
                walk(x)
    for c in call["args"]:
        walk(c)
    return out


def _alias_of(pfx):
    return "" if pfx in ("", "t.") else " AS " + pfx[:-1]


def order_exprs(s):
    """the keys of the ORDER BY in effect that are not plain columns of the table: expressions written by the caller"""
    cols = cols_of(s)
    out = []
    for k, _ in (eff_order(s) or []):
        if k not in cols and k not in out:
            out.append(k)
    return out


def atoms_of(s):
    """the caller's own SQL expressions whose value per row is data for the model and the oracle: the static
    condition texts, then the ORDER BY keys that are not columns"""
    out = statics_of(s["call"])
    return out + [k for k in order_exprs(s) if k not in out]


def static_values(s, atoms):
    """what SQLite computes for each static condition text / ORDER BY key expression on each row (data supplied to
    the model and to the oracle: the text is the caller's own SQL)"""
    if not atoms or not s["rows"]:
        return [[] for _ in s["rows"]]
    conn = sqlite3.connect(":memory:")
    try:
        conn.execute("CREATE TABLE t(id INTEGER PRIMARY KEY, %s)" % ", ".join(s["names"]))
        conn.executemany("INSERT INTO t VALUES (%s)" % ",".join("?" * (len(s["names"]) + 1)),
                         [tuple(r) for r in s["rows"]])
        sql = "SELECT %s FROM t%s ORDER BY %sid" % (", ".join("(%s)" % a for a in atoms),
                                                    _alias_of(s["pfx"]), s["pfx"])
        got = [list(r) for r in conn.execute(sql)]
    finally:
        conn.close()
    order = sorted(range(len(s["rows"])), key=lambda i: s["rows"][i][0])
    out = [None] * len(s["rows"])
    for pos, i in enumerate(order):
        out[i] = got[pos]
    return out


def enc_line(cmd, s):
    out = [cmd] + _enc_scen(s)
    if cmd == "ids":
        atoms = atoms_of(s)
        vals = static_values(s, atoms)
        out += [s["method"], str(len(atoms))] + [enc_str(a) for a in atoms] + [str(len(s["rows"]))]
        for r, av in zip(s["rows"], vals):
            out += [_enc_value(v) for v in list(r) + list(av)]
    return " ".join(out)


class _Toks:
    def __init__(self, toks):
        self.t, self.i = toks, 0

    def next(self):
        self.i += 1
        return self.t[self.i - 1]

    def peek(self):
        return self.t[self.i]

    def done(self):
        return self.i == len(self.t)


def _dec_value(t):
    if t == "N":
        return None
    if t[0] == "I":
        return int(t[1:])
    if t[0] == "X":
        return b"" if t == "X-" else bytes(int(x) for x in t[1:].split(","))
    if t[0] == "D":
        k, img = t[1:].split(":")
        v = _mk_obj(int(k), dec_str(img))
        assert _db(v) == dec_str(img), "image does not round-trip"
        return v
    assert t[0] == "T"
    return dec_str(t[1:])


def _dec_arg(ts):
    k = ts.next()
    if k == "S":
        return ("S", _dec_value(ts.next()))
    n = int(ts.next())
    return (k, [_dec_value(ts.next()) for _ in range(n)])


def _dec_kw(ts):
    n = int(ts.next())
    out = []
    for _ in range(n):
        k = dec_str(ts.next())
        out.append((k, _dec_arg(ts)))
    return out


def _dec_cond(ts):
    t = ts.next()
    if t == "T":
        f, op = dec_str(ts.next()), dec_str(ts.next())
        return ("T", f, op, _dec_arg(ts))
    if t == "P":
        f = dec_str(ts.next())
        return ("P", f, _dec_arg(ts))
    if t == "A":
        k, f = int(ts.next()), dec_str(ts.next())
        return ("A", k, f, _dec_arg(ts))
    if t == "B":
        return ("B", int(ts.next()))
    if t == "R":
        return ("R", dec_str(ts.next()))
    assert t == "O", t
    n = int(ts.next())
    cs = [_dec_cond(ts) for _ in range(n)]
    return ("O", cs, _dec_kw(ts))


def _dec_order(ts):
    n = int(ts.next())
    return [(dec_str(ts.next()), ts.next() == "1") for _ in range(n)]


def dec_line(line):
    ts = _Toks(line.split())
    cmd = ts.next()
    s = {"v": int(ts.next()), "pct": int(ts.next()), "from": dec_str(ts.next())}
    g = ts.next()
    s["group"] = None if g == "~" else dec_str(g)
    if ts.peek() == "~":
        ts.next()
        s["dorder"] = None
    else:
        s["dorder"] = _dec_order(ts)
    t = ts.next()
    s["corder"] = None if t == "~" else (("V", _dec_value(ts.next())) if t == "V" else ("S", _dec_order(ts)))
    t = ts.next()
    s["scal"] = None if t == "~" else int(t)
    s["pfx"] = dec_str(ts.next())
    s["names"] = [dec_str(ts.next()) for _ in range(int(ts.next()))]
    n = int(ts.next())
    args = []
    for _ in range(n):
        if ts.peek() == "~":
            ts.next()
            args.append(None)
        else:
            args.append(_dec_cond(ts))
    s["call"] = {"args": args, "kw": _dec_kw(ts)}
    if cmd == "ids":
        s["method"] = ts.next()
        atoms = [dec_str(ts.next()) for _ in range(int(ts.next()))]
        nr = int(ts.next())
        nc = len(s["names"]) + 1
        full = [[_dec_value(ts.next()) for _ in range(nc + len(atoms))] for _ in range(nr)]
        s["rows"] = [r[:nc] for r in full]
        s["statics"] = [dict(zip(atoms, r[nc:])) for r in full]
    assert ts.done(), "trailing tokens"
    return cmd, s


# ------------------------------------------------------------------ real code
def _mods():
    from ak import mtd_sql, mcaller_sql
    return mtd_sql, mcaller_sql


class _OSet(set):
    """a set that iterates in a given order (only used when the interpreter's hash order differs from the
    order written in the protocol line, i.e. when a replay runs without PYTHONHASHSEED=0)"""

    def __init__(self, items):
        super().__init__(items)
        self._order = list(items)

    def __iter__(self):
        return iter(self._order)


_BAD_OPS = [None, 5, 2.5, ("=",)]
_BAD_SHAPES = [(), ("a",), ("a", "=", 1, 2), 7, {"a": 1}, 3.5, ("a", "=", 1, None, None)]


def _py_bytes(b, v):
    """a BLOB value as the caller may hold it: bytes, bytearray or memoryview"""
    k = (v + len(b)) % 3
    return b if k == 0 else (bytearray(b) if k == 1 else memoryview(b))


def _py_arg(a, v):
    if a[0] == "S":
        return _py_bytes(a[1], v) if isinstance(a[1], bytes) else a[1]
    if a[0] == "L":
        vals = [_py_bytes(x, v) if isinstance(x, bytes) else x for x in a[1]]
        return tuple(vals) if (v >> 3) & 1 else vals
    s = set(a[1])
    return s if list(s) == list(a[1]) else _OSet(a[1])


def _py_cond(c, v, inner=False):
    mtd_sql, _ = _mods()
    t = c[0]
    if t == "T":
        tup = (c[1], c[2], _py_arg(c[3], v))
    elif t == "P":
        tup = (c[1], _py_arg(c[2], v))
    elif t == "A":
        tup = (c[2], _BAD_OPS[c[1] % len(_BAD_OPS)], _py_arg(c[3], v))
    elif t == "R":
        return c[1]
    elif t == "B":
        if inner and c[1] % 8 == 7:
            return None                      # None is ignored only at top level
        return _BAD_SHAPES[c[1] % len(_BAD_SHAPES)]
    else:
        ops = [_py_cond(x, v, True) for x in c[1]]
        kw = {k: _py_arg(a, v) for k, a in c[2]}
        return mtd_sql.SqlMethod._or(*ops, **kw) if (v >> 5) & 1 else mtd_sql.SqlOrCondition(*ops, **kw)
    if (v >> 4) & 1:
        tup = list(tup)
    elif (v >> 6) & 1 and t in ("T", "P"):
        return mtd_sql.SqlFilterCondition.make(tup)     # a ready-made condition object
    return tup


class _RecCursor:
    def __init__(self, cur, log):
        self._cur, self._log = cur, log

    def execute(self, sql, params=()):
        self._log.append((sql, list(params)))
        return self._cur.execute(sql, params)

    @property
    def description(self):
        return self._cur.description

    def __iter__(self):
        return iter(self._cur)

    def close(self):
        self._cur.close()


class _RecConn:
    """what SqlMethod sees: an object with cursor(); records the arguments of cursor.execute"""

    def __init__(self, conn):
        self._conn, self.log = conn, []

    def cursor(self):
        return _RecCursor(self._conn.cursor(), self.log)


class _NullCursor:
    def __init__(self, names):
        self.description = tuple((n.strip('"'), None, None, None, None, None, None) for n in ["id"] + list(names))

    def execute(self, sql, params=()):
        for p in params:                 # same refusal as sqlite3 (the model has one binding rule for both flavours)
            if not _is_scalar(p):
                raise sqlite3.ProgrammingError("type '%s' is not supported" % type(p).__name__)
        return self

    def __iter__(self):
        return iter(())

    def close(self):
        pass


class _MysqlLikeConn:
    """str(type(conn)) contains 'mysql.connector': SqlMethod switches to %s placeholders. Nothing is executed."""

    def __init__(self, names):
        self.log, self._names = [], names

    def cursor(self):
        return _RecCursor(_NullCursor(self._names), self.log)


_MysqlLikeConn.__module__ = "mysql.connector.connection"

def _open_db(names, rows):
    conn = sqlite3.connect(":memory:")
    conn.execute("CREATE TABLE t(id INTEGER PRIMARY KEY, %s)" % ", ".join(names))     # the other columns: no affinity
    if rows:
        conn.executemany("INSERT INTO t VALUES (%s)" % ",".join("?" * (len(names) + 1)), rows)
    return conn


def caller_texts(s):
    """every piece of SQL text the caller wrote himself: SELECT..FROM, GROUP BY, the ORDER BY in effect, the column
    expressions of the conditions and keyword filters, the static conditions"""
    out = [s["from"]]
    if s["group"]:
        out.append(s["group"])
    c = s["corder"]
    if c is not None and c[0] == "V":
        if isinstance(c[1], str):
            out.append(c[1])
    else:
        out += [col for col, _ in (eff_order(s) or [])]

    def walk(c):
        if c is None or c[0] == "B":
            return
        if c[0] == "R":
            out.append(c[1])
        elif c[0] in ("T", "P"):
            out.append(c[1])
        elif c[0] == "A":
            out.append(c[2])
        else:
            for x in c[1]:
                walk(x)
            out.extend(k for k, _ in c[2])
    for c in s["call"]["args"]:
        walk(c)
    out.extend(k for k, _ in s["call"]["kw"])
    return out


def pct_safe(s):
    """the caller's texts are fit for a %s-style connector: every percent sign is written doubled"""
    return all("%" not in t.replace("%%", "") for t in caller_texts(s))


def _order_text(o):
    return ", ".join(c + (" DESC" if d else "") for c, d in o)


def _execute(s, rows=None, method="list", cache=None):
    """runs the real code; returns (result, log) or raises what the real code raises.
    cache: SqlMethod objects of the case so far - the lines of one case reuse one object (its record type is
    initialised by the first call; later calls must not depend on that)"""
    mtd_sql, mcaller_sql = _mods()
    v = s["v"]
    call = s["call"]
    args = [None if c is None else _py_cond(c, v) for c in call["args"]]
    kw = {k: _py_arg(a, v) for k, a in call["kw"]}
    if s["pct"]:
        conn, raw = _MysqlLikeConn(s["names"]), None
    else:
        raw = _open_db(s["names"], rows or [])
        conn = _RecConn(raw)
    try:
        ctor = {}
        if s["group"] is not None:
            ctor["group_by"] = s["group"]
        if s["dorder"] is not None:
            ctor["order_by"] = _order_text(s["dorder"])
        if s["corder"] is not None:
            kw["_order_by"] = s["corder"][1] if s["corder"][0] == "V" else _order_text(s["corder"][1])
        if (v >> 8) & 1:
            ctor["as_scalars"] = bool(v & 1)
        if s["scal"] is not None:
            kw["_as_scalars"] = bool(s["scal"]) if (v >> 1) & 1 else s["scal"]
        scalars = bool(s["scal"]) if s["scal"] is not None else bool(ctor.get("as_scalars", False))
        key = (s["from"], tuple(sorted(ctor.items())))
        plain = list(s["names"]) == ["a", "b", "c"]            # SqlMethodT builds a table format from the field names
        use_t = (v >> 9) & 1 and plain and "group_by" not in ctor and (
            method == "tone_or_none" or (not scalars and "as_scalars" not in ctor and method in ("list", "one")))
        if method == "tone_or_none" and not use_t:
            method = "one_or_none_as_list"
        if cache is not None and key in cache and not use_t:
            m = cache[key]
        else:
            m = mtd_sql.SqlMethod(s["from"], **ctor)
            if cache is not None and not use_t:
                cache[key] = m

        def ident(rec):
            return rec if scalars else rec[0]
        if use_t:
            kw.pop("_as_scalars", None)
            m.default_as_scalars = False
            mt = mcaller_sql.SqlMethodT(m)
            if method == "list":
                res = [r[0] for r in mt.list(conn, *args, **kw).r]
            elif method == "one":
                res = [r[0] for r in mt.one(conn, *args, **kw).r]
            else:
                res = [r[0] for r in mt.one_or_none(conn, *args, **kw).r]
        elif method == "list":
            if (v >> 2) & 1:
                res = [ident(r) for r in m.all(conn, *args, **kw)]
            else:
                res = [ident(r) for r in m.list(conn, *args, **kw)]
        elif method == "one":
            res = [ident(m.one(conn, *args, **kw))]
        elif method == "one_or_none":
            r = m.one_or_none(conn, *args, **kw)
            res = None if r is None else [ident(r)]
        elif method == "one_or_none_as_list":                  # SqlMethodT.one_or_none's contract on a plain SqlMethod
            r = m.one_or_none(conn, *args, **kw)
            res = [] if r is None else [ident(r)]
        else:
            raise AssertionError("unknown method " + method)
        return res, conn.log
    finally:
        if raw is not None:
            raw.close()


def _err(e):
    return "err " + type(e).__name__


def _run_line(cmd, s, cache=None):
    try:
        res, log = _execute(s, [tuple(r) for r in s.get("rows", [])], s.get("method", "list"), cache)
    except Exception as e:
        return _err(e)
    if cmd in ("sql", "params"):
        if len(log) != 1:
            return "crash %d statements executed" % len(log)
        sql, params = log[0]
        if cmd == "sql":                      # the number of placeholder marks in the text (C15.placeholders), when
            mark = "%" if s["pct"] else "?"   # the caller's own texts carry none
            n = "-" if any(mark in t for t in caller_texts(s)) else str(sql.count(mark))
            return "ok %s %s" % (n, enc_str(sql))
        return " ".join(["ok"] + [_enc_value(p) if _is_scalar(p)
                                  else "X" + type(p).__name__ for p in params])
    if res is None:
        return "ok none"
    if eff_order(s) is None:
        res = sorted(res)
    return " ".join(["ok"] + [str(i) for i in res])


def impl(case):
    out, cache = [], {}
    for line in case["lines"]:
        try:
            cmd, s = dec_line(line)
        except Exception:
            out.append("bad-op")
            continue
        out.append(_run_line(cmd, s, cache))
    return out


# ------------------------------------------------------------------ oracle: the property itself
# Independent of the Lean model: the caller's intent is evaluated directly, row by row, with SQL's
# three-valued logic and SQLite's comparison rules for untyped columns.
_CMP = ("=", "!=", "<", ">", "<=", ">=")


def _is_scalar(v):
    """a value that the driver binds as one parameter"""
    return v is None or type(v) in (int, str, bytes) or _obj_cls(v) is not None or (
        isinstance(v, (int, str, bytes, bytearray, memoryview)) and not isinstance(v, bool))


def _leaf_ok(op, a):
    """is (field, op, value) a filter the statement of the property speaks about"""
    if not op.isascii():
        return False
    op = op.upper()
    kind, val = a[0], a[1]
    if op in ("=", "!="):
        return kind in ("S", "L")                  # '=' with a set: out of domain
    if op in ("<", ">", "<=", ">="):
        return kind == "S"
    if op in ("IN", "NOT IN"):
        return kind in ("L", "Z")
    if op in ("IS NULL", "IS NOT NULL"):
        return kind == "S" and val is None
    if op in ("LIKE", "NOT LIKE"):
        return kind == "S" and isinstance(val, str)
    return False


def _cond_ok(c):
    if c[0] == "R":
        return True
    if c[0] == "T":
        return _leaf_ok(c[2], c[3])
    if c[0] == "P":
        return _leaf_ok("=", c[2])
    if c[0] == "O":
        return all(_cond_ok(x) for x in c[1]) and all(_leaf_ok("=", a) for _, a in c[2])
    return False


def _call_ok(call):
    return all(c is None or _cond_ok(c) for c in call["args"]) and all(_leaf_ok("=", a) for _, a in call["kw"])


def _static_atomic(text):
    """no OR outside parentheses: the text means the same with and without parentheses around it"""
    depth = 0
    for tok in text.replace("(", " ( ").replace(")", " ) ").split():
        if tok == "(":
            depth += 1
        elif tok == ")":
            depth -= 1
        elif depth == 0 and tok.upper() == "OR":
            return False
    return True


def _scen_ok(s):
    """a call the statement speaks about: well-formed conditions, `_order_by` absent, None or a text. A static
    condition is the caller's own SQL and is AND-ed as it stands at top level (only OR groups are parenthesised):
    a top-level static text with a bare OR next to other conditions is the caller's precedence, not a filter tree."""
    c = s["corder"]
    call = s["call"]
    n = len([x for x in call["args"] if x is not None]) + len(call["kw"])
    for x in call["args"]:
        if x is not None and x[0] == "R" and n > 1 and not _static_atomic(x[1]):
            return False
    return _call_ok(call) and (c is None or c[0] == "S" or c[1] is None)


def _norm_blob(v):
    """the value as the database sees it (an adapted object: the driver's image of it)"""
    return _db(v)


def _storage_class(v):
    return 2 if isinstance(v, str) else (3 if isinstance(v, bytes) else 1)


def _sql_cmp(op, x, y):
    if x is None or y is None:
        return None
    x, y = _norm_blob(x), _norm_blob(y)
    tx, ty = _storage_class(x), _storage_class(y)
    if tx != ty:
        lt = tx < ty                               # numbers sort before texts, texts before blobs
        eq = False
    else:
        lt, eq = x < y, x == y
    return {"=": eq, "!=": not eq, "<": lt, ">": not lt and not eq, "<=": lt or eq, ">=": not lt}[op]


def _or3(vals):
    if any(v is True for v in vals):
        return True
    if any(v is None for v in vals):
        return None
    return False


def _not3(v):
    return None if v is None else not v


def _lower_ascii(c):
    return c.lower() if "A" <= c <= "Z" else c


def _like(pat, s):
    """SQLite's LIKE without ESCAPE: dynamic programming over (pattern position, text position)"""
    n, m = len(pat), len(s)
    ok = [[False] * (m + 1) for _ in range(n + 1)]
    ok[n][m] = True
    for i in range(n - 1, -1, -1):
        for j in range(m, -1, -1):
            p = pat[i]
            if p == "%":
                ok[i][j] = ok[i + 1][j] or (j < m and ok[i][j + 1])
            elif j < m and (p == "_" or _lower_ascii(p) == _lower_ascii(s[j])):
                ok[i][j] = ok[i + 1][j + 1]
    return ok[0][0]


def _leaf_val(row, f, op, a):
    x = row[f]
    op = op.upper()
    val = a[1]
    if op in ("=", "!=") and a[0] == "S" and val is None:
        op = "IS NULL" if op == "=" else "IS NOT NULL"
    if op in ("=", "!=") and a[0] == "L":
        op = "IN" if op == "=" else "NOT IN"
    if op in _CMP:
        return _sql_cmp(op, x, val)
    if op in ("IN", "NOT IN"):
        r = _or3([_sql_cmp("=", x, y) for y in val])
        return r if op == "IN" else _not3(r)
    if op == "IS NULL":
        return x is None
    if op == "IS NOT NULL":
        return x is not None
    if isinstance(x, (bytes, bytearray, memoryview)):
        r = False                  # SQLite built with LIKE_DOESNT_MATCH_BLOBS: a BLOB never matches
        return r if op == "LIKE" else not r
    if x is None:
        return None
    r = _like(val, x if isinstance(x, str) else str(x))
    return r if op == "LIKE" else not r


def _cond_val(row, c):
    if c[0] == "R":                       # the caller's own SQL: its value on the row as SQLite computes it
        v = row[("static", c[1])]
        return None if v is None else v != 0
    if c[0] == "T":
        return _leaf_val(row, c[1], c[2], c[3])
    if c[0] == "P":
        return _leaf_val(row, c[1], "=", c[2])
    return _or3([_cond_val(row, x) for x in c[1]] + [_leaf_val(row, k, "=", a) for k, a in c[2]])


def _selected(s):
    cols = cols_of(s)
    order = eff_order(s)
    rows = [dict(zip(cols, r)) for r in s["rows"]]
    for r, st in zip(rows, s.get("statics") or [{} for _ in rows]):
        for text, v in st.items():
            r[("static", text)] = v
    call = s["call"]
    conds = [c for c in call["args"] if c is not None] + [("P", k, a) for k, a in call["kw"]]
    out = [r for r in rows if all(_cond_val(r, c) is True for c in conds)]
    if order is not None:
        def key(col):
            def f(r):
                v = r[col]
                return (0, 0) if v is None else (_storage_class(v), v)
            return f
        for col, desc in reversed(order):      # a key that is no column: the caller's expression, its value is supplied
            out.sort(key=key(col if col in cols else ("static", col)), reverse=desc)
    return [r[cols[0]] for r in out]


def _leaf_bindings(f, op, a):
    """(field, SQL operator, value) for every value the condition has to bind, in the caller's order"""
    op = op.upper()
    if op in ("IS NULL", "IS NOT NULL") or (op in ("=", "!=") and a[0] == "S" and a[1] is None):
        return []
    if a[0] == "S":
        return [(f, op, a[1])]
    if op in ("=", "!="):
        op = "IN" if op == "=" else "NOT IN"
    return [(f, op, x) for x in a[1]]


def _cond_bindings(c):
    if c[0] == "R":
        return []
    if c[0] == "T":
        return _leaf_bindings(c[1], c[2], c[3])
    if c[0] == "P":
        return _leaf_bindings(c[1], "=", c[2])
    out = []
    for x in c[1]:
        out += _cond_bindings(x)
    for k, a in c[2]:
        out += _leaf_bindings(k, "=", a)
    return out


def _call_bindings(call):
    out = []
    for c in call["args"]:
        if c is not None:
            out += _cond_bindings(c)
    for k, a in call["kw"]:
        out += _leaf_bindings(k, "=", a)
    return out


def _same_values(bindings, params):
    """the bound values are exactly the caller's values (as a multiset; the order is checked by _aligned)"""
    def key(v):                    # compared as the driver writes them: an object of another class by its image
        v = _norm_blob(v)
        return (type(v).__name__, repr(v))
    return sorted(key(v) for _, _, v in bindings) == sorted(key(v) for v in params)


def _aligned(sql, ph, bindings, params):
    """Reads the text: the k-th placeholder stands behind some `field operator`; the k-th bound value must be a
    value the caller gave for that field with that operator. `bindings` carry unique marker values."""
    fields = set(f for f, _, _ in bindings)
    where = {}
    for f, op, v in bindings:                       # markers are unique, None (kept as None) may repeat
        v = _norm_blob(v)
        where.setdefault((type(v).__name__, v), set()).add((f, op))
    toks = _mask_literals(sql).replace("(", " ").replace(")", " ").replace(",", " ").split()
    cur_f, cur_op, seen_ph, slots = None, [], False, []
    for t in toks:
        if t in fields:
            cur_f, cur_op, seen_ph = t, [], False
        elif t == ph:
            slots.append((cur_f, " ".join(cur_op)))
            seen_ph = True
        elif not seen_ph:
            cur_op.append(t)
    if len(slots) != len(params):
        return "%d placeholder(s) read in the text, %d value(s) bound" % (len(slots), len(params))
    for k, (slot, v) in enumerate(zip(slots, params)):
        v = _norm_blob(v)
        if slot not in where.get((type(v).__name__, v), ()):
            return "placeholder %d stands behind %r but is bound to the value given for %r" % (
                k + 1, slot, where.get((type(v).__name__, v)))
    return None


def _mask_literals(sql):
    """the statement with the inside of '...' literals and of -- comments blanked out"""
    out, i, L = [], 0, len(sql)
    while i < L:
        ch = sql[i]
        if ch == "'":
            j = sql.find("'", i + 1)
            while j != -1 and sql[j + 1:j + 2] == "'":
                j = sql.find("'", j + 2)
            j = L - 1 if j == -1 else j
            out.append("'" + "_" * (j - i - 1) + "'")
            i = j + 1
        elif sql.startswith("--", i):
            j = sql.find("\n", i)
            j = L if j == -1 else j
            out.append(" " * (j - i))
            i = j
        else:
            out.append(ch)
            i += 1
    return "".join(out)


def _count_marks(sql, pct):
    """placeholders as the database layer counts them. `?` style (sqlite): a ? outside of '...' literals, "..."
    identifiers and -- comments. %s style (mysql.connector formats the whole statement): every %s, %% being an
    escaped percent sign."""
    if pct:
        return sql.replace("%%", "").count("%s")
    n, i, L = 0, 0, len(sql)
    while i < L:
        ch = sql[i]
        if ch in "'\"":
            j = sql.find(ch, i + 1)
            while j != -1 and sql[j + 1:j + 2] == ch:
                j = sql.find(ch, j + 2)
            i = L if j == -1 else j + 1
            continue
        if sql.startswith("--", i):
            j = sql.find("\n", i)
            i = L if j == -1 else j + 1
            continue
        if ch == "?":
            n += 1
        i += 1
    return n


def _mark_call(call):
    """the same call with every value replaced by a fresh marker of the same type (None stays None)"""
    n = [0]

    def mv(v):
        if v is None:
            return None
        n[0] += 1
        k = _obj_cls(v)
        if k == 0:
            return datetime.datetime(1990, 1, 1) + datetime.timedelta(seconds=n[0])
        if k == 1:
            return datetime.date(1990, 1, 1) + datetime.timedelta(days=n[0])
        if k is not None:
            return type(v)("~#mk%d'\";--#~" % n[0])
        if isinstance(v, (bytes, bytearray, memoryview)):
            return b"~#mk%d#~" % n[0]
        return 7700000 + n[0] if isinstance(v, int) else "~#mk%d'\";--#~" % n[0]

    def ma(a):
        return ("S", mv(a[1])) if a[0] == "S" else (a[0], [mv(x) for x in a[1]])

    def mc(c):
        if c is None or c[0] == "R":
            return c
        if c[0] == "T":
            return ("T", c[1], c[2], ma(c[3]))
        if c[0] == "P":
            return ("P", c[1], ma(c[2]))
        return ("O", [mc(x) for x in c[1]], [(k, ma(a)) for k, a in c[2]])
    return {"args": [mc(c) for c in call["args"]], "kw": [(k, ma(a)) for k, a in call["kw"]]}


def _oracle_line(cmd, s, rep):
    if not _scen_ok(s):
        return None                                    # the statement says nothing about rejected input
    desc = "call %r" % (s["call"],)
    if len(desc) > 700:
        desc = desc[:350] + " ... " + desc[-300:]
    if cmd in ("sql", "params"):
        try:
            _, log = _execute(s)
        except Exception as e:
            return "fails: a well-formed filter call raises %s; %s" % (type(e).__name__, desc)
        sql, params = log[0]
        ph = "%s" if s["pct"] else "?"
        nmarks = _count_marks(sql, s["pct"])
        if nmarks != len(params):
            return "placeholders: %d placeholder(s) for %d bound value(s) in %r; %s" % (nmarks, len(params), sql, desc)
        for t in statics_of(s["call"]):
            if " " + t + " " not in sql:
                return "static-text-changed: the static condition %r does not reach the statement as written: %r" % (t, sql)
        # (an ORDER BY key that is an expression is judged by the order of the returned rows, on the ids lines)
        for t in [s["from"]] + ([s["group"]] if s["group"] else []) + [col for col, _ in (eff_order(s) or [])
                                                                         if col in cols_of(s)]:
            if t not in sql:
                return "caller-text-changed: %r is not in the statement %r" % (t, sql)
        if not _same_values(_call_bindings(s["call"]), params):
            return "params: bound values %r are not the caller's values; %s" % (params, desc)
        s2 = dict(s, call=_mark_call(s["call"]))
        try:
            _, log2 = _execute(s2)
        except Exception as e:
            return "fails: the call with other values of the same types raises %s; %s" % (type(e).__name__, desc)
        sql2, params2 = log2[0]
        if sql2 != sql:
            return "text-depends-on-values: %r became %r when only the values changed; %s" % (sql, sql2, desc)
        if "mk" in sql2.replace(s["from"], "") or "77000" in sql2.replace(s["from"], "") or "1990-" in sql2:
            return "value-in-text: a condition value appears in the SQL text %r" % sql2
        b2 = _call_bindings(s2["call"])
        if not _same_values(b2, params2):
            return "params: bound values %r are not the caller's values; %s" % (params2, desc)
        msg = _aligned(sql2, ph, b2, params2)
        if msg is not None:
            return "order: %s in %r; %s" % (msg, sql2, desc)
        return None
    # ids
    want = _selected(s)
    m = s["method"]
    if m == "list":
        exp = " ".join(["ok"] + [str(i) for i in (want if eff_order(s) is not None else sorted(want))])
    elif m == "one":
        exp = "ok %d" % want[0] if len(want) == 1 else "err ValueError"
    elif m == "one_or_none":
        exp = "err ValueError" if len(want) > 1 else ("ok %d" % want[0] if want else "ok none")
    else:
        exp = "err ValueError" if len(want) > 1 else ("ok %d" % want[0] if want else "ok")
    if rep != exp and m == "list" and eff_order(s) is not None and rep.startswith("ok") and not order_total(s):
        # rows that tie under the requested keys may come in any order (never generated; a replay edited by hand)
        got = rep.split()[1:]
        if sorted(got) == sorted(str(i) for i in want):
            pos = {str(r[0]): k for k, r in enumerate(s["rows"])}
            sub = dict(s, rows=[s["rows"][pos[i]] for i in got])
            if [str(i) for i in _selected(dict(sub, call={"args": [], "kw": []}, statics=[s["statics"][pos[i]] for i in got]))] == got:
                return None            # the sequence returned is sorted under the keys (a stable sort leaves it as it is)
    if rep != exp:
        o = eff_order(s)
        return "rows: %s gives '%s', the rows satisfying all conditions%s are '%s'; %s; table %r %r" % (
            m, rep, "" if o is None else " in the order requested by ORDER BY %r" % _order_text(o), exp, desc, cols_of(s),
            s["rows"] if len(str(s["rows"])) < 600 else "(%d rows)" % len(s["rows"]))
    return None


def oracle(case, replies):
    for line, rep in zip(case["lines"], replies):
        cmd, s = dec_line(line)
        msg = _oracle_line(cmd, s, rep)
        if msg is not None:
            return msg if len(msg) < 1500 else msg[:900] + " ... " + msg[-500:]
    return None


# ------------------------------------------------------------------ generators
_INTS = [0, 1, 2, 5, -3, 10, 2 ** 63 - 1, -2 ** 63, 7]
_TEXTS = ["", "a", "A", "ab", "aB", "a%", "a_b", "it's", "x'; DROP TABLE t;--", "%", "_", "b", '"', "?", "1", "5",
          "é", "É", "1 OR 1=1", "NULL", "0", "a b", "?, ?", ") OR (1=1", "-3", "中", "%s", "B", "ba", "a\\b", "\\",
          "C:\\tmp\\x", "100\\%", "a\\_b", "a  b", "a\tb", "a\nb", "x   ", " a", "a ", "a \n b", "\n", "\t", "  ", "why?", "why%s", "a?b", "a%sb", "100%", "100%%", "??"]
_PATTERNS = ["a%", "%", "_", "A_", "%'%", "a\\%", "%b", "_b%", "", "%%", "%_", "5", "-_", "é", "É%", "%?%",
             "__", "a_b", "A\\_B", "%a%b%", "it's", "%;%", "1%", "%0", "_%_", "%S", "%%s", "C:\\tmp\\%", "%\\", "100\\%",
             "a\\b", "\\%", "%\\%%"]
_OPS_CMP = ["=", "!=", "<", ">", "<=", ">="]
# column names of the table besides id: plain, leading underscore, digits / upper case, quoted SQL keywords
# (the code quotes nothing, so a keyword has to be written quoted by the caller; `_order_by` / `_as_scalars` cannot
# be keyword filters and are never column names here)
_NAME_SETS = [("plain", ["a", "b", "c"])] * 5 + [
    ("underscore", ["_deleted", "_rev", "name"]), ("underscore", ["_", "__x", "_1"]), ("underscore", ["_id", "grp", "_order"]),
    ("case-digit", ["A1", "Name", "x_y"]), ("case-digit", ["ID2", "aB", "c9"]),
    ("quoted", ['"order"', '"group"', '"select"']), ("underscore", ["_as", "_order_by_", "_as_scalars2"]),
    # characters that are placeholder marks elsewhere, inside quoted names (both styles / the ? style only)
    ("marks", ['"ok?"', '"why??"', '"n?"']), ("marks", ['"a?b"', '"?"', '"p%%"']), ("marks-percent", ['"a%b"', '"x%s"', '"%"']),
]
_PREFIXES = ["", "", "", "", "t.", "t.", "x.", '"x?".', '"y%%".', '"z%s".']
_BIG_SIZES = [10, 999, 1000, 1001, 2500]


def where_select_texts(pfx, names):
    """hand-written select parts that contain the word WHERE (sub-selects in FROM / JOIN / the column list, a
    literal) and still deliver exactly the rows and columns of t"""
    cols = ", ".join(pfx + n for n in ["id"] + names)
    plain = ", ".join(["id"] + names)
    last = names[-1]
    return [
        "SELECT %s FROM (SELECT %s FROM t WHERE id >= 0) AS t" % (cols, plain),
        "SELECT %s FROM t LEFT JOIN (SELECT id AS jid FROM t WHERE id < 0) AS j ON j.jid = t.id" % cols,
        "SELECT %s, (SELECT z.%s FROM t AS z WHERE z.id = t.id) AS %s FROM t" % (
            ", ".join(pfx + n for n in ["id"] + names[:-1]), last, last),
        "SELECT %s FROM t LEFT JOIN (SELECT 'no where clause' AS w) AS j ON j.w IS NOT NULL" % cols,
        "SELECT %s FROM t JOIN (SELECT 1 AS one WHERE 1) AS j" % cols,
        "select %s from (select * from t where id in (select id from t where 1 = 1)) as t" % cols,
    ]


def _from_text(rng, pfx, names):
    cols = ", ".join(pfx + n for n in ["id"] + names)
    if pfx not in ("", "t."):
        return "SELECT %s FROM t%s" % (cols, _alias_of(pfx))
    if rng is not None and rng.random() < 0.15:
        return rng.choice(where_select_texts(pfx, names))
    r = rng.random() if rng is not None else 1.0
    if r < 0.15:
        return "SELECT * FROM t"
    if r < 0.3:
        return "SELECT %s FROM t " % cols        # trailing blank as in the repo's tests
    return "SELECT %s FROM t" % cols


def mk_scenario(call, rows=(), names=("a", "b", "c"), pfx="", **kw):
    s = {"v": 0, "pct": 0, "from": _from_text(None, pfx, list(names)), "group": None, "dorder": None, "corder": None,
         "scal": None, "pfx": pfx, "names": list(names), "call": call, "rows": [list(r) for r in rows]}
    s.update(kw)
    return s


def _case_op(rng, op):
    r = rng.random()
    if r < 0.7:
        return op
    if r < 0.85:
        return op.lower()
    return "".join(c.lower() if rng.random() < 0.5 else c for c in op)


# the scenario being generated: column expressions, which of them holds integers, cells by column (conditions
# that hit rows)
_CTX = {"fields": ["a", "b", "c"], "intcol": "a", "pool": {}, "names": ["a", "b", "c"]}


def _g_field(rng):
    return rng.choice(_CTX["fields"])


_KW_TEXTS = []


def kw_texts():
    """values that spell an operation, a clause or a fixed piece of the generated SQL (every key and every clause
    of the clause tables, in upper, lower and mixed case): data like any other"""
    if not _KW_TEXTS:          # written out here: the generator must not depend on the shape of the module under test
        base = ["0", "1", "FALSE", "TRUE", "?", "%s", "%%", "NULL", "None", "AND", "OR", "WHERE", "(", ")", "(?)", "= ?", "IS", "NOT",
                "PLACEHOLDER"]
        for k in ("=", "!=", "IN", "NOT IN", "IS NULL", "IS NOT NULL", "LIKE", "NOT LIKE", ">", "<", ">=", "<="):
            tail = "" if k in ("IN", "NOT IN", "IS NULL", "IS NOT NULL") else " ?"
            base += [k, k + tail, " " + k + tail + (" " if "IN" in k else ""), k + tail.replace("?", "%s")]
        seen = []
        for b in base:
            for x in (b, b.lower(), b.title(), b.upper()):
                if x not in seen:
                    seen.append(x)
        _KW_TEXTS.extend(seen)
    return _KW_TEXTS


_BLOBS = [b"", b"ab", b"a", b"\x00", b"\xff\xfe", b"abc", b"ab\x00", b"0", b"b"]
_DT = datetime.datetime
# operands of classes that the driver adapts itself (the module under test documents no value types and must hand
# over whatever object it is given): several objects per class, close to each other in the driver's spelling
_OBJS = [_DT(2024, 1, 2, 3, 4, 5), _DT(2024, 1, 2, 0, 0, 0), _DT(2024, 1, 2, 23, 0, 0), _DT(2024, 1, 3, 0, 0, 0),
         _DT(1999, 12, 31, 23, 59, 59, 999999), _DT(2024, 1, 2, 3, 4, 5, tzinfo=datetime.timezone.utc), _DT(1, 1, 1),
         datetime.date(2024, 1, 2), datetime.date(2024, 1, 3), datetime.date(1999, 12, 31), datetime.date(9999, 12, 31),
         _Conf("ab"), _Conf("2024-01-02"), _Conf("it's"), _Conf("a%"), _Conf(""), _Conf("5"),
         _Reg("ab"), _Reg("x'; DROP TABLE t;--"), _Reg(""), _Reg("2024-01-02 03:04:05"), _Reg("?")]
# cells of tables that such operands are compared with: what the same driver wrote for them, and other spellings
# of the same moment / object that a conversion of the operand might produce instead
_OBJ_NEAR = ["2024-01-02T03:04:05", "2024-01-02T00:00:00", "2024-01-02 03:04", "2024-01-02 03:04:05.000000", "2024-01-03T00:00:00",
             "datetime.datetime(2024, 1, 2, 3, 4, 5)", "2024-01-02 00:00:00", "1999-12-31T23:59:59.999999", "_Conf('ab')",
             "2024-01-02T03:04:05+00:00", "0001-01-01T00:00:00", "2024-01-02T23:00:00", "Mon Jan  2 03:04:05 2024"]
_OBJ_BY_IMAGE = {}
for _o in _OBJS:
    _OBJ_BY_IMAGE.setdefault(_db(_o), []).append(_o)


def _g_value(rng, field, allow_none=True, cell=False):
    """cell: a value stored in the table (None, int, str, bytes), otherwise an operand"""
    r = rng.random()
    if allow_none and r < 0.12:
        return None
    if _CTX.get("blobs") and 0.12 <= r < 0.34:
        return rng.choice(_BLOBS)
    if _CTX.get("objs") and 0.34 <= r < 0.62:
        if cell:
            return rng.choice(_OBJ_NEAR) if rng.random() < 0.35 else _db(rng.choice(_OBJS))
        return rng.choice(_OBJS)
    if r > 0.9:
        return rng.choice(kw_texts())
    pool = _CTX["pool"].get(field)
    if pool and rng.random() < 0.55:
        v = rng.choice(pool)
        if _CTX.get("objs") and not cell and isinstance(v, str) and rng.random() < 0.7:
            near = _OBJ_BY_IMAGE.get(v) or _OBJ_BY_IMAGE.get(v.replace("T", " "))
            if near:                          # an object that the driver spells like (or nearly like) this cell
                return rng.choice(near)
        if v is not None:
            return v
    ints_first = field == _CTX["intcol"]
    pool_first = _INTS if ints_first else _TEXTS
    pool_other = _TEXTS if ints_first else _INTS
    return rng.choice(pool_first if rng.random() < 0.8 else pool_other)


def _g_list(rng, field):
    n = rng.choice([0, 0, 1, 1, 2, 2, 3, 4])
    return [_g_value(rng, field) for _ in range(n)]


def _g_big_list(rng, field, n):
    """n values incl. duplicates, about 40% of the range present, cells of the table, sometimes NULL"""
    vals = [rng.randrange(2 * n) for _ in range(n)]
    for v in _CTX["pool"].get(field, []):
        if v is not None and rng.random() < 0.5:
            vals[rng.randrange(n)] = v
    if rng.random() < 0.3:
        vals[rng.randrange(n)] = None
    return vals


def _g_set(rng, field, vals=None):
    for _ in range(5):
        s = set(_g_list(rng, field) if vals is None else vals)
        order = list(s)
        if list(set(order)) == order or vals is not None:   # the order survives rebuilding the set from the line
            return order                                     # (otherwise the adapter iterates in the written order)
    return []


def _g_bad_leaf(rng):
    """a condition whose construction fails (ValueError / AttributeError)"""
    f = _g_field(rng)
    k = rng.randrange(6)
    if k == 0:
        return ("T", f, rng.choice(["==", "<>", "IS", "BETWEEN", "", "NOT  IN", " =", "= ", "IN ", "NOT", "ISNULL", "~"]),
                ("S", _g_value(rng, f)))
    if k == 1:
        return ("T", f, _case_op(rng, rng.choice(["IN", "NOT IN"])), ("S", _g_value(rng, f)))
    if k == 2:
        a = rng.choice([("S", _g_value(rng, f, False)), ("L", _g_list(rng, f)), ("Z", _g_set(rng, f))])
        return ("T", f, _case_op(rng, rng.choice(["IS NULL", "IS NOT NULL"])), a)
    if k == 3:
        a = rng.choice([("S", rng.choice(_INTS)), ("S", None), ("L", [rng.choice(_PATTERNS)]), ("Z", []),
                        ("S", rng.choice(_OBJS))])                       # LIKE wants a str
        return ("T", f, _case_op(rng, rng.choice(["LIKE", "NOT LIKE"])), a)
    if k == 4:
        return ("A", rng.randrange(50), f, ("S", _g_value(rng, f)))
    return ("B", rng.randrange(56))


def _g_unbindable_leaf(rng):
    """accepted by the constructors, refused by sqlite3 when the parameters are bound"""
    f = _g_field(rng)
    k = rng.randrange(3)
    if k == 0:
        return ("T", f, rng.choice(["=", "!="]), ("Z", _g_set(rng, f)))          # a set is bound as one parameter
    if k == 1:
        return ("T", f, rng.choice(["<", ">", "<=", ">="]), rng.choice([("L", _g_list(rng, f)), ("Z", _g_set(rng, f))]))
    return ("P", f, ("Z", _g_set(rng, f)))


def _g_leaf(rng):
    f = _g_field(rng)
    k = rng.randrange(12)
    if k <= 2:
        return ("T", f, rng.choice(_OPS_CMP), ("S", _g_value(rng, f, False)))
    if k == 3:
        return ("T", f, rng.choice(["=", "!="]), ("S", None))
    if k == 4:
        return ("T", f, _case_op(rng, rng.choice(["IN", "NOT IN"])), ("L", _g_list(rng, f)))
    if k == 5:
        return ("T", f, rng.choice(["=", "!="]), ("L", _g_list(rng, f)))
    if k == 6:
        return ("T", f, _case_op(rng, rng.choice(["IN", "NOT IN"])), ("Z", _g_set(rng, f)))
    if k == 7:
        return ("T", f, _case_op(rng, rng.choice(["IS NULL", "IS NOT NULL"])), ("S", None))
    if k == 8:
        return ("T", f, _case_op(rng, rng.choice(["LIKE", "NOT LIKE"])), ("S", rng.choice(_PATTERNS + _TEXTS[:12])))
    if k == 9:
        return ("P", f, rng.choice([("S", _g_value(rng, f)), ("L", _g_list(rng, f))]))
    if k == 10:
        return ("T", f, rng.choice(["<", ">", "<=", ">="]), ("S", None))            # comparison with NULL: unknown
    return ("T", f, rng.choice(_OPS_CMP), ("S", _g_value(rng, f, False)))


def _g_kw(rng, n):
    out = []
    for f in rng.sample(_CTX["fields"], min(n, len(_CTX["fields"]))):
        if rng.random() < 0.7:
            out.append((f, ("S", _g_value(rng, f))))
        else:
            out.append((f, ("L", _g_list(rng, f))))
    return out


def _g_static(rng, in_group):
    """a static condition: SQL text written by the caller. At top level it is AND-ed as it stands (a text with a
    top-level OR has to be parenthesised by the caller, or wrapped into _or(...)): such texts only inside groups."""
    f = _CTX["fields"]
    pid = f[0][:len(f[0]) - len(_CTX["names"][0])] + "id"
    f1, f2 = rng.sample(f, 2)
    texts = ["%s = %s" % (f1, f2), "%s = %s" % (pid, f1), "%s IS NULL" % f1, "%s < %s" % (f1, pid), "1", "0", "1 = 1",
             "(%s = 1 OR %s IS NULL)" % (f1, f2), "NOT %s = 1" % f1, "%s IN (1, 2, 5)" % f1,
             "%s = 1 AND %s IS NOT NULL" % (f1, f2), "%s IS NOT NULL" % f2, "%s > 1" % pid]
    # white space is part of the caller's SQL: runs of blanks / tab / line feed inside quoted literals are data,
    # a line feed ends a `--` comment
    t1, t2 = f[1], f[2]
    texts += ["%s = 'a  b'" % t1, "%s != 'a  b'" % t2, "%s = 'a\tb'" % t1, "%s = 'a\nb'" % t2, "%s IN ('x   ', 'ab', 'a b')" % t1,
              "%s = 'a b'" % t2, "%s  =\t1" % f1, "%s = 1 -- one\n" % f1, "-- which rows\n %s IS NOT NULL -- these\n" % t1,
              "%s = 'a  b' -- two blanks\n" % t2, "%s >\n  0\n  AND %s < 9" % (pid, pid), "%s LIKE 'a %% b'".replace("%%", "_") % t1]
    # characters that are placeholder marks elsewhere, inside literals of the caller's text
    texts += ["%s = 'why?'" % t1, "%s IN ('why?', 'a?b')" % t2, "%s != '?'" % t1, "%s LIKE '_?b'" % t2, "%s = '??' -- ?\n" % t1,
              "%s = '100%%%%'" % t2, "%s = 'why?' AND %s IS NOT NULL" % (t2, f1)] * 2
    if _CTX.get("percent_ok"):
        texts += ["%s = 'why%%s'" % t1, "%s LIKE 'a%%'" % t2, "%s = '100%%'" % t1, "%s IN ('%%s', '%%')" % t2]
    if in_group:
        texts += ["%s = 'why?' OR %s = 'a?b'" % (t1, t2)]
        texts += ["%s = 'x   ' OR %s = 'a\tb'" % (t1, t2), "%s = 1 -- first\n OR %s = 'a  b' -- second\n" % (f1, t2)]
        texts += ["%s = 1 OR %s IS NULL" % (f1, f2), "%s IS NULL OR %s = 2" % (f1, pid), "%s = 1 OR %s = 3" % (pid, pid),
                  "%s = 0 OR %s = %s" % (f1, f1, f2)] * 2
    return ("R", rng.choice(texts))


def _g_cond(rng, depth=0):
    if depth < 2 and rng.random() < (0.22 if depth == 0 else 0.12):
        n = rng.choice([0, 1, 1, 2, 2, 3])
        cs = [_g_cond(rng, depth + 1) for _ in range(n)]
        kw = _g_kw(rng, rng.choice([0, 0, 0, 1, 2, 3]))
        return ("O", cs, kw)
    if rng.random() < 0.07:
        return _g_static(rng, depth > 0)
    return _g_leaf(rng)


def _insert_somewhere(rng, args, leaf):
    """puts one more condition at top level or into an OR group (in place)"""
    groups = [c for c in args if c is not None and c[0] == "O"]
    if groups and rng.random() < 0.4:
        g = rng.choice(groups)
        inner = [c for c in g[1] if c[0] == "O"]
        if inner and rng.random() < 0.5:
            g = rng.choice(inner)
        g[1].insert(rng.randint(0, len(g[1])), leaf)
    else:
        args.insert(rng.randint(0, len(args)), leaf)


def _g_rows(rng, nmax, gen_cell):
    n = rng.choice([0, 1, 2] + list(range(3, nmax + 1)) * 2)
    ids, cur = [], (-1 if rng.random() < 0.2 else 0)       # the record id (first column, the scalar result) may be 0
    for _ in range(n):
        cur += 1 if rng.random() < 0.8 else 1 + 10 * rng.randrange(1, 3)
        ids.append(cur)
    return [[i] + [gen_cell(k) for k in range(3)] for i in ids]


# an item of an ORDER BY text is any SQL expression, not only a column: unary minus / plus (also set off by blanks
# or parentheses), arithmetic, function calls (with commas of their own), tests, CASE. {c}: a column, {i}: the id
_KEY_EXPRS = ["-{c}", "-{c}", "- {c}", "-  {c}", "+{c}", "-({c})", "(-{c})", "-{i}", "- {i}", "-{c} - {i}", "{i} - {c}", "0 - {c}",
              "ABS({c})", "-ABS({c})", "{c} IS NULL", "{c} IS NOT NULL", "COALESCE({c}, 0)", "COALESCE({c}, -1)", "-COALESCE({c}, {i})",
              "LENGTH({c})", "-LENGTH({c})", "{c} + 0", "{c} * -1", "TYPEOF({c})", "NULLIF({c}, 0)", "MAX({c}, 0)", "MIN({i}, 3)",
              "{c} = 1", "{c} > {i}", "CASE WHEN {c} IS NULL THEN 1 ELSE 0 END", "CASE WHEN {c} < 0 THEN -{c} ELSE {c} END",
              "{i} / 2", "-{i} / 2", "{c} IN (1, 2, 5)", "-\t{c}", "-\n{c}"]


def keys_fit(pfx, names, rows, keys):
    """SQLite computes every key on every row and the values are NULL / integer / text / BLOB (an overflowing
    expression fails or turns REAL: outside the model's values)"""
    s = {"pfx": pfx, "names": list(names), "rows": rows or [[0, None, None, None]]}
    try:
        vals = static_values(s, list(keys))
    except (sqlite3.Error, OverflowError, UnicodeDecodeError):
        return False
    return all(v is None or isinstance(v, (int, str, bytes)) for r in vals for v in r)


def keys_total(pfx, names, rows, keys):
    """no two rows tie under the keys (the id column is unique; other keys: by the values SQLite computes), so the
    requested order determines one sequence"""
    if pfx + "id" in keys or len(rows or []) < 2:
        return True
    try:
        vals = static_values({"pfx": pfx, "names": list(names), "rows": rows}, list(keys))
    except (sqlite3.Error, OverflowError, UnicodeDecodeError):
        return False
    seen = set((tuple((type(v).__name__, v) for v in r)) for r in vals)
    return len(seen) == len(rows)


def order_total(s):
    o = eff_order(s)
    return o is None or keys_total(s["pfx"], s["names"], s.get("rows"), [k for k, _ in o])


def _g_key(rng, pfx, names, rows):
    col = pfx + rng.choice(names)
    if rng.random() < 0.65:
        return col
    for _ in range(4):
        k = rng.choice(_KEY_EXPRS).format(c=col, i=pfx + "id")
        if keys_fit(pfx, names, rows, [k]):
            return k
    return col


def _g_spec(rng, pfx, names, rows=None):
    keys = []
    if rng.random() < 0.6:
        for _ in range(rng.choice([1, 1, 2])):
            k = _g_key(rng, pfx, names, rows)
            if k not in [x for x, _ in keys]:
                keys.append((k, rng.random() < 0.4))
    elif rows is not None and rng.random() < 0.5:       # a single item that is an expression of the unique id
        keys.append((rng.choice(["-{i}", "- {i}", "-({i})", "0 - {i}", "-{i} * 2", "{i} * -1", "+{i}"]).format(i=pfx + "id"),
                     rng.random() < 0.4))
    if keys and rows is not None and rng.random() < 0.6 and keys_total(pfx, names, rows, [k for k, _ in keys]):
        return keys                                     # no ties on this table: the text has no `id` item (maybe one item)
    keys.append((pfx + "id", rng.random() < 0.4))      # the unique id makes the requested order total
    return keys


def _g_orders(rng, pfx, names, rows=None):
    """(default ORDER BY of the method, `_order_by` of the call)"""
    r = rng.random()
    if r < 0.22:
        return None, None
    if r < 0.42:
        return _g_spec(rng, pfx, names, rows), None
    if r < 0.67:
        return None, ("S", _g_spec(rng, pfx, names, rows))
    if r < 0.84:
        return _g_spec(rng, pfx, names, rows), ("S", _g_spec(rng, pfx, names, rows))      # the call overrides the default
    if r < 0.94:
        return _g_spec(rng, pfx, names, rows), ("V", None)                           # _order_by=None cancels the default
    return None, ("V", None)


def _g_scenario(rng, tier, malformed, big=0):
    """malformed: exactly one condition whose construction fails (which exception wins among several depends on
    the evaluation order of the caller's own expression), conditions that sqlite3 refuses to bind, `_order_by`
    that is not a text.  big: one IN / NOT IN / = / != condition over that many values."""
    thorough = tier != "quick"
    kind, names = rng.choice(_NAME_SETS)
    names = list(names)
    pfx = rng.choice(_PREFIXES)
    # a lone % in the caller's texts: only for the ? style (a %s-style caller writes %%)
    _CTX["blobs"] = rng.random() < 0.2          # bytes / bytearray / memoryview values and BLOB cells
    _CTX["objs"] = rng.random() < 0.2           # operands of classes that the driver adapts itself
    _CTX["percent_ok"] = kind == "marks-percent" or pfx == '"z%s".' or rng.random() < 0.3
    fields = [pfx + n for n in names]
    _CTX.update(fields=fields, intcol=fields[0], pool={}, names=names)

    def cell(k):
        if big and k == 0:
            return None if rng.random() < 0.15 else rng.randrange(2 * big)
        return _g_value(rng, fields[k], cell=True)
    rows = _g_rows(rng, 8 if thorough or big else 6, cell)
    _CTX["pool"] = {f: [r[i + 1] for r in rows] for i, f in enumerate(fields)}
    ncond = rng.choice([0, 1, 1, 1, 2, 2, 3] + ([4, 5] if thorough else []))
    if big:
        ncond = rng.choice([0, 0, 1])
    args = [_g_cond(rng) for _ in range(ncond)]
    kw = _g_kw(rng, rng.choice([0, 0, 0, 1, 1, 2, 3]))
    if big:
        f = fields[0]
        vals = _g_big_list(rng, f, big)
        shape = rng.randrange(6)
        neg = rng.random() < 0.6
        if shape == 0:
            leaf = ("T", f, _case_op(rng, "NOT IN" if neg else "IN"), ("L", vals))
        elif shape == 1:
            leaf = ("T", f, "!=" if neg else "=", ("L", vals))
        elif shape == 2:
            leaf = ("T", f, "NOT IN" if neg else "IN", ("Z", _g_set(rng, f, vals)))
        elif shape == 3:
            leaf = ("P", f, ("L", vals))
        elif shape == 4:
            leaf = ("O", [("T", f, "NOT IN" if neg else "IN", ("L", vals)), _g_leaf(rng)], [])
        else:
            leaf = None
            kw = [(k, a) for k, a in kw if k != f] + [(f, ("L", vals))]
        if leaf is not None:
            args.insert(rng.randint(0, len(args)), leaf)
    dorder, corder = _g_orders(rng, pfx, names, rows)
    if malformed:
        r = rng.random()
        if r < 0.4 or r > 0.8:
            for _ in range(rng.choice([1, 1, 2])):
                _insert_somewhere(rng, args, _g_unbindable_leaf(rng))
            if kw and rng.random() < 0.3:
                kw[0] = (kw[0][0], ("Z", _g_set(rng, kw[0][0])))
        if 0.4 <= r < 0.9:
            _insert_somewhere(rng, args, _g_bad_leaf(rng))
        if r >= 0.9 or rng.random() < 0.1:
            corder = ("V", rng.choice([5, 0, -1, _OBJS[0], _OBJS[-1]]))         # " ORDER BY " + 5: TypeError
    for _ in range(rng.choice([0, 0, 0, 1, 2])):
        args.insert(rng.randint(0, len(args)), None)
    group = None
    if rng.random() < 0.06:
        group = pfx + "id"                                                       # one group per row: the same rows
    return {"v": rng.randrange(1024), "pct": 0, "from": _from_text(rng, pfx, names), "group": group, "dorder": dorder,
            "corder": corder, "scal": rng.choice([None, None, 0, 1]), "pfx": pfx, "names": names,
            "call": {"args": args, "kw": kw}, "rows": rows}


def _rename_fields(call, s):
    """the same call on the columns of scenario s (k-th column of its own scenario -> k-th column of s)"""
    own = _CTX["fields"]
    new = [s["pfx"] + n for n in s["names"]]
    m = dict(zip(own, new))

    def rc(c):
        if c is None or c[0] == "B":
            return c
        if c[0] == "R":                   # its text names the columns of the other scenario
            return ("T", new[0], "IS NOT NULL", ("S", None))
        if c[0] == "T":
            return ("T", m.get(c[1], c[1]), c[2], c[3])
        if c[0] == "P":
            return ("P", m.get(c[1], c[1]), c[2])
        if c[0] == "A":
            return ("A", c[1], m.get(c[2], c[2]), c[3])
        return ("O", [rc(x) for x in c[1]], [(m.get(k, k), a) for k, a in c[2]])
    return {"args": [rc(c) for c in call["args"]], "kw": [(m.get(k, k), a) for k, a in call["kw"]]}


def _lines_of(s, rng=None):
    lines = [enc_line("sql", s), enc_line("params", s), enc_line("ids", dict(s, method="list"))]
    extra = ["one", "one_or_none"] + (["tone_or_none"] if s["names"] == ["a", "b", "c"] else [])
    if rng is not None:
        extra = [m for m in extra if rng.random() < 0.4]
    for m in extra:
        lines.append(enc_line("ids", dict(s, method=m)))
    if rng is not None and rng.random() < 0.12 and pct_safe(s):
        # the same SqlMethod object is handed connections of the other placeholder flavour in between
        other = dict(s, pct=1 - s["pct"])
        for _ in range(rng.choice([1, 2, 3])):
            lines.insert(rng.randint(0, len(lines)), enc_line(rng.choice(["sql", "params"]), other))
    return lines


def _mk_case(s, kind, rng=None):
    return {"lines": _lines_of(s, rng), "meta": {"kind": kind}}


def _fixed_scenarios():
    """the shapes named in the statement, one by one, on a table that tells them apart"""
    rows = [[1, 1, "a", None], [2, None, "A%", "it's"], [3, 5, None, "x'; DROP TABLE t;--"], [4, "5", "ab", ""],
            [5, 2, "b", "a_b"], [6, -3, "", "%"]]
    conds = [
        [("T", "a", "=", ("S", 5))], [("T", "a", "!=", ("S", 5))], [("T", "a", "=", ("S", None))], [("T", "a", "!=", ("S", None))],
        [("T", "a", "=", ("L", []))], [("T", "a", "!=", ("L", []))], [("T", "a", "IN", ("L", [])), ("T", "b", "NOT IN", ("Z", []))],
        [("T", "a", "IN", ("L", [1, None]))], [("T", "a", "NOT IN", ("L", [1, None]))], [("T", "a", "not in", ("L", [1, "5"]))],
        [("T", "a", "in", ("Z", [5]))], [("T", "b", "LIKE", ("S", "a%"))], [("T", "b", "NOT LIKE", ("S", "a%"))],
        [("T", "b", "like", ("S", "A\\%"))], [("T", "a", "LIKE", ("S", "5"))], [("T", "c", "=", ("S", "x'; DROP TABLE t;--"))],
        [("T", "c", "IS NULL", ("S", None))], [("T", "c", "is not null", ("S", None))], [("T", "a", "<", ("S", "5"))],
        [("T", "a", ">=", ("S", 2))], [("T", "a", "<", ("S", None))], [("O", [], [])], [("O", [("T", "a", "=", ("S", 1))], [])],
        [("O", [("T", "a", "=", ("S", 1)), ("T", "b", "=", ("S", None))], [("c", ("S", "%")), ("a", ("S", 2))])],
        [("O", [("O", [("P", "a", ("S", 1))], []), ("O", [], [])], []), ("P", "b", ("S", "a"))],
        [("O", [("T", "a", "IN", ("L", [])), ("T", "a", "NOT IN", ("L", [None]))], [])],
        [None, ("P", "a", ("S", 1)), None],
    ]
    for i, cs in enumerate(conds):
        for dorder, corder in ((None, None), ([("id", True)], None), (None, ("S", [("b", False), ("id", False)])),
                               ([("id", True)], ("V", None))):
            for kw in ([], [("c", ("S", None))], [("c", ("S", "%")), ("a", ("L", [-3, 2]))]):
                yield mk_scenario({"args": list(cs), "kw": list(kw)}, rows, v=(i * 37 + len(kw) * 5) % 1024,
                                  dorder=dorder, corder=corder, scal=[None, 0, 1][i % 3])
    # keyword filters on columns whose names look like options, digits, upper case, quoted keywords
    for kind, names in _NAME_SETS[5:]:
        rows2 = [[1, 0, "x", None], [2, 1, "x", "y"], [3, None, "", "y"], [4, 0, None, "Y"]]
        for k in range(3):
            for val in (("S", 0), ("S", None), ("S", "y"), ("L", [0, "x"]), ("L", [])):
                for pfx in ("", "t."):
                    call = {"args": [], "kw": [(pfx + names[k], val)]}
                    yield mk_scenario(call, rows2, names=names, pfx=pfx, v=k * 91 % 1024, scal=[None, 1][k % 2],
                                      corder=[None, ("S", [(pfx + "id", True)])][k % 2])
                    call = {"args": [("O", [], [(pfx + names[k], val), (pfx + names[(k + 1) % 3], ("S", "x"))])],
                            "kw": [(pfx + names[(k + 2) % 3], ("S", "y"))]}
                    yield mk_scenario(call, rows2, names=names, pfx=pfx, v=k * 57 % 1024)


def _keywordish_scenarios():
    """values that spell operations / clauses / fixed text, in every form of a condition, on rows that hold them"""
    texts = kw_texts()
    for i, t in enumerate(texts):
        other = texts[(i * 7 + 3) % len(texts)]
        rows = [[1, t, t, None], [2, None, other, t], [3, t.swapcase(), None, None], [4, 0, t, other], [5, other, "x", "x"]]
        forms = [
            {"args": [("P", "a", ("S", t))], "kw": []},
            {"args": [("T", "a", "=", ("S", t))], "kw": []},
            {"args": [("T", "a", "!=", ("S", t))], "kw": [("c", ("S", None))]},
            {"args": [], "kw": [("a", ("S", t))]},
            {"args": [], "kw": [("b", ("S", t)), ("c", ("S", other))]},
            {"args": [("O", [("P", "a", ("S", t))], [])], "kw": []},
            {"args": [("O", [], [("a", ("S", t))])], "kw": [("b", ("S", t))]},
            {"args": [("O", [("P", "c", ("S", t)), ("T", "a", "=", ("S", other))], [("b", ("S", other))])], "kw": []},
            {"args": [("P", "a", ("L", [t, other]))], "kw": []},
            {"args": [("T", "b", "IN", ("L", [t])), None], "kw": []},
            {"args": [("T", "b", "NOT IN", ("Z", [t]))], "kw": []},
            {"args": [("T", "a", "<=", ("S", t))], "kw": []},
        ]
        if "\x00" not in t:
            forms.append({"args": [("T", "b", "LIKE", ("S", t))], "kw": []})
        for j, call in enumerate(forms):
            yield mk_scenario(call, rows, v=(i * 13 + j * 101) % 1024, scal=[None, 1, 0][j % 3],
                              dorder=[None, [("id", j % 2 == 0)]][j % 2])


def _static_scenarios():
    """static conditions (the caller's own SQL): alone, next to other conditions, as the only / one of several
    operands of OR groups (also nested) - the group must stay one unit under the surrounding AND"""
    rows = [[1, 7, 1, "Chuck"], [2, 7, 2, "x"], [3, 1, 1, "Chuck"], [4, None, 1, "x"], [5, 7, None, None], [6, 1, 3, "Chuck"]]
    rows += [[7, 7, "a  b", "a b"], [8, 1, "a b", "a  b"], [9, 7, "a\tb", "x   "], [10, None, "a\nb", "x"], [11, 7, "x   ", "a\nb"]]
    statics_or = ["a = 7 OR id = 1", "b = 1 OR a IS NULL", "id = 2 OR id = 6", "a = 1 OR b = a", "b = 'x   ' OR c = 'a  b'",
                  "a = 1 -- one\n OR b = 'a\tb' -- tab\n"]
    statics_plain = ["a = b", "id = b", "a IS NULL", "(a = 7 OR id = 3)", "1", "0", "a = 1 AND b = 1",
                     "b = 'a  b'", "c != 'a  b'", "b = 'a\tb'", "b = 'a\nb'", "b IN ('x   ', 'a b')", "c = 'a b'",
                     "a = 7 -- seven\n", "-- rows with b\n b IS NOT NULL -- these\n", "b = 'a  b' -- two blanks\n",
                     "id >\n  2\n  AND id < 11", "a  =\t7"]
    others = [([], [("c", ("S", "Chuck"))]), ([("T", "b", "=", ("S", 1))], []), ([("T", "a", "!=", ("S", 7))], [("c", ("S", "Chuck"))]),
              ([], []), ([("T", "c", "IS NULL", ("S", None))], [])]
    k = 0
    for t in statics_or + statics_plain:
        for extra_args, kw in others:
            groups = [("O", [("R", t)], []), ("O", [("O", [("R", t)], [])], []), ("O", [("R", t), ("T", "b", "=", ("S", 3))], []),
                      ("O", [("R", t)], [("b", ("S", 2))]), ("O", [("O", [("R", t)], []), ("O", [], [])], [])]
            if t in statics_plain:
                groups.append(("R", t))
            for g in groups:
                for args in ([g] + extra_args, extra_args + [g], [None, g] + extra_args):
                    k += 1
                    yield mk_scenario({"args": list(args), "kw": list(kw)}, rows, v=(k * 29) % 1024,
                                      dorder=[None, [("id", True)]][k % 2])


def _entry_point_scenarios():
    """every entry point x record / scalar delivery (constructor default or per call) x 0, 1, 2 selected rows, the
    selected record being one whose first column (the scalar that is delivered) is 0"""
    rows = [[0, 0, "", None], [1, 1, "x", "y"], [2, 0, "x", None], [5, None, "", "y"]]
    calls = [{"args": [], "kw": [("b", ("S", ""))]},                       # rows 0, 5
             {"args": [("T", "a", "=", ("S", 0)), ("T", "b", "=", ("S", ""))], "kw": []},     # row 0
             {"args": [("O", [("T", "c", "IS NULL", ("S", None))], [])], "kw": [("b", ("S", ""))]},   # row 0
             {"args": [("T", "a", "IN", ("Z", [1]))], "kw": []},             # row 1
             {"args": [None, ("T", "b", "LIKE", ("S", "_"))], "kw": [("a", ("S", 0))]},      # row 2
             {"args": [("T", "a", ">", ("S", 5))], "kw": []},               # none
             {"args": [], "kw": []}]                                       # all
    k = 0
    for call in calls:
        for scal in (None, 0, 1):
            for v in (0, 1 << 8, (1 << 8) | 1, 1 << 1, (1 << 8) | 1 | (1 << 2), 1 << 9):
                for dorder in (None, [("id", True)]):
                    k += 1
                    s = mk_scenario(call, rows, v=v, scal=scal, dorder=dorder)
                    yield {"lines": [enc_line("ids", dict(s, method=m)) for m in ("one", "one_or_none", "list", "tone_or_none")],
                           "meta": {"kind": "entry-points"}}


def _marks_scenarios():
    """? and %% (and, for the ? style, % and %s) inside the caller's own texts - literals of static conditions,
    quoted column names, a quoted table alias - next to conditions that bind values, for both placeholder styles"""
    k = 0
    for names, pfx in ((['"ok?"', '"why??"', "n"], ""), (["a", "b", "c"], '"x?".'), (['"a?b"', '"?"', '"p%%"'], "t."),
                       (["a", "b", "c"], ""), (['"a%b"', '"x%s"', "c"], "")):
        f = [pfx + n for n in names]
        rows = [[1, 1, "why?", "a?b"], [2, 1, "why%s", "x"], [3, None, "why?", None], [4, 2, "?", "a?b"]]
        statics = ["%s = 'why?'" % f[1], "%s IN ('why?', '?')" % f[1], "%s != 'a?b'" % f[2], "%s = '100%%%%' OR %s = 'why?'" % (f[2], f[1])]
        if all("%" not in n.replace("%%", "") for n in names):
            styles = (0, 1)
        else:
            styles = (0,)
            statics += ["%s = 'why%%s'" % f[1], "%s LIKE 'why%%'" % f[1]]
        for t in statics:
            raw = ("O", [("R", t)], []) if " OR " in t else ("R", t)
            for call in ({"args": [raw], "kw": []}, {"args": [raw, ("T", f[0], "=", ("S", 1))], "kw": []},
                         {"args": [("T", f[1], "LIKE", ("S", "why%")), raw], "kw": [(f[0], ("L", [1, 2]))]},
                         {"args": [("O", [("R", t), ("T", f[2], "=", ("S", "x"))], [(f[0], ("S", 2))])], "kw": []},
                         {"args": [], "kw": [(f[1], ("S", "why?")), (f[0], ("S", 1))]}):
                for pct in styles:
                    k += 1
                    s = mk_scenario(call, rows, names=names, pfx=pfx, pct=pct, v=(k * 41) % 1024,
                                    dorder=[None, [(pfx + "id", False)]][k % 2])
                    if pct:
                        yield {"lines": [enc_line("sql", s), enc_line("params", s)], "meta": {"kind": "marks-in-caller-text"}}
                    else:
                        yield _mk_case(s, "marks-in-caller-text")


def _where_select_scenarios():
    """the word WHERE inside the hand-written select part, with 0, 1, 2 filters of every kind"""
    rows = [[0, 1, "x", None], [1, 2, "x", "y"], [2, None, "", "y"], [3, 1, None, "where"]]
    calls = [{"args": [], "kw": []}, {"args": [("T", "a", "=", ("S", 1))], "kw": []}, {"args": [], "kw": [("b", ("S", "x"))]},
             {"args": [("T", "a", "IN", ("L", []))], "kw": []}, {"args": [("O", [("T", "a", "=", ("S", 2))], [("c", ("S", "where"))])], "kw": []},
             {"args": [None, ("T", "c", "LIKE", ("S", "WHERE")), ("R", "a = 1")], "kw": [("a", ("L", [1, 2]))]},
             {"args": [("T", "c", "IS NULL", ("S", None))], "kw": [("b", ("S", "x"))]}]
    k = 0
    for pfx in ("", "t."):
        for frm in where_select_texts(pfx, ["a", "b", "c"]):
            for call in calls:
                k += 1
                call2 = _rename_prefix(call, pfx)
                yield mk_scenario(call2, rows, pfx=pfx, v=(k * 53) % 1024, dorder=[None, [(pfx + "id", True)]][k % 2],
                                  **{"from": frm})


def _rename_prefix(call, pfx):
    def rc(c):
        if c is None:
            return c
        if c[0] == "T":
            return ("T", pfx + c[1], c[2], c[3])
        if c[0] == "P":
            return ("P", pfx + c[1], c[2])
        if c[0] == "R":
            return ("R", pfx + c[1])
        return ("O", [rc(x) for x in c[1]], [(pfx + k, a) for k, a in c[2]])
    return {"args": [rc(c) for c in call["args"]], "kw": [(pfx + k, a) for k, a in call["kw"]]}


def _blob_scenarios():
    """bytes-like values (one BLOB each, also the empty one) in every form of a condition, on rows with BLOB cells"""
    rows = [[0, b"ab", b"", None], [1, 97, "ab", b"ab"], [2, b"", b"\x00", 98], [3, None, b"ab", b""], [4, 98, "", "ab"]]
    k = 0
    for val in (b"ab", b"", b"\x00", b"a"):
        for call in ({"args": [("T", "a", "=", ("S", val))], "kw": []}, {"args": [("T", "b", "!=", ("S", val))], "kw": []},
                     {"args": [("P", "c", ("S", val))], "kw": []}, {"args": [], "kw": [("a", ("S", val))]},
                     {"args": [("O", [("P", "a", ("S", val))], [("b", ("S", val))])], "kw": []},
                     {"args": [("T", "a", "IN", ("L", [val, 97, None]))], "kw": []},
                     {"args": [("T", "b", "NOT IN", ("Z", [val]))], "kw": [("c", ("S", None))]},
                     {"args": [("T", "a", "<", ("S", val))], "kw": []}, {"args": [("T", "c", ">=", ("S", val)), None], "kw": []},
                     {"args": [("T", "a", "=", ("L", [val, val]))], "kw": [("b", ("L", [val]))]}):
            for dorder in (None, [("a", False), ("id", True)]):
                k += 1
                yield mk_scenario(call, rows, v=(k * 67) % 1024, dorder=dorder)


def _adapted_scenarios():
    """operands of classes that only the driver knows how to write (datetime, date, an object with __conform__, an
    object of a class with a registered adapter) in every form of a condition, on rows that hold what the same
    driver wrote for such objects and other spellings of the same moment"""
    k = 0
    for j, val in enumerate(_OBJS):
        img = _db(val)
        other = _OBJS[(j * 5 + 3) % len(_OBJS)]
        near = [img.replace(" ", "T"), img[:10], img + ".000000", img.upper(), repr(val)]
        rows = [[0, img, near[0], None], [1, near[0], img, img], [2, None, near[1], near[2]], [3, near[1], None, _db(other)],
                [4, _db(other), near[3], near[0]], [5, 5, near[4], img], [6, img + " ", "", 0]]
        for call in ({"args": [("T", "a", "=", ("S", val))], "kw": []}, {"args": [("T", "b", "!=", ("S", val))], "kw": []},
                     {"args": [("P", "c", ("S", val))], "kw": []}, {"args": [], "kw": [("a", ("S", val))]},
                     {"args": [("O", [("P", "a", ("S", val))], [("b", ("S", val))])], "kw": []},
                     {"args": [("T", "a", "IN", ("L", [val, other]))], "kw": []}, {"args": [("T", "a", "in", ("L", [other, 5, None, val]))], "kw": []},
                     {"args": [("T", "b", "NOT IN", ("Z", [val]))], "kw": [("c", ("S", None))]},
                     {"args": [("T", "b", "NOT IN", ("L", [val, other]))], "kw": []},
                     {"args": [("T", "a", "<", ("S", val))], "kw": []}, {"args": [("T", "c", ">=", ("S", val)), None], "kw": []},
                     {"args": [("T", "b", ">", ("S", val)), ("T", "b", "<=", ("S", other))], "kw": []},
                     {"args": [("T", "a", "=", ("L", [val, val]))], "kw": [("b", ("L", [val]))]},
                     {"args": [("T", "a", "!=", ("L", [val]))], "kw": []}, {"args": [], "kw": [("c", ("L", [other, val]))]}):
            for dorder in (None, [("a", False), ("id", True)]):
                k += 1
                yield mk_scenario(call, rows, v=(k * 67) % 1024, dorder=dorder)


def _order_expr_scenarios():
    """ORDER BY items that are expressions (a leading minus sign is SQL's unary minus, not a direction), as the
    default order and per call, with and without DESC, on columns with NULLs / negative numbers / texts / mixed"""
    tables = [[[1, 7, "James", None], [2, None, "Arnold", 3], [3, 42, "Chuck", "x"], [4, None, "Harry", -3], [5, 1, "Asimov", "10"]],
              [[0, -3, "b", 2], [1, 5, "", 2], [2, 0, "B", None], [3, "5", None, 1], [4, 10, "a", 1], [7, -10, "ab", None]],
              [[1, 1, None, "a"], [2, 1, None, "A"], [3, None, 0, ""], [4, 2, 0, None]],
              # no two rows tie in any column (one NULL each): a one-item ORDER BY text determines the sequence
              [[1, 3, -1, None], [2, None, 5, 2], [3, -2, None, 10], [4, 8, 0, -4], [6, 0, 7, 1]]]
    calls = [{"args": [], "kw": []}, {"args": [("T", "id", ">", ("S", 0))], "kw": []},
             {"args": [("O", [("T", "a", "!=", ("S", None)), ("T", "b", "LIKE", ("S", "a%"))], [])], "kw": []}]
    k = 0
    for rows in tables:
        for tmpl in sorted(set(_KEY_EXPRS)):
            for col in ("a", "b", "c"):
                key = tmpl.format(c=col, i="id")
                if "{c}" not in tmpl and col != "a":
                    continue
                if not keys_fit("", ["a", "b", "c"], rows, [key]):
                    continue
                shapes = ["with-id"] + (["one-item"] if keys_total("", ["a", "b", "c"], rows, [key]) else [])
                for desc in (False, True):
                    for shape in shapes:
                        k += 1
                        spec = [(key, desc)] + ([("id", k % 4 == 0)] if shape == "with-id" else [])
                        if k % 5 == 0 and shape == "with-id":
                            spec.insert(0, ("b" if col != "b" else "a", k % 2 == 0))
                        dorder, corder = [(spec, None), (None, ("S", spec)), ([("id", True)], ("S", spec))][k % 3]
                        yield mk_scenario(calls[k % len(calls)], rows, v=(k * 73) % 1024, dorder=dorder, corder=corder,
                                          scal=[None, 1, 0][k % 3])


def _long_list_scenarios(rng, sizes, per_size):
    for n in sizes:
        for _ in range(per_size):
            yield _g_scenario(rng, "quick", False, big=n)


def gen_cases(rng, tier):
    for s in _fixed_scenarios():
        yield _mk_case(s, "fixed-shapes")
    yield from _entry_point_scenarios()
    yield from _marks_scenarios()
    for s in _where_select_scenarios():
        yield _mk_case(s, "where-in-select-text", rng)
    for s in _blob_scenarios():
        yield _mk_case(s, "blob-values", rng)
    for i, s in enumerate(_adapted_scenarios()):
        if tier != "quick" or i % 2 == rng.randrange(2):
            yield _mk_case(s, "adapted-object-values", rng)
    for i, s in enumerate(_order_expr_scenarios()):
        if tier != "quick" or i % 2 == rng.randrange(2):
            yield _mk_case(s, "order-by-expressions", rng)
    for s in _static_scenarios():
        yield _mk_case(s, "static-conditions", rng)
    for i, s in enumerate(_keywordish_scenarios()):
        if tier != "quick" or i % 3 == rng.randrange(3):
            yield {"lines": [enc_line("params", s), enc_line("ids", dict(s, method="list"))],
                   "meta": {"kind": "values-spelling-sql"}}
    if tier != "quick":                      # exhaustive small scope: every operation x every kind of value
        yield from search_cases(rng, tier)
    for s in _long_list_scenarios(rng, _BIG_SIZES, 8 if tier == "quick" else 60):
        yield _mk_case(s, "long-list", rng)
    n = 6000 if tier == "quick" else 110000
    for i in range(n):
        r = rng.random()
        if r < 0.70:
            yield _mk_case(_g_scenario(rng, tier, False), "valid", rng)
        elif r < 0.82:
            yield _mk_case(_g_scenario(rng, tier, True), "malformed", rng)
        elif r < 0.85:
            # one SqlMethod object, several different calls one after the other (also after a failed one)
            s1 = _g_scenario(rng, tier, rng.random() < 0.25)
            lines = _lines_of(s1, rng)
            for _ in range(rng.choice([1, 2])):
                s2 = _g_scenario(rng, tier, False)
                s2.update({k: s1[k] for k in ("from", "group", "dorder", "pfx", "names", "v", "rows")})
                s2["corder"] = s2["corder"] if s2["corder"] is None or s2["corder"][0] == "V" else \
                    ("S", _g_spec(rng, s1["pfx"], s1["names"], s1["rows"]))
                s2["call"] = _rename_fields(s2["call"], s1)
                lines += _lines_of(s2, rng)
            yield {"lines": lines, "meta": {"kind": "same-method-object"}}
        elif r < 0.93:
            s = _g_scenario(rng, tier, rng.random() < 0.2)
            for _ in range(20):
                if pct_safe(s):
                    break
                s = _g_scenario(rng, tier, False)
            s["pct"] = 1 if pct_safe(s) else 0
            s["group"] = rng.choice([None, None, s["pfx"] + s["names"][0], ""])
            yield {"lines": [enc_line("sql", s), enc_line("params", s)], "meta": {"kind": "percent-s-flavour"}}
        else:
            s = _g_scenario(rng, tier, False)
            s["group"] = rng.choice([s["pfx"] + s["names"][0], "", ", ".join(s["pfx"] + n for n in s["names"][1:]),
                                     s["pfx"] + "id"])
            yield {"lines": [enc_line("sql", s), enc_line("params", s)], "meta": {"kind": "group-by-text"}}


def search_cases(rng, tier):
    """directed search. First long value lists (boundaries of any chunking of IN lists), then keyword filters on
    unusual column names, then every operation x every kind of value on one small table (singly, in an OR group,
    with a keyword filter, between None arguments), then the ordinary stream."""
    for n in (1001, 2500, 1000, 999, 10, 2000, 1500, 3001):
        for op in ("NOT IN", "IN", "!=", "="):
            vals = list(range(0, 2 * n, 2))                      # even numbers; odd ones and NULL are outside
            rows = [[1, 0, "x", None], [2, 1, "x", None], [3, 2 * n - 2, "y", None], [4, 2 * n - 1, "y", None],
                    [5, None, "x", None], [6, n if n % 2 == 0 else n + 1, "z", None], [7, 2 * n + 5, "z", None]]
            leaf = ("T", "a", op, ("L", vals))
            for args, kw in (([leaf], []), ([("O", [leaf, ("T", "b", "=", ("S", "z"))], [])], []),
                             ([leaf], [("b", ("S", "x"))]), ([("T", "a", op, ("Z", vals))] if "IN" in op else [leaf], [])):
                yield _mk_case(mk_scenario({"args": args, "kw": kw}, rows, v=rng.randrange(1024),
                                           dorder=[("id", False)]), "search-long-list")
            yield _mk_case(mk_scenario({"args": [], "kw": [("a", ("L", vals + [None, 1]))]}, rows,
                                       v=rng.randrange(1024)), "search-long-list")
    for s in list(_fixed_scenarios())[-400:]:
        yield _mk_case(s, "search-names")
    for s in _blob_scenarios():
        yield _mk_case(s, "blob-values")
    for s in _adapted_scenarios():
        yield _mk_case(s, "adapted-object-values")
    for s in _order_expr_scenarios():
        yield _mk_case(s, "order-by-expressions")
    for s in _where_select_scenarios():
        yield _mk_case(s, "where-in-select-text")
    yield from _marks_scenarios()
    yield from _entry_point_scenarios()
    for s in _static_scenarios():
        yield _mk_case(s, "search-static")
    for s in _keywordish_scenarios():
        yield {"lines": [enc_line("params", s), enc_line("ids", dict(s, method="list"))], "meta": {"kind": "search-values-spelling-sql"}}
    rows = [[1, None, None, None], [2, 1, "a", "A"], [3, "1", "a%", ""], [4, 2, "b", "it's"]]
    vals = [("S", None), ("S", 1), ("S", "a"), ("S", "a%"), ("L", []), ("L", [1]), ("L", [None, "a"]), ("Z", []), ("Z", [1])]
    ops = ["=", "!=", "<", ">", "<=", ">=", "IN", "NOT IN", "IS NULL", "IS NOT NULL", "LIKE", "NOT LIKE", "in", "=="]
    for f in ("a", "b", "c"):
        for op in ops:
            for a in vals:
                leaf = ("T", f, op, a)
                for args, kw in (([leaf], []), ([("O", [leaf, ("T", "a", "=", ("S", 2))], [])], []), ([leaf], [("b", ("S", "a"))]),
                                 ([None, leaf, ("P", "c", ("S", ""))], [])):
                    yield _mk_case(mk_scenario({"args": args, "kw": kw}, rows, v=rng.randrange(1024),
                                               dorder=[("id", False)]), "search-op-x-value")
    for f in ("a", "b", "c"):
        for a in vals:
            yield _mk_case(mk_scenario({"args": [], "kw": [(f, a)]}, rows, v=rng.randrange(1024)), "search-kw")


# ------------------------------------------------------------------ shrinking
def _smaller_args(a):
    if a[0] == "S":
        v = a[1]
        if isinstance(v, str) and len(v) > 1:
            yield ("S", v[:len(v) // 2])
            yield ("S", v[1:])
        if isinstance(v, int) and v not in (0, 1):
            yield ("S", 1)
    else:
        n = len(a[1])
        if n > 8:                                    # long lists: halves, then quarters
            for k in (2, 4, 8):
                step = (n + k - 1) // k
                for i in range(0, n, step):
                    yield (a[0], a[1][:i] + a[1][i + step:])
                    yield (a[0], a[1][i:i + step])
            if n > 64:
                return
        for i in range(n):
            yield (a[0], a[1][:i] + a[1][i + 1:])


def _smaller_conds(c):
    if c is None:
        return
    if c[0] == "T":
        for a in _smaller_args(c[3]):
            yield ("T", c[1], c[2], a)
    elif c[0] == "P":
        for a in _smaller_args(c[2]):
            yield ("P", c[1], a)
    elif c[0] == "O":
        for x in c[1]:
            yield x
        for i in range(len(c[1])):
            yield ("O", c[1][:i] + c[1][i + 1:], c[2])
            for y in _smaller_conds(c[1][i]):
                yield ("O", c[1][:i] + [y] + c[1][i + 1:], c[2])
        for i in range(len(c[2])):
            yield ("O", c[1], c[2][:i] + c[2][i + 1:])
            for a2 in _smaller_args(c[2][i][1]):
                yield ("O", c[1], c[2][:i] + [(c[2][i][0], a2)] + c[2][i + 1:])


def shrink(case):
    """smaller cases; a candidate in which two rows tie under the ORDER BY in effect is skipped (the requested order
    would no longer determine one sequence)"""
    for c in _shrink(case):
        try:
            if all(order_total(dec_line(l)[1]) for l in c["lines"] if l.startswith("ids ")):
                yield c
        except Exception:
            continue


def _shrink(case):
    lines = case["lines"]
    if len(lines) > 1:
        for i in range(len(lines)):
            yield {"lines": [lines[i]], "meta": case.get("meta", {})}
        for i in range(len(lines)):          # a failure that needs an earlier call on the same object
            yield {"lines": lines[:i] + lines[i + 1:], "meta": case.get("meta", {})}
        return
    cmd, s = dec_line(lines[0])

    def mk(s2):
        return {"lines": [enc_line(cmd, s2)], "meta": case.get("meta", {})}
    call = s["call"]
    if cmd == "ids":
        for i in range(len(s["rows"])):
            yield mk(dict(s, rows=s["rows"][:i] + s["rows"][i + 1:]))
    for i in range(len(call["args"])):
        yield mk(dict(s, call={"args": call["args"][:i] + call["args"][i + 1:], "kw": call["kw"]}))
    for i in range(len(call["kw"])):
        yield mk(dict(s, call={"args": call["args"], "kw": call["kw"][:i] + call["kw"][i + 1:]}))
    if s["corder"] is not None:
        yield mk(dict(s, corder=None))
        if s["corder"][0] == "S" and len(s["corder"][1]) > 1:
            yield mk(dict(s, corder=("S", s["corder"][1][1:])))
    if s["dorder"] is not None:
        yield mk(dict(s, dorder=None))
        if len(s["dorder"]) > 1:
            yield mk(dict(s, dorder=s["dorder"][1:]))
    if s["scal"] is not None:
        yield mk(dict(s, scal=None))
    if s["group"] is not None:
        yield mk(dict(s, group=None))
    if s["v"]:
        yield mk(dict(s, v=0))
        for b in range(10):
            if s["v"] >> b & 1:
                yield mk(dict(s, v=s["v"] & ~(1 << b)))
    for i, c in enumerate(call["args"]):
        for c2 in _smaller_conds(c):
            yield mk(dict(s, call={"args": call["args"][:i] + [c2] + call["args"][i + 1:], "kw": call["kw"]}))
    for i, (k, a) in enumerate(call["kw"]):
        for a2 in _smaller_args(a):
            yield mk(dict(s, call={"args": call["args"], "kw": call["kw"][:i] + [(k, a2)] + call["kw"][i + 1:]}))
    if cmd == "ids":
        for i, r in enumerate(s["rows"]):
            for j in range(1, len(r)):
                if r[j] is not None:
                    r2 = list(r)
                    r2[j] = None
                    yield mk(dict(s, rows=s["rows"][:i] + [r2] + s["rows"][i + 1:]))


# ------------------------------------------------------------------ evidence
def _leaves(c):
    if c is None:
        return
    if c[0] == "O":
        for x in c[1]:
            yield from _leaves(x)
        for k, a in c[2]:
            yield ("P", k, a)
    else:
        yield c


def nontrivial(case, replies):
    cmd, s = dec_line(case["lines"][0])
    call = s["call"]
    return bool([c for c in call["args"] if c is not None] or call["kw"])


def _size_bucket(n):
    return str(n) if n <= 2 else ("3-9" if n < 10 else ("10-998" if n < 999 else (str(n) if n <= 1001 else ">1001")))


def tags(case, replies):
    yield case.get("meta", {}).get("kind", "?")
    cmd, s = dec_line(case["lines"][0])
    call = s["call"]
    n = len([c for c in call["args"] if c is not None]) + len(call["kw"])
    yield "conditions:%d" % min(n, 4)
    yield "columns:" + dict((tuple(ns), k) for k, ns in _NAME_SETS).get(tuple(s["names"]), "other") + \
        (":qualified" if s["pfx"] else "")
    yield "order:default=%s,call=%s" % ("yes" if s["dorder"] else "no",
                                        "absent" if s["corder"] is None else ("text" if s["corder"][0] == "S" else
                                                                               ("None" if s["corder"][1] is None else "not-a-text")))
    yield "as_scalars:" + ("absent" if s["scal"] is None else str(s["scal"]))
    if s["group"]:
        yield "group-by"
    if " X" in case["lines"][0] or any(" X" in l for l in case["lines"]):
        yield "blob-values-or-cells"
    for k, name in enumerate(_OBJ_CLASSES):
        if any(" D%d:" % k in l for l in case["lines"]):
            yield "operand-class:" + name
    o = eff_order(s)
    if o is not None and s["pfx"] + "id" not in [k for k, _ in o]:
        yield "order-text:%s-without-id" % ("one-item" if len(o) == 1 else "items")
    elif o is not None and len(o) == 1:
        yield "order-text:one-item"
    for key in order_exprs(s):
        yield "order-key:" + ("unary-minus" if key.lstrip("(").startswith("-") else "expression") + \
            (":with-comma" if "," in key else "")
    texts = caller_texts(s)
    if "WHERE" in s["from"].upper():
        yield "select-text-with-WHERE"
    if any("?" in t for t in texts):
        yield "caller-text-with-?:%s-style" % ("%s" if s["pct"] else "?")
    if any("%" in t for t in texts):
        yield "caller-text-with-%%:%s-style" % ("%s" if s["pct"] else "?")
    if len(set(l.split()[2] for l in case["lines"])) > 1:
        yield "flavours-alternate-on-one-object"
    for line, rep in zip(case["lines"], replies):
        if line.startswith("ids ") and " one " in line and rep == "ok 0":
            yield "one:scalar-or-record-with-id-0"
    if any(c is None for c in call["args"]):
        yield "none-argument"
    if call["kw"]:
        yield "kwargs"
    for k, a in call["kw"]:
        bare = k[len(s["pfx"]):]
        if bare.startswith("_"):
            yield "kw-name:underscore"
        elif bare.startswith('"'):
            yield "kw-name:quoted"
        elif bare != bare.lower() or any(ch.isdigit() for ch in bare):
            yield "kw-name:case-digit"
        if a[0] != "S":
            yield "list-size:" + _size_bucket(len(a[1]))
    for c in call["args"]:
        if c is not None and c[0] == "O":
            yield "or-group:%d" % min(len(c[1]) + len(c[2]), 3)
        for l in _leaves(c):
            if l[0] == "T":
                op = l[2].upper()
                a = l[3]
                yield "op:" + op
                if a[0] != "S":
                    yield "%s:%s" % ("in-list" if op in ("IN", "NOT IN", "=", "!=") else "list", a[0])
                    yield "list-size:" + _size_bucket(len(a[1]))
                elif a[1] is None and op in ("=", "!="):
                    yield "eq-none"
            elif l[0] == "P" and l[2][0] != "S":
                yield "list-size:" + _size_bucket(len(l[2][1]))
            elif l[0] in ("A", "B"):
                yield "malformed:" + l[0]
            elif l[0] == "R":
                yield "static-condition" + (":with-OR" if " OR " in l[1] and not l[1].startswith("(") else "")
                if "  " in l[1] or "\t" in l[1] or "\n" in l[1]:
                    yield "static-condition:" + ("comment" if "--" in l[1] else "white-space-run")
    for line, rep in zip(case["lines"], replies):
        w = line.split(" ", 1)[0]
        yield "reply:%s:%s" % (w, rep if rep.startswith("err") else rep.split()[0])
        if w == "ids" and rep.startswith("ok"):
            yield "rows-returned:%d" % min(len(rep.split()) - 1, 3)


RULE = ("a case = one scenario: table t(id, 3 columns named plainly / with leading underscores / digits and upper case / as quoted "
        "SQL keywords, optionally written qualified) of 0-6 rows [thorough: 0-8] over NULL/ints/texts; 0-3 [0-5] positional "
        "conditions incl. OR groups nested up to 2 and static (plain string) conditions, None arguments, 0-3 keyword filters; "
        "values incl. every spelling of the clause tables' keys and texts (IS NULL, in, = ?, 0, FALSE, %s ...) in every form of a "
        "condition on rows holding them; bytes-likes; in 20% of the scenarios operands of classes that only the driver adapts "
        "(datetime incl. microseconds / tz, date, an object with __conform__, an object of a class with a registered adapter) "
        "against cells holding the driver's spelling of them and near spellings (T instead of the blank, date only, ...); "
        "default ORDER BY and/or _order_by (text, None, not a text) whose items are columns or - in 35% of the items - SQL "
        "expressions (unary minus/plus with and without blanks / parentheses, arithmetic, ABS/COALESCE/LENGTH/... calls with "
        "commas of their own, IS NULL, CASE; each with and without DESC), with a closing id item or - when no two rows tie - "
        "without it (one-item texts included), _as_scalars; value lists of 0-4 and of 10/999/1000/1001/2500 values (duplicates, NULLs) - asked "
        "as sql / params / ids(list) and some of ids(one | one_or_none | SqlMethodT.one_or_none) on ONE SqlMethod object; 3% "
        "of the cases continue with other calls on the same object; non-trivial = at least one condition or keyword filter; "
        "distinct by protocol text")
TRUSTED = ["sqlite3 / SQLite 3.40.1 (evaluation of the generated statement; refusal to bind list/tuple/set; its adaptation of "
           "datetime / date (isoformat, blank separator), of objects with __conform__ and of classes with a registered adapter; "
           "the value it computes per row for a static condition text / an ORDER BY key expression)",
           "str.upper on ASCII operator names", "CPython set iteration order (PYTHONHASHSEED=0 set by ./check)"]
ASSUMPTIONS = ["SQLite evaluates the text render(w) as the model's semW says and orders rows as the model's rowBefore says "
               "(modelled, not verified; exercised by every ids line on a real in-memory database)",
               "columns without type affinity; values are None, int (64 bit), str without NUL, bytes/bytearray/memoryview or an object that the driver adapts to a text (one BLOB; "
               "LIKE never matches a BLOB: this SQLite is built with LIKE_DOESNT_MATCH_BLOBS); operator names are ASCII; "
               "column expressions are what the caller would write in SQL (a keyword as column name is written quoted)",
               "the caller's own texts contain no placeholder character: decidable predicate `clean`, evaluated by the driver on "
               "every request (hypothesis of C15.placeholders; never false on generated input)",
               "a static condition is the caller's own SQL: an opaque boolean expression whose value per row is computed by SQLite "
               "and supplied to the model and the oracle; at top level it is AND-ed as it stands, so a top-level static text with "
               "a bare OR next to other conditions is outside the property (inside _or(...) it is inside)",
               "an operand that is neither None, int, str nor bytes-like is an object the driver adapts when it binds it: the "
               "condition means the comparison with what the driver writes for the object (sqlite3: a text; model: Value.obj with "
               "that image, Value.db); the oracle compares bound values as the driver writes them, so a code that spelled the "
               "object exactly like the driver would pass the oracle (and differ from the model, which hands over the object)",
               "an item of the ORDER BY text is the caller's own SQL expression: its value per row is computed by SQLite and "
               "supplied to the model and the oracle, rows are ordered by these values in SQLite's order of values (no COLLATE, "
               "NULLS FIRST/LAST or ASC spelling is generated; expressions that overflow or turn REAL on the table are not used); "
               "ORDER BY texts under which two rows tie are not generated (the sequence would be SQLite's choice)",
               "'=' with a set is out of domain (a set is refused by sqlite3 as a parameter: generated only in the malformed "
               "stream); GROUP BY is text only (rows are computed only for GROUP BY id)"]
LEVEL_TEXT = ("Proved in Lean for all calls, rows and tables, on the model that the driver executes: the value of the generated "
              "WHERE clause under SQL three-valued logic equals the AND of what the caller's conditions mean (=/!= with None "
              "-> IS [NOT] NULL, with a list/tuple -> [NOT] IN of any length, empty IN false / empty NOT IN true, OR groups incl. "
              "nested and keyword members, None arguments ignored, every keyword argument except exactly _order_by/_as_scalars "
              "(names read from the source) is an equality filter, in any order) [selects_eval, selects, satisfied_iff, "
              "none_ignored, kwargs_order, option_keys, in_semantics]; what run returns: exactly the satisfying rows, permuted "
              "into the ORDER BY in effect (_order_by overrides, None cancels the default) under a model of SQLite's value order "
              "proved to be a strict total order, then list/one/one_or_none [returns_exactly, value_order, methods]; the ORDER BY "
              "text in effect reaches the statement character by character behind ' ORDER BY ' - nothing in it is split, trimmed "
              "or re-spelled, so '-col' stays SQL's unary minus - and a key is an opaque expression: the order of two rows depends "
              "on it only through the values computed for that text [order_text_verbatim, order_keys_opaque]; every bound value "
              "is one of the objects the caller wrote, handed over as it is - also an object of a class that only the driver "
              "adapts (datetime, date, __conform__, registered adapter: Value.obj), which is compared as the driver's image of it "
              "and refused by LIKE as by the code [bound_values_are_callers]; one "
              "placeholder mark per bound value under a decidable cleanliness predicate checked on every request, every clause "
              "consuming exactly the values of its own marks left to right [placeholders, placeholders_in_order]; a non-empty OR "
              "group is always one parenthesised unit, also around a single static operand [groups_parenthesised]; the text does "
              "not change by one character when only values change [values_only_bound, noninterference]; for conditions whose field "
              "name is a str (the model's Cond type; the real code raises AssertionError for a (None, op, value) tuple and TypeError "
              "for a non-str field such as (5, '=', 1): outside the model) no failure other than "
              "ValueError/AttributeError of a constructor, a refused parameter or TypeError for a non-text _order_by "
              "[only_rejections]; both clause tables and all fixed text pieces, regenerated from ak/mtd_sql.py on every run, "
              "spell the SQL the AST nodes mean [clauses_ok, consts_ok]. Model = code (SQL text, number of marks, parameter "
              "list, returned ids for list/all/one/one_or_none/SqlMethodT, exception classes, reuse of one SqlMethod object) by "
              "a differential run against the real SqlMethod on a real in-memory sqlite3; that SQLite evaluates the text and "
              "orders rows as the model says, and that the driver writes an adapted object as the image the harness supplies, rests "
              "on that run only (modelled, not verified). Documented exclusion: a static condition (a plain string) is the caller's "
              "own SQL, not one of the condition kinds the statement lists; at top level it is AND-ed as it stands, so "
              "m.list(conn, 'a = 7 OR id = 99', b=2) gives 'a = 7 OR id = 99 AND b = ?' without parentheses - the precedence is the "
              "caller's; such calls are not judged (inside _or(...) a static text is one parenthesised unit: groups_parenthesised).")
LEVEL_NOTE = ("Trusted: Lean kernel (axioms propext, Classical.choice, Quot.sound), translator/adapter/oracle in harness/c15.py, "
              "sampled correspondence (rows over NULL/ints/texts/BLOBs with quotes, %, _, backslashes, SQL fragments; all 12 operations "
              "x value kinds incl. adapted objects; ORDER BY items that are expressions; list lengths up to 2500; column names incl. leading underscore; malformed stream limited to one "
              "failing constructor per call), sqlite3/SQLite 3.40.1, str.upper on ASCII. Out of the model: the inside of static "
              "conditions and of ORDER BY key expressions (opaque; their value per row is supplied; precedence of the parenthesised text "
              "rests on the tie), column affinity, floats (REAL), bool, adapted objects whose image is not a text, ints beyond 64 bit, "
              "NUL characters, COLLATE / NULLS FIRST|LAST / ASC in ORDER BY, ties under the requested order, GROUP BY semantics (text only), "
              "conditions whose field name is not a str (AssertionError / TypeError of the real code), "
              "which exception wins when several conditions are malformed, _order_by='' (dangling ORDER BY).")
TECHNIQUE = ("Lean 4: WHERE-clause AST with 3-valued semantics, mutual induction over the nested condition tree, insertion-sort "
             "ORDER BY model over opaque key expressions, a value kind for driver-adapted objects; translator for clause tables, text constants and option keys; differential run against SqlMethod + "
             "sqlite3; independent 3VL oracle in Python with marker values for the bound-parameter checks")
